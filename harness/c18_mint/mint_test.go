package c18

import (
	"fmt"
	"math/big"
	"strings"
	"testing"

	sdk "github.com/cosmos/cosmos-sdk/types"
	authtypes "github.com/cosmos/cosmos-sdk/x/auth/types"
	distrtypes "github.com/cosmos/cosmos-sdk/x/distribution/types"
	"pgregory.net/rapid"

	"github.com/osmosis-labs/osmosis/osmomath"
	incentivestypes "github.com/osmosis-labs/osmosis/v31/x/incentives/types"
	minttypes "github.com/osmosis-labs/osmosis/v31/x/mint/types"
	pitypes "github.com/osmosis-labs/osmosis/v31/x/pool-incentives/types"

	"verif/harness/chain"
	"verif/harness/drv"
)

func TestMain(m *testing.M) { drv.Main(m) }

const rule = "between mint epochs the end/start signals of other timers (week/day/hour, epoch numbers incl. the configured start epoch) are delivered and must leave the mint store and the supply untouched; mint parameters drawn per case: four 18-decimal proportions summing to 1 (zeros included), reduction factor in (0,1], reduction period 1..10 epochs, start epoch 0..5, 0-6 weighted developer receivers (weights summing to 1, empty addresses included), initial provision 0..1e18 incl. fractional values, developer vesting account amply funded or (a quarter of the cases) holding before every epoch exactly that epoch's developer share plus a slack smaller than the rest of the provision, pool-incentives distribution records with random weights incl. the community-pool gauge 0 or none; then 1..40 consecutive AfterEpochEnd signals of the mint epoch (a failing hook is rolled back as the epochs module does); oracle in big.Rat: provision multiplied by the factor exactly at epochs e >= period + lastReduction (first at start+period) and never otherwise, nothing before the start epoch; per epoch: fee collector +floor(p*staking), developer receivers +floor(floor(p*dev)*w_i), pool-incentives + incentives + community pool together + floor(p*pool) + remainder + empty-address shares, mint module balance 0, reported supply (with offset) + floor(p) minus the receiver-truncation dust that stays in the vesting account; non-trivial = a reduction happened inside the run and >= 2 proportions have non-integral shares; distinct by parameter hash"

var e18 = new(big.Int).Exp(big.NewInt(10), big.NewInt(18), nil)

func decRat(d osmomath.Dec) *big.Rat { return new(big.Rat).SetFrac(d.BigInt(), e18) }
func floorRat(r *big.Rat) *big.Int   { return new(big.Int).Quo(r.Num(), r.Denom()) }

// mulDec is LegacyDec.Mul on exact rationals: product rounded half-even to 18 decimals.
func mulDec(a, b *big.Rat) *big.Rat {
	p := new(big.Rat).Mul(a, b)
	n := new(big.Int).Mul(p.Num(), e18)
	q, r := new(big.Int).QuoRem(n, p.Denom(), new(big.Int))
	twice := new(big.Int).Mul(r, big.NewInt(2))
	switch c := twice.Cmp(p.Denom()); {
	case c > 0, c == 0 && q.Bit(0) == 1:
		q.Add(q, big.NewInt(1))
	}
	return new(big.Rat).SetFrac(q, e18)
}

func genProportions(rt *rapid.T, n int, label string) []osmomath.Dec {
	// n non-negative 18-decimal numbers summing to exactly 1
	cuts := make([]int64, n-1)
	for i := range cuts {
		switch rapid.IntRange(0, 3).Draw(rt, fmt.Sprintf("%sShape%d", label, i)) {
		case 0:
			cuts[i] = 0
		case 1:
			cuts[i] = 1_000_000_000_000_000_000
		default:
			cuts[i] = rapid.Int64Range(0, 1_000_000_000_000_000_000).Draw(rt, fmt.Sprintf("%sCut%d", label, i))
		}
	}
	for i := range cuts {
		for j := i + 1; j < len(cuts); j++ {
			if cuts[j] < cuts[i] {
				cuts[i], cuts[j] = cuts[j], cuts[i]
			}
		}
	}
	out := make([]osmomath.Dec, n)
	prev := int64(0)
	for i, c := range cuts {
		out[i] = osmomath.NewDecWithPrec(c-prev, 18)
		prev = c
	}
	out[n-1] = osmomath.NewDecWithPrec(1_000_000_000_000_000_000-prev, 18)
	return out
}

func TestPropMint(t *testing.T) {
	drv.Check(t, drv.Cfg{Name: "mint-schedule", Rule: rule, Quick: 300, Thorough: 15000}, func(rt *rapid.T, cs *drv.Case) {
		c := chain.New(t)
		mk := c.App.MintKeeper
		params := mk.GetParams(c.Ctx)
		denom := params.MintDenom
		props := genProportions(rt, 4, "prop")
		params.DistributionProportions = minttypes.DistributionProportions{Staking: props[0], PoolIncentives: props[1], DeveloperRewards: props[2], CommunityPool: props[3]}
		switch rapid.IntRange(0, 3).Draw(rt, "factorShape") {
		case 0:
			params.ReductionFactor = osmomath.OneDec()
		case 1:
			params.ReductionFactor = osmomath.NewDecWithPrec(5, 1)
		default:
			params.ReductionFactor = osmomath.NewDecWithPrec(rapid.Int64Range(1, 1_000_000_000_000_000_000).Draw(rt, "factor"), 18)
		}
		params.ReductionPeriodInEpochs = int64(rapid.IntRange(1, 10).Draw(rt, "period"))
		params.MintingRewardsDistributionStartEpoch = int64(rapid.IntRange(0, 5).Draw(rt, "startEpoch"))
		nrecv := rapid.IntRange(0, 6).Draw(rt, "receivers")
		params.WeightedDeveloperRewardsReceivers = nil
		if nrecv == 1 {
			nrecv = 2
		}
		var recvAddrs []sdk.AccAddress
		if nrecv > 0 {
			ws := genProportions(rt, nrecv, "weight")
			for i := 0; i < nrecv; i++ {
				addr := ""
				if rapid.IntRange(0, 3).Draw(rt, fmt.Sprintf("emptyAddr%d", i)) != 0 {
					a := chain.Actor(10 + i)
					addr = a.String()
					recvAddrs = append(recvAddrs, a)
				} else {
					recvAddrs = append(recvAddrs, nil)
				}
				params.WeightedDeveloperRewardsReceivers = append(params.WeightedDeveloperRewardsReceivers, minttypes.WeightedAddress{Address: addr, Weight: ws[i]})
			}
		}
		if err := params.Validate(); err != nil {
			rt.Skip("parameter set rejected by validation: " + err.Error())
		}
		mk.SetParams(c.Ctx, params)
		// initial provision
		var prov osmomath.Dec
		switch rapid.IntRange(0, 4).Draw(rt, "provShape") {
		case 0:
			prov = osmomath.ZeroDec()
		case 1:
			prov = osmomath.NewDecWithPrec(rapid.Int64Range(0, 999_999_999_999_999_999).Draw(rt, "provFrac"), 18)
		case 2:
			prov = osmomath.NewDec(rapid.Int64Range(1, 1_000_000_000_000_000_000).Draw(rt, "provInt"))
		default:
			prov = osmomath.NewDecWithPrec(rapid.Int64Range(1, 1<<62).Draw(rt, "provMix"), int64(rapid.IntRange(0, 18).Draw(rt, "provPrec")))
		}
		mk.SetMinter(c.Ctx, minttypes.NewMinter(prov))
		// the developer vesting account must be able to pay (it is pre-funded at mainnet genesis)
		devAcc := authtypes.NewModuleAddress(minttypes.DeveloperVestingModuleAcctName)
		big1, _ := new(big.Int).SetString("100000000000000000000000", 10)
		if err := c.App.BankKeeper.MintCoins(c.Ctx, minttypes.ModuleName, sdk.NewCoins(sdk.NewCoin(denom, osmomath.NewIntFromBigInt(big1)))); err != nil {
			rt.Fatalf("harness: %v", err)
		}
		if err := c.App.BankKeeper.SendCoinsFromModuleToModule(c.Ctx, minttypes.ModuleName, minttypes.DeveloperVestingModuleAcctName, sdk.NewCoins(sdk.NewCoin(denom, osmomath.NewIntFromBigInt(big1)))); err != nil {
			rt.Fatalf("harness: %v", err)
		}
		// pool-incentives distribution records: none / community pool only / as configured at genesis
		switch rapid.IntRange(0, 2).Draw(rt, "distrRecords") {
		case 0:
			c.App.PoolIncentivesKeeper.SetDistrInfo(c.Ctx, pitypes.DistrInfo{TotalWeight: osmomath.ZeroInt()})
		case 1:
			c.App.PoolIncentivesKeeper.SetDistrInfo(c.Ctx, pitypes.DistrInfo{TotalWeight: osmomath.NewInt(7), Records: []pitypes.DistrRecord{{GaugeId: 0, Weight: osmomath.NewInt(7)}}})
		}
		mintAcc := authtypes.NewModuleAddress(minttypes.ModuleName)
		feeAcc := authtypes.NewModuleAddress(authtypes.FeeCollectorName)
		piAcc := authtypes.NewModuleAddress(pitypes.ModuleName)
		incAcc := authtypes.NewModuleAddress(incentivestypes.ModuleName)
		cpAcc := authtypes.NewModuleAddress(distrtypes.ModuleName)
		bal := func(a sdk.AccAddress) *big.Int { return c.Bal(a, denom).Amount.BigInt() }
		supply := func() *big.Int { return c.App.BankKeeper.GetSupplyWithOffset(c.Ctx, denom).Amount.BigInt() }

		// reference model
		provR := decRat(prov)
		factor := decRat(params.ReductionFactor)
		lastReduction := int64(-1)
		reductions, fractional := 0, 0
		nep := rapid.IntRange(1, 40).Draw(rt, "epochs")
		first := int64(rapid.IntRange(0, int(params.MintingRewardsDistributionStartEpoch)).Draw(rt, "firstEpoch"))
		// in a quarter of the cases the developer vesting account is nearly spent: before every paying epoch it holds exactly the
		// developer share of that epoch plus a slack below the rest of the provision (it still covers what it has to pay)
		tight := rapid.IntRange(0, 3).Draw(rt, "vestingAccountNearlySpent") == 0
		sink := chain.Actor(7)
		for e := first; e < first+int64(nep); e++ {
			if tight && e >= params.MintingRewardsDistributionStartEpoch {
				np, lr := new(big.Rat).Set(provR), lastReduction
				if e == params.MintingRewardsDistributionStartEpoch {
					lr = e
				}
				if e >= params.ReductionPeriodInEpochs+lr {
					np = mulDec(np, factor)
				}
				pInt := floorRat(np)
				dvN := floorRat(mulDec(new(big.Rat).SetInt(pInt), decRat(props[2])))
				target := new(big.Int).Set(dvN)
				if room := new(big.Int).Sub(pInt, dvN); room.Sign() > 0 {
					switch rapid.IntRange(0, 2).Draw(rt, "vestingSlack") {
					case 1:
						target.Add(target, big.NewInt(1))
						if target.Cmp(pInt) >= 0 {
							target.Set(dvN)
						}
					case 2:
						k := big.NewInt(rapid.Int64Range(0, 1<<40).Draw(rt, "slackFrac"))
						sl := new(big.Int).Mul(room, k)
						sl.Rsh(sl, 41)
						target.Add(target, sl)
					}
					if target.Cmp(pInt) < 0 && dvN.Sign() > 0 {
						cs.Class("vesting-balance-below-provision")
					}
				}
				cur := bal(devAcc)
				if d := new(big.Int).Sub(cur, target); d.Sign() > 0 {
					if err := c.App.BankKeeper.SendCoinsFromModuleToAccount(c.Ctx, minttypes.DeveloperVestingModuleAcctName, sink, sdk.NewCoins(sdk.NewCoin(denom, osmomath.NewIntFromBigInt(d)))); err != nil {
						rt.Fatalf("harness: %v", err)
					}
				} else if d.Sign() < 0 {
					add := sdk.NewCoins(sdk.NewCoin(denom, osmomath.NewIntFromBigInt(d.Neg(d))))
					if err := c.App.BankKeeper.MintCoins(c.Ctx, minttypes.ModuleName, add); err != nil {
						rt.Fatalf("harness: %v", err)
					}
					if err := c.App.BankKeeper.SendCoinsFromModuleToModule(c.Ctx, minttypes.ModuleName, minttypes.DeveloperVestingModuleAcctName, add); err != nil {
						rt.Fatalf("harness: %v", err)
					}
				}
			}
			pre := map[string]*big.Int{"mint": bal(mintAcc), "fee": bal(feeAcc), "pi": bal(piAcc), "inc": bal(incAcc), "cp": bal(cpAcc), "dev": bal(devAcc)}
			preRecv := make([]*big.Int, len(recvAddrs))
			for i, a := range recvAddrs {
				if a != nil {
					preRecv[i] = bal(a)
				}
			}
			// signals of the other timers of the chain (the mint epoch is one of several identifiers; their epoch numbers are
			// unrelated and do hit the configured start epoch): minting must ignore them entirely
			for k := rapid.IntRange(0, 2).Draw(rt, "foreignSignals"); k > 0; k-- {
				other := rapid.SampledFrom([]string{"week", "day", "hour", "another"}).Draw(rt, "foreignIdentifier")
				if other == params.EpochIdentifier {
					continue
				}
				var n int64
				switch rapid.IntRange(0, 2).Draw(rt, "foreignNumberKind") {
				case 0:
					n = params.MintingRewardsDistributionStartEpoch
				case 1:
					n = e
				default:
					n = int64(rapid.IntRange(0, 12).Draw(rt, "foreignNumber"))
				}
				d0, s0 := c.DigestStores(minttypes.StoreKey), supply()
				if err := c.Try(func(ctx sdk.Context) error {
					if err := mk.Hooks().BeforeEpochStart(ctx, other, n); err != nil {
						return err
					}
					return mk.Hooks().AfterEpochEnd(ctx, other, n)
				}); err != nil {
					rt.Fatalf("mint hooks failed on the signal of another timer (%s, %d): %v", other, n, err)
				}
				if c.DigestStores(minttypes.StoreKey) != d0 || supply().Cmp(s0) != 0 {
					rt.Fatalf("the end of epoch %d of timer %q (not the mint timer %q) changed the mint module's state or the supply [params %s]", n, other, params.EpochIdentifier, describe(params, prov))
				}
				cs.Class("foreign-epoch-signal")
			}
			sup0 := supply()
			err := c.Try(func(ctx sdk.Context) error { return mk.Hooks().AfterEpochEnd(ctx, params.EpochIdentifier, e) })
			if err != nil {
				rt.Fatalf("mint AfterEpochEnd(epoch %d) failed: %v [params %s]", e, err, describe(params, prov))
			}
			if e < params.MintingRewardsDistributionStartEpoch {
				if supply().Cmp(sup0) != 0 || bal(feeAcc).Cmp(pre["fee"]) != 0 {
					rt.Fatalf("epoch %d is before the start epoch %d but coins were minted", e, params.MintingRewardsDistributionStartEpoch)
				}
				continue
			}
			if e == params.MintingRewardsDistributionStartEpoch {
				lastReduction = e
			}
			if e >= params.ReductionPeriodInEpochs+lastReduction {
				provR = mulDec(provR, factor)
				lastReduction = e
				reductions++
			}
			got := mk.GetMinter(c.Ctx).EpochProvisions
			if decRat(got).Cmp(provR) != 0 {
				rt.Fatalf("epoch %d: epoch provision is %s, the schedule (factor %s every %d epochs from epoch %d) gives %s [params %s]", e, got, params.ReductionFactor, params.ReductionPeriodInEpochs, params.MintingRewardsDistributionStartEpoch, provR.FloatString(18), describe(params, prov))
			}
			p := floorRat(provR)
			share := func(x osmomath.Dec) *big.Int {
				r := mulDec(new(big.Rat).SetInt(p), decRat(x))
				if new(big.Rat).SetInt(floorRat(r)).Cmp(r) != 0 {
					fractional++
				}
				return floorRat(r)
			}
			st, pl, dv := share(props[0]), share(props[1]), share(props[2])
			rem := new(big.Int).Sub(p, new(big.Int).Add(st, new(big.Int).Add(pl, dv)))
			if d := new(big.Int).Sub(bal(feeAcc), pre["fee"]); d.Cmp(st) != 0 {
				rt.Fatalf("epoch %d: staking rewards account received %s, floor(%s * %s) = %s", e, d, p, props[0], st)
			}
			paidRecv, toCommunity := new(big.Int), new(big.Int)
			if len(recvAddrs) == 0 {
				toCommunity.Add(toCommunity, dv)
				paidRecv.Add(paidRecv, dv)
			}
			for i, a := range recvAddrs {
				want := floorRat(mulDec(new(big.Rat).SetInt(dv), decRat(params.WeightedDeveloperRewardsReceivers[i].Weight)))
				paidRecv.Add(paidRecv, want)
				if a == nil {
					toCommunity.Add(toCommunity, want)
					continue
				}
				if d := new(big.Int).Sub(bal(a), preRecv[i]); d.Cmp(want) != 0 {
					rt.Fatalf("epoch %d: developer receiver %d received %s, floor(floor(p*dev)*w) = %s (p=%s dev=%s w=%s)", e, i, d, want, p, dv, params.WeightedDeveloperRewardsReceivers[i].Weight)
				}
			}
			// several receivers may share an address: compare the vesting account instead
			if d := new(big.Int).Sub(pre["dev"], bal(devAcc)); d.Cmp(paidRecv) != 0 {
				rt.Fatalf("epoch %d: developer vesting account paid out %s, receivers are owed %s", e, d, paidRecv)
			}
			grp := new(big.Int)
			for k, a := range map[string]sdk.AccAddress{"pi": piAcc, "inc": incAcc, "cp": cpAcc} {
				grp.Add(grp, new(big.Int).Sub(bal(a), pre[k]))
			}
			wantGrp := new(big.Int).Add(pl, new(big.Int).Add(rem, toCommunity))
			if grp.Cmp(wantGrp) != 0 {
				rt.Fatalf("epoch %d: pool incentives + gauges + community pool received %s, expected pool share %s + community remainder %s + empty-address developer shares %s [params %s]", e, grp, pl, rem, toCommunity, describe(params, prov))
			}
			if bal(mintAcc).Sign() != 0 {
				rt.Fatalf("epoch %d: mint module account holds %s after distribution (every minted coin must be allocated) [params %s]", e, bal(mintAcc), describe(params, prov))
			}
			dust := new(big.Int).Sub(dv, paidRecv)
			wantSup := new(big.Int).Sub(p, dust)
			if d := new(big.Int).Sub(supply(), sup0); d.Cmp(wantSup) != 0 {
				rt.Fatalf("epoch %d: reported supply grew by %s, integer provision is %s (receiver truncation dust %s) [params %s]", e, d, p, dust, describe(params, prov))
			}
			if dust.Sign() > 0 {
				cs.Class("receiver-truncation-dust")
			}
		}
		if props[3].IsZero() {
			cs.Class("zero-community-proportion")
		}
		if reductions > 0 {
			cs.Class("reduction-inside-run")
		}
		if reductions > 0 && fractional >= 2 {
			cs.NonTrivial(describe(params, prov) + fmt.Sprintf("|%d|%d", first, nep))
			cs.Samplef("%s epochs %d..%d reductions=%d", describe(params, prov), first, first+int64(nep)-1, reductions)
		}
	})
}

func describe(p minttypes.Params, prov osmomath.Dec) string {
	var w []string
	for _, r := range p.WeightedDeveloperRewardsReceivers {
		a := "empty"
		if r.Address != "" {
			a = r.Address[len(r.Address)-4:]
		}
		w = append(w, a+":"+r.Weight.String())
	}
	return fmt.Sprintf("prov=%s proportions=[%s %s %s %s] factor=%s period=%d start=%d receivers=[%s]", prov, p.DistributionProportions.Staking, p.DistributionProportions.PoolIncentives, p.DistributionProportions.DeveloperRewards, p.DistributionProportions.CommunityPool, p.ReductionFactor, p.ReductionPeriodInEpochs, p.MintingRewardsDistributionStartEpoch, strings.Join(w, " "))
}
