package c12

import (
	"fmt"
	"math/big"
	"strings"
	"testing"

	"pgregory.net/rapid"

	"github.com/osmosis-labs/osmosis/osmomath"

	"verif/harness/drv"
	"verif/harness/ref"
)

func TestMain(m *testing.M) { drv.Main(m) }

const (
	maxDecBits = 1144 // osmomath: maxBitLen(1024) + BigDecimalPrecisionBits(120)
	maxIntBits = 1024
	sdkDecBits = 315 // cosmossdk.io/math LegacyDec: 256 + 60 - keep 18-decimal operands inside it
)

var (
	P   = ref.Pow10(36)
	D   = ref.Pow10(18)
	PP  = ref.Pow10(72)
	P18 = ref.Pow10(18) // 36-18
)

// ---- generators ------------------------------------------------------------------------------

func randBits(rt *rapid.T, label string, bits int) *big.Int {
	if bits == 0 {
		return new(big.Int)
	}
	n := (bits + 7) / 8
	bz := rapid.SliceOfN(rapid.Byte(), n, n).Draw(rt, label+"Bytes")
	v := new(big.Int).SetBytes(bz)
	v.SetBit(v, bits-1, 1) // exact bit length
	for i := bits; i < n*8; i++ {
		v.SetBit(v, i, 0)
	}
	return v
}

// genScaled draws a scaled integer of at most maxBits bits: sign x magnitude, boundary biased.
func genScaled(rt *rapid.T, label string, maxBits int) *big.Int {
	var v *big.Int
	switch rapid.IntRange(0, 11).Draw(rt, label+"Shape") {
	case 0, 1, 2, 3:
		v = randBits(rt, label, rapid.IntRange(0, maxBits).Draw(rt, label+"Bits"))
	case 4:
		v = randBits(rt, label, rapid.IntRange(0, 200).Draw(rt, label+"Bits"))
	case 5: // small whole number
		v = new(big.Int).Mul(big.NewInt(int64(rapid.IntRange(0, 12).Draw(rt, label+"Small"))), P)
	case 6: // power of ten +- 1
		maxK := int(float64(maxBits) * 0.30102)
		v = ref.Pow10(rapid.IntRange(0, maxK).Draw(rt, label+"Pow"))
		v.Add(v, big.NewInt(int64(rapid.IntRange(-1, 1).Draw(rt, label+"Off"))))
	case 7: // 18-decimal value
		v = randBits(rt, label, rapid.IntRange(0, maxBits-60).Draw(rt, label+"Bits"))
		v.Mul(v, D)
		if v.BitLen() > maxBits {
			v.Rsh(v, uint(v.BitLen()-maxBits))
		}
	case 8: // just below the bound
		v = new(big.Int).Lsh(ref.One, uint(maxBits))
		v.Sub(v, big.NewInt(int64(rapid.IntRange(1, 1000).Draw(rt, label+"Below"))))
	case 9: // small fraction digits: k * 10^j
		v = new(big.Int).Mul(big.NewInt(int64(rapid.IntRange(1, 99).Draw(rt, label+"K"))), ref.Pow10(rapid.IntRange(0, 40).Draw(rt, label+"J")))
	case 10: // one ulp, few ulps
		v = big.NewInt(int64(rapid.IntRange(0, 7).Draw(rt, label+"Ulps")))
	default: // half units: odd * 5*10^k
		k := rapid.IntRange(0, 35).Draw(rt, label+"HK")
		v = randBits(rt, label, rapid.IntRange(0, 300).Draw(rt, label+"Bits"))
		v.SetBit(v, 0, 1)
		v.Mul(v, ref.Pow10(k)).Mul(v, big.NewInt(5))
	}
	if v.BitLen() > maxBits {
		v.Rsh(v, uint(v.BitLen()-maxBits))
	}
	if rapid.IntRange(0, 2).Draw(rt, label+"Neg") == 0 {
		v.Neg(v)
	}
	return v
}

func mkBigDec(v *big.Int) osmomath.BigDec {
	return osmomath.NewBigDecFromBigIntWithPrec(new(big.Int).Set(v), 36)
}

func mkDec(v *big.Int) osmomath.Dec {
	return osmomath.NewDecFromBigIntWithPrec(new(big.Int).Set(v), 18)
}

func mkBigInt(v *big.Int) osmomath.BigInt { return osmomath.NewBigIntFromBigInt(new(big.Int).Set(v)) }

// ---- spec ------------------------------------------------------------------------------------

type mode int

const (
	mExact mode = iota // result must be representable exactly
	mTrunc
	mCeil
	mEven
)

func (m mode) String() string {
	return [...]string{"exact", "toward-zero", "toward+inf", "half-even"}[m]
}

func round(num, den *big.Int, m mode) (*big.Int, bool) {
	exact := ref.Exact(num, den)
	switch m {
	case mExact:
		if !exact {
			panic("spec: inexact result for exact op")
		}
		return ref.DivTrunc(num, den), true
	case mTrunc:
		return ref.DivTrunc(num, den), exact
	case mCeil:
		return ref.DivCeil(num, den), exact
	default:
		return ref.DivHalfEven(num, den), exact
	}
}

// call runs f and reports whether it panicked.
func call(f func() *big.Int) (res *big.Int, panicked bool, msg any) {
	defer func() {
		if r := recover(); r != nil {
			panicked, msg = true, r
		}
	}()
	return f(), false, nil
}

type operandKind int

const (
	kBigDec operandKind = iota
	kDec
	kBigInt
	kInt64
	kNone
)

// op describes one exported operation: how to call it on (A, B) and its exact specification num/den.
type op struct {
	name    string
	kind    operandKind
	m       mode
	asserts bool // result beyond the bound must panic ("Int overflow")
	bound   int  // bit-length bound of the result type (0 = 1144, BigDec)
	mut     bool // mutating form: receiver must hold the result afterwards
	pairOf  string
	// spec: exact result = num/den in units of the result grid (10^-36)
	spec func(A, B *big.Int) (num, den *big.Int)
	// impl on fresh operands; recv is returned so callers can inspect mutation
	impl func(a osmomath.BigDec, B *big.Int) *big.Int
	// negRoundUpFamily: member of the round-up division family (known finding C12-roundup-negative)
	roundUpFamily bool
}

func mul(a, b *big.Int) *big.Int { return new(big.Int).Mul(a, b) }

var ops = []op{
	{name: "Add", kind: kBigDec, m: mExact, asserts: true, spec: func(A, B *big.Int) (*big.Int, *big.Int) { return new(big.Int).Add(A, B), ref.One },
		impl: func(a osmomath.BigDec, B *big.Int) *big.Int { return a.Add(mkBigDec(B)).BigInt() }},
	{name: "AddMut", kind: kBigDec, m: mExact, asserts: true, mut: true, pairOf: "Add", spec: func(A, B *big.Int) (*big.Int, *big.Int) { return new(big.Int).Add(A, B), ref.One },
		impl: func(a osmomath.BigDec, B *big.Int) *big.Int { return a.AddMut(mkBigDec(B)).BigInt() }},
	{name: "Sub", kind: kBigDec, m: mExact, asserts: true, spec: func(A, B *big.Int) (*big.Int, *big.Int) { return new(big.Int).Sub(A, B), ref.One },
		impl: func(a osmomath.BigDec, B *big.Int) *big.Int { return a.Sub(mkBigDec(B)).BigInt() }},
	{name: "SubMut", kind: kBigDec, m: mExact, asserts: true, mut: true, pairOf: "Sub", spec: func(A, B *big.Int) (*big.Int, *big.Int) { return new(big.Int).Sub(A, B), ref.One },
		impl: func(a osmomath.BigDec, B *big.Int) *big.Int { return a.SubMut(mkBigDec(B)).BigInt() }},
	{name: "Mul", kind: kBigDec, m: mEven, asserts: true, spec: func(A, B *big.Int) (*big.Int, *big.Int) { return mul(A, B), P },
		impl: func(a osmomath.BigDec, B *big.Int) *big.Int { return a.Mul(mkBigDec(B)).BigInt() }},
	{name: "MulMut", kind: kBigDec, m: mEven, asserts: true, mut: true, pairOf: "Mul", spec: func(A, B *big.Int) (*big.Int, *big.Int) { return mul(A, B), P },
		impl: func(a osmomath.BigDec, B *big.Int) *big.Int { return a.MulMut(mkBigDec(B)).BigInt() }},
	{name: "MulDec", kind: kDec, m: mEven, asserts: true, spec: func(A, B *big.Int) (*big.Int, *big.Int) { return mul(A, B), D },
		impl: func(a osmomath.BigDec, B *big.Int) *big.Int { return a.MulDec(mkDec(B)).BigInt() }},
	{name: "MulDecMut", kind: kDec, m: mEven, asserts: true, mut: true, pairOf: "MulDec", spec: func(A, B *big.Int) (*big.Int, *big.Int) { return mul(A, B), D },
		impl: func(a osmomath.BigDec, B *big.Int) *big.Int { return a.MulDecMut(mkDec(B)).BigInt() }},
	{name: "MulTruncate", kind: kBigDec, m: mTrunc, asserts: true, spec: func(A, B *big.Int) (*big.Int, *big.Int) { return mul(A, B), P },
		impl: func(a osmomath.BigDec, B *big.Int) *big.Int { return a.MulTruncate(mkBigDec(B)).BigInt() }},
	{name: "MulTruncateDec", kind: kDec, m: mTrunc, asserts: true, spec: func(A, B *big.Int) (*big.Int, *big.Int) { return mul(A, B), D },
		impl: func(a osmomath.BigDec, B *big.Int) *big.Int { return a.MulTruncateDec(mkDec(B)).BigInt() }},
	{name: "MulRoundUp", kind: kBigDec, m: mCeil, asserts: true, spec: func(A, B *big.Int) (*big.Int, *big.Int) { return mul(A, B), P },
		impl: func(a osmomath.BigDec, B *big.Int) *big.Int { return a.MulRoundUp(mkBigDec(B)).BigInt() }},
	{name: "MulRoundUpDec", kind: kDec, m: mCeil, asserts: true, spec: func(A, B *big.Int) (*big.Int, *big.Int) { return mul(A, B), D },
		impl: func(a osmomath.BigDec, B *big.Int) *big.Int { return a.MulRoundUpDec(mkDec(B)).BigInt() }},
	{name: "MulInt", kind: kBigInt, m: mExact, asserts: true, spec: func(A, B *big.Int) (*big.Int, *big.Int) { return mul(A, B), ref.One },
		impl: func(a osmomath.BigDec, B *big.Int) *big.Int { return a.MulInt(mkBigInt(B)).BigInt() }},
	{name: "MulInt64", kind: kInt64, m: mExact, asserts: true, spec: func(A, B *big.Int) (*big.Int, *big.Int) { return mul(A, B), ref.One },
		impl: func(a osmomath.BigDec, B *big.Int) *big.Int { return a.MulInt64(B.Int64()).BigInt() }},
	// Quo: half-even taken from the quotient truncated at 72 decimals
	{name: "Quo", kind: kBigDec, m: mEven, asserts: true, spec: func(A, B *big.Int) (*big.Int, *big.Int) { return ref.DivTrunc(mul(A, PP), B), P },
		impl: func(a osmomath.BigDec, B *big.Int) *big.Int { return a.Quo(mkBigDec(B)).BigInt() }},
	{name: "QuoMut", kind: kBigDec, m: mEven, asserts: true, mut: true, pairOf: "Quo", spec: func(A, B *big.Int) (*big.Int, *big.Int) { return ref.DivTrunc(mul(A, PP), B), P },
		impl: func(a osmomath.BigDec, B *big.Int) *big.Int { return a.QuoMut(mkBigDec(B)).BigInt() }},
	{name: "QuoRaw", kind: kInt64, m: mEven, asserts: true, spec: func(A, B *big.Int) (*big.Int, *big.Int) { return ref.DivTrunc(mul(A, P), B), P },
		impl: func(a osmomath.BigDec, B *big.Int) *big.Int { return a.QuoRaw(B.Int64()).BigInt() }},
	{name: "QuoTruncate", kind: kBigDec, m: mTrunc, asserts: true, spec: func(A, B *big.Int) (*big.Int, *big.Int) { return mul(A, P), B },
		impl: func(a osmomath.BigDec, B *big.Int) *big.Int { return a.QuoTruncate(mkBigDec(B)).BigInt() }},
	{name: "QuoTruncateMut", kind: kBigDec, m: mTrunc, asserts: true, mut: true, pairOf: "QuoTruncate", spec: func(A, B *big.Int) (*big.Int, *big.Int) { return mul(A, P), B },
		impl: func(a osmomath.BigDec, B *big.Int) *big.Int { return a.QuoTruncateMut(mkBigDec(B)).BigInt() }},
	{name: "QuoTruncateDec", kind: kDec, m: mTrunc, asserts: true, spec: func(A, B *big.Int) (*big.Int, *big.Int) { return mul(A, D), B },
		impl: func(a osmomath.BigDec, B *big.Int) *big.Int { return a.QuoTruncateDec(mkDec(B)).BigInt() }},
	{name: "QuoTruncateDecMut", kind: kDec, m: mTrunc, asserts: true, mut: true, pairOf: "QuoTruncateDec", spec: func(A, B *big.Int) (*big.Int, *big.Int) { return mul(A, D), B },
		impl: func(a osmomath.BigDec, B *big.Int) *big.Int { return a.QuoTruncateDecMut(mkDec(B)).BigInt() }},
	{name: "QuoRoundUp", kind: kBigDec, m: mCeil, asserts: true, roundUpFamily: true, spec: func(A, B *big.Int) (*big.Int, *big.Int) { return mul(A, P), B },
		impl: func(a osmomath.BigDec, B *big.Int) *big.Int { return a.QuoRoundUp(mkBigDec(B)).BigInt() }},
	{name: "QuoRoundUpMut", kind: kBigDec, m: mCeil, asserts: true, mut: true, pairOf: "QuoRoundUp", roundUpFamily: true, spec: func(A, B *big.Int) (*big.Int, *big.Int) { return mul(A, P), B },
		impl: func(a osmomath.BigDec, B *big.Int) *big.Int { return a.QuoRoundUpMut(mkBigDec(B)).BigInt() }},
	{name: "QuoByDecRoundUp", kind: kDec, m: mCeil, asserts: true, roundUpFamily: true, spec: func(A, B *big.Int) (*big.Int, *big.Int) { return mul(A, D), B },
		impl: func(a osmomath.BigDec, B *big.Int) *big.Int { return a.QuoByDecRoundUp(mkDec(B)).BigInt() }},
	// "round up to next integer": ceil(A/B) as a whole number
	{name: "QuoRoundUpNextIntMut", kind: kBigDec, m: mExact, asserts: true, mut: true, roundUpFamily: true, spec: func(A, B *big.Int) (*big.Int, *big.Int) { return mul(ref.DivCeil(A, B), P), ref.One },
		impl: func(a osmomath.BigDec, B *big.Int) *big.Int { return a.QuoRoundUpNextIntMut(mkBigDec(B)).BigInt() }},
	{name: "QuoInt", kind: kBigInt, m: mTrunc, spec: func(A, B *big.Int) (*big.Int, *big.Int) { return A, B },
		impl: func(a osmomath.BigDec, B *big.Int) *big.Int { return a.QuoInt(mkBigInt(B)).BigInt() }},
	{name: "QuoInt64", kind: kInt64, m: mTrunc, spec: func(A, B *big.Int) (*big.Int, *big.Int) { return A, B },
		impl: func(a osmomath.BigDec, B *big.Int) *big.Int { return a.QuoInt64(B.Int64()).BigInt() }},
	// unary
	{name: "Neg", kind: kNone, m: mExact, spec: func(A, B *big.Int) (*big.Int, *big.Int) { return new(big.Int).Neg(A), ref.One },
		impl: func(a osmomath.BigDec, B *big.Int) *big.Int { return a.Neg().BigInt() }},
	{name: "NegMut", kind: kNone, m: mExact, mut: true, pairOf: "Neg", spec: func(A, B *big.Int) (*big.Int, *big.Int) { return new(big.Int).Neg(A), ref.One },
		impl: func(a osmomath.BigDec, B *big.Int) *big.Int { return a.NegMut().BigInt() }},
	{name: "Abs", kind: kNone, m: mExact, spec: func(A, B *big.Int) (*big.Int, *big.Int) { return new(big.Int).Abs(A), ref.One },
		impl: func(a osmomath.BigDec, B *big.Int) *big.Int { return a.Abs().BigInt() }},
	{name: "AbsMut", kind: kNone, m: mExact, mut: true, pairOf: "Abs", spec: func(A, B *big.Int) (*big.Int, *big.Int) { return new(big.Int).Abs(A), ref.One },
		impl: func(a osmomath.BigDec, B *big.Int) *big.Int { return a.AbsMut().BigInt() }},
	{name: "Clone", kind: kNone, m: mExact, spec: func(A, B *big.Int) (*big.Int, *big.Int) { return A, ref.One },
		impl: func(a osmomath.BigDec, B *big.Int) *big.Int { return a.Clone().BigInt() }},
	{name: "Ceil", kind: kNone, m: mExact, spec: func(A, B *big.Int) (*big.Int, *big.Int) { return mul(ref.DivCeil(A, P), P), ref.One },
		impl: func(a osmomath.BigDec, B *big.Int) *big.Int { return a.Ceil().BigInt() }},
	{name: "CeilMut", kind: kNone, m: mExact, mut: true, pairOf: "Ceil", spec: func(A, B *big.Int) (*big.Int, *big.Int) { return mul(ref.DivCeil(A, P), P), ref.One },
		impl: func(a osmomath.BigDec, B *big.Int) *big.Int { return a.CeilMut().BigInt() }},
	{name: "TruncateDec", kind: kNone, m: mExact, spec: func(A, B *big.Int) (*big.Int, *big.Int) { return mul(ref.DivTrunc(A, P), P), ref.One },
		impl: func(a osmomath.BigDec, B *big.Int) *big.Int { return a.TruncateDec().BigInt() }},
	{name: "TruncateInt", kind: kNone, m: mTrunc, asserts: true, bound: maxIntBits, spec: func(A, B *big.Int) (*big.Int, *big.Int) { return A, P },
		impl: func(a osmomath.BigDec, B *big.Int) *big.Int { return a.TruncateInt().BigInt() }},
	{name: "RoundInt", kind: kNone, m: mEven, asserts: true, bound: maxIntBits, spec: func(A, B *big.Int) (*big.Int, *big.Int) { return A, P },
		impl: func(a osmomath.BigDec, B *big.Int) *big.Int { return a.RoundInt().BigInt() }},
	{name: "Dec", kind: kNone, m: mTrunc, spec: func(A, B *big.Int) (*big.Int, *big.Int) { return A, P18 },
		impl: func(a osmomath.BigDec, B *big.Int) *big.Int { return a.Dec().BigInt() }},
	{name: "DecRoundUp", kind: kNone, m: mCeil, roundUpFamily: true, spec: func(A, B *big.Int) (*big.Int, *big.Int) { return A, P18 },
		impl: func(a osmomath.BigDec, B *big.Int) *big.Int { return a.DecRoundUp().BigInt() }},
}

func opByName(n string) *op {
	for i := range ops {
		if ops[i].name == n {
			return &ops[i]
		}
	}
	return nil
}

func genOperand(rt *rapid.T, k operandKind) *big.Int {
	switch k {
	case kBigDec:
		return genScaled(rt, "b", maxDecBits)
	case kDec:
		return genScaled(rt, "b", sdkDecBits)
	case kBigInt:
		return genScaled(rt, "b", maxIntBits)
	case kInt64:
		switch rapid.IntRange(0, 3).Draw(rt, "i64Shape") {
		case 0:
			return big.NewInt(int64(rapid.IntRange(-12, 12).Draw(rt, "i64Small")))
		case 1:
			return big.NewInt(rapid.SampledFrom([]int64{1<<63 - 1, -1 << 63, 1 << 62, 1_000_000_000_000_000_000, -3, 3, 7}).Draw(rt, "i64Edge"))
		default:
			return big.NewInt(rapid.Int64().Draw(rt, "i64"))
		}
	}
	return new(big.Int)
}

const arithRule = "one exported BigDec operation per case (table of 39: add/sub/mul*/quo*/ceil/truncate/round/precision conversion, mutating and non-mutating) on operands drawn as sign x magnitude with bit length uniform in [0,1144] plus boundary shapes (powers of ten +-1, half-units, near the bound, 18-decimal, few ulps); oracle: exact big.Int rational result rounded in the mode the name selects; non-trivial = a rounding decision was made (inexact) or |result| within 2 bits of the bound or the overflow panic was required; distinct by (op, operands) hash"

func TestPropArith(t *testing.T) {
	drv.Check(t, drv.Cfg{Name: "bigdec-arith", Rule: arithRule, Quick: 30000, Thorough: 1500000}, func(rt *rapid.T, c *drv.Case) {
		o := ops[rapid.IntRange(0, len(ops)-1).Draw(rt, "op")]
		A := genScaled(rt, "a", maxDecBits)
		B := genOperand(rt, o.kind)
		alias := o.kind == kBigDec && !o.mut && rapid.IntRange(0, 19).Draw(rt, "alias") == 0
		if alias {
			B = new(big.Int).Set(A)
		} else if o.m == mEven && rapid.IntRange(0, 3).Draw(rt, "tieMode") == 0 {
			A, B = genTie(rt, o)
		} else if o.kind == kBigDec && (strings.HasPrefix(o.name, "Mul") || strings.HasPrefix(o.name, "Quo")) && rapid.IntRange(0, 4).Draw(rt, "boundMode") == 0 {
			A, B = genNearBound(rt, strings.HasPrefix(o.name, "Mul"))
		}
		checkOp(rt, c, o, A, B, alias)
	})
}

// genNearBound constructs two huge operands whose product (or quotient) has a bit length within two of the 1144-bit
// bound of a BigDec, with mantissas just above a power of two, just below the next one, or random: a result that still
// fits must be returned exactly, one that does not must fail - on either side of the bound, for every split of the bits
// between the operands.
func genNearBound(rt *rapid.T, isMul bool) (A, B *big.Int) {
	shaped := func(label string, bits int) *big.Int {
		if bits < 2 {
			bits = 2
		}
		switch rapid.IntRange(0, 2).Draw(rt, label+"Mantissa") {
		case 0: // just above 2^(bits-1)
			v := new(big.Int).Lsh(big.NewInt(1), uint(bits-1))
			return v.Add(v, big.NewInt(int64(rapid.IntRange(0, 1000).Draw(rt, label+"Above"))))
		case 1: // just below 2^bits
			v := new(big.Int).Lsh(big.NewInt(1), uint(bits))
			return v.Sub(v, big.NewInt(int64(rapid.IntRange(1, 1000).Draw(rt, label+"Below"))))
		default:
			v := randBits(rt, label, bits)
			return v.SetBit(v, bits-1, 1)
		}
	}
	t := rapid.IntRange(maxDecBits-2, maxDecBits+2).Draw(rt, "resultBits")
	j := rapid.IntRange(-1, 1).Draw(rt, "bitSlack")
	var la, lb int
	if isMul { // bits(A*B/1e36) ~ la + lb - 120
		la = rapid.IntRange(125, maxDecBits).Draw(rt, "aBits")
		lb = t + 120 - la + j
		if lb > maxDecBits {
			lb = maxDecBits
		}
	} else { // bits(A*1e36/B) ~ la - lb + 120
		lb = rapid.IntRange(2, 118).Draw(rt, "bBits")
		la = t - 120 + lb + j
		if la > maxDecBits {
			la = maxDecBits
		}
	}
	A, B = shaped("a", la), shaped("b", lb)
	if rapid.Bool().Draw(rt, "aNeg") {
		A.Neg(A)
	}
	if rapid.Bool().Draw(rt, "bNeg") {
		B.Neg(B)
	}
	return A, B
}

// genTie constructs operands whose exact result lies exactly on a rounding tie (then nudges it by
// -1/0/+1 ulp of A in a third of the cases), with the parity of the truncated quotient random.
func genTie(rt *rapid.T, o op) (A, B *big.Int) {
	n := randBits(rt, "tieN", rapid.IntRange(0, 400).Draw(rt, "tieNBits"))
	odd := new(big.Int).Add(new(big.Int).Mul(n, ref.Two), ref.One) // 2n+1
	B = new(big.Int)
	switch o.name {
	case "Mul", "MulMut", "MulDec", "MulDecMut":
		L := 36
		if o.kind == kDec {
			L = 18
		}
		k := rapid.IntRange(0, L-1).Draw(rt, "tieK")
		B = new(big.Int).Mul(big.NewInt(5), ref.Pow10(k))
		A = new(big.Int).Mul(odd, ref.Pow10(L-1-k))
		if rapid.Bool().Draw(rt, "tieSwap") && o.kind == kBigDec {
			A, B = B, A
		}
	case "Quo", "QuoMut":
		i := rapid.IntRange(0, 30).Draw(rt, "tieI")
		A = new(big.Int).Mul(odd, ref.Pow10(i))
		B = new(big.Int).Mul(ref.Two, ref.Pow10(i+36))
	case "QuoRaw":
		i := rapid.IntRange(0, 17).Draw(rt, "tieI")
		A = new(big.Int).Mul(odd, ref.Pow10(i))
		B = new(big.Int).Mul(ref.Two, ref.Pow10(i))
	default: // RoundInt and other unary half-even: n + 1/2
		A = new(big.Int).Mul(odd, new(big.Int).Mul(big.NewInt(5), ref.Pow10(35)))
	}
	switch rapid.IntRange(0, 5).Draw(rt, "tieNudge") {
	case 0:
		A.Add(A, ref.One)
	case 1:
		A.Sub(A, ref.One)
	}
	if rapid.Bool().Draw(rt, "tieNegA") {
		A.Neg(A)
	}
	if rapid.Bool().Draw(rt, "tieNegB") {
		B.Neg(B)
	}
	return A, B
}

func checkOp(rt *rapid.T, c *drv.Case, o op, A, B *big.Int, alias bool) {
	num, den := func() (n, d *big.Int) {
		defer func() {
			if recover() != nil { // division by zero inside spec
				n, d = nil, nil
			}
		}()
		return o.spec(A, B)
	}()
	divZero := num == nil || den.Sign() == 0
	a := mkBigDec(A)
	var res *big.Int
	var panicked bool
	var pmsg any
	if alias {
		// x.Op(x): both operands are the same object
		res, panicked, pmsg = call(func() *big.Int { return aliasCall(o.name, a) })
	} else {
		res, panicked, pmsg = call(func() *big.Int { return o.impl(a, B) })
	}
	c.Class("op=" + o.name)
	if divZero {
		if !panicked {
			rt.Fatalf("%s(%s, %s): division by zero returned %s instead of failing", o.name, A, B, res)
		}
		c.Class("div-by-zero")
		return
	}
	want, exact := round(num, den, o.m)
	if o.roundUpFamily && !exact && drv.Known("C12-roundup-negative") {
		q := new(big.Rat).SetFrac(num, den)
		if q.Sign() < 0 || (o.name == "QuoRoundUp" || o.name == "QuoByDecRoundUp") && B.Sign() < 0 {
			c.Exclude("C12-roundup-negative")
			return
		}
	}
	bound := maxDecBits
	if o.bound > 0 {
		bound = o.bound
	}
	mustPanic := o.asserts && want.BitLen() > bound
	if mustPanic {
		if !panicked {
			rt.Fatalf("%s(%s, %s): result needs %d bits (> %d) but no failure; returned %s", o.name, A, B, want.BitLen(), bound, res)
		}
		c.Class("overflow-panic")
		c.NonTrivial(fmt.Sprintf("%s|%s|%s", o.name, A, B))
		c.Samplef("%s(a=%s/1e36, b=%s) -> overflow panic as required (%d bits)", o.name, A, B, want.BitLen())
		return
	}
	if panicked {
		rt.Fatalf("%s(%s, %s): unexpected panic %v; exact result %s has %d bits", o.name, A, B, pmsg, want, want.BitLen())
	}
	if res.Cmp(want) != 0 {
		rt.Fatalf("%s(a=%s, b=%s) [%s]: got %s want %s (exact=%v, num=%s den=%s)", o.name, A, B, o.m, res, want, exact, num, den)
	}
	// operands untouched (non-mutating) / receiver holds result (mutating)
	if !alias {
		if o.mut {
			if a.BigInt().Cmp(want) != 0 {
				rt.Fatalf("%s(a=%s, b=%s): mutating form returned %s but receiver now holds %s", o.name, A, B, res, a.BigInt())
			}
		} else if a.BigInt().Cmp(A) != 0 {
			rt.Fatalf("%s(a=%s, b=%s): non-mutating form changed its receiver to %s", o.name, A, B, a.BigInt())
		}
	}
	if !exact {
		c.Class("inexact")
		if num.Sign()*den.Sign() < 0 {
			c.Class("inexact-negative")
		}
		if o.m == mEven {
			r := new(big.Int).Rem(new(big.Int).Abs(num), new(big.Int).Abs(den))
			if new(big.Int).Mul(r, ref.Two).Cmp(new(big.Int).Abs(den)) == 0 {
				c.Class("exact-tie")
			}
		}
	}
	near := want.BitLen() >= bound-2
	if near {
		c.Class("near-bound")
	}
	if alias {
		c.Class("aliased")
		if a.BigInt().Cmp(A) != 0 {
			rt.Fatalf("x.%s(x) with x=%s changed x to %s", o.name, A, a.BigInt())
		}
	}
	if !exact || near {
		c.NonTrivial(fmt.Sprintf("%s|%s|%s", o.name, A, B))
		c.Samplef("%s(a=%s/1e36, b=%s) = %s/1e36 [%s, exact=%v]", o.name, A, B, res, o.m, exact)
	}
}

// aliasCall performs x.Op(x) with one shared object.
func aliasCall(name string, x osmomath.BigDec) *big.Int {
	switch name {
	case "Add":
		return x.Add(x).BigInt()
	case "Sub":
		return x.Sub(x).BigInt()
	case "Mul":
		return x.Mul(x).BigInt()
	case "MulTruncate":
		return x.MulTruncate(x).BigInt()
	case "MulRoundUp":
		return x.MulRoundUp(x).BigInt()
	case "Quo":
		return x.Quo(x).BigInt()
	case "QuoTruncate":
		return x.QuoTruncate(x).BigInt()
	case "QuoRoundUp":
		return x.QuoRoundUp(x).BigInt()
	}
	panic("no alias form for " + name)
}
