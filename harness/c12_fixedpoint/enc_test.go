package c12

import (
	"encoding/json"
	"fmt"
	"math/big"
	"strings"
	"testing"

	"pgregory.net/rapid"

	"github.com/osmosis-labs/osmosis/osmomath"

	"verif/harness/drv"
	"verif/harness/ref"
)

const encRule = "values drawn over the whole representable range (BigDec 0..1144 bits, BigInt 0..1024 bits, both signs, boundary shapes); oracle: decode(encode(x)) == x for String/NewBigDecFromStr, JSON, Marshal/Unmarshal/MarshalTo/Size, Amino, YAML, and the text equals the exact decimal expansion computed independently; non-trivial = non-zero value; distinct by value hash"

// decimalText is an independent rendering of v/10^36 with exactly 36 decimals.
func decimalText(v *big.Int) string {
	neg := v.Sign() < 0
	s := new(big.Int).Abs(v).String()
	for len(s) < 37 {
		s = "0" + s
	}
	out := s[:len(s)-36] + "." + s[len(s)-36:]
	if neg {
		out = "-" + out
	}
	return out
}

func TestPropEncodeBigDec(t *testing.T) {
	drv.Check(t, drv.Cfg{Name: "bigdec-encodings", Rule: encRule, Quick: 8000, Thorough: 300000}, func(rt *rapid.T, c *drv.Case) {
		V := genScaled(rt, "v", maxDecBits)
		wide := V.BitLen() > maxIntBits
		x := mkBigDec(V)
		// text
		s := x.String()
		if s != decimalText(V) {
			rt.Fatalf("String() of %s/1e36 = %q, want %q", V, s, decimalText(V))
		}
		if wide && drv.Known("C12-decode-bound") {
			// listed finding: decoders reject 1025..1144-bit values. Encoders are still checked.
			bin, err := x.Marshal()
			if err != nil || string(bin) != V.String() || x.Size() != len(bin) {
				rt.Fatalf("Marshal of %s: %q err=%v size=%d", V, bin, err, x.Size())
			}
			c.Exclude("C12-decode-bound")
			return
		}
		back, err := osmomath.NewBigDecFromStr(s)
		if err != nil || back.BigInt().Cmp(V) != 0 {
			rt.Fatalf("NewBigDecFromStr(String(x)) for x=%s/1e36 (%d bits): err=%v got=%v", V, V.BitLen(), err, back)
		}
		// JSON
		bz, err := json.Marshal(x)
		if err != nil {
			rt.Fatalf("MarshalJSON: %v", err)
		}
		var y osmomath.BigDec
		if err := json.Unmarshal(bz, &y); err != nil || y.BigInt().Cmp(V) != 0 {
			rt.Fatalf("JSON round trip of %s/1e36 (%d bits): err=%v got=%v", V, V.BitLen(), err, y)
		}
		// into a non-fresh destination
		z := mkBigDec(big.NewInt(12345))
		if err := json.Unmarshal(bz, &z); err != nil || z.BigInt().Cmp(V) != 0 {
			rt.Fatalf("JSON round trip into used destination of %s/1e36: err=%v got=%v", V, err, z)
		}
		// YAML
		yv, err := x.MarshalYAML()
		if err != nil || yv.(string) != s {
			rt.Fatalf("MarshalYAML: %v %v", yv, err)
		}
		// binary (gogoproto custom type)
		bin, err := x.Marshal()
		if err != nil {
			rt.Fatalf("Marshal: %v", err)
		}
		if x.Size() != len(bin) {
			rt.Fatalf("Size()=%d but Marshal produced %d bytes for %s", x.Size(), len(bin), V)
		}
		buf := make([]byte, len(bin)+3)
		n, err := x.MarshalTo(buf)
		if err != nil || n != len(bin) || string(buf[:n]) != string(bin) {
			rt.Fatalf("MarshalTo disagrees with Marshal for %s: n=%d err=%v", V, n, err)
		}
		var u osmomath.BigDec
		if err := u.Unmarshal(bin); err != nil || u.BigInt().Cmp(V) != 0 {
			rt.Fatalf("Marshal/Unmarshal round trip of %s/1e36 (%d bits): err=%v got=%v", V, V.BitLen(), err, u)
		}
		am, err := x.MarshalAmino()
		var ua osmomath.BigDec
		if err != nil || ua.UnmarshalAmino(am) != nil || ua.BigInt().Cmp(V) != 0 {
			rt.Fatalf("Amino round trip of %s/1e36 failed", V)
		}
		if x.BigInt().Cmp(V) != 0 {
			rt.Fatalf("encoding mutated the value")
		}
		if wide {
			c.Class("above-1024-bits")
		}
		if V.Sign() < 0 {
			c.Class("negative")
		}
		if V.Sign() != 0 {
			c.NonTrivial(V.String())
			c.Samplef("%s (%d bits) <-> %q / %d binary bytes", "x", V.BitLen(), trunc(s), len(bin))
		}
	})
}

func trunc(s string) string {
	if len(s) > 90 {
		return s[:40] + "…" + s[len(s)-40:]
	}
	return s
}

func TestPropEncodeBigInt(t *testing.T) {
	drv.Check(t, drv.Cfg{Name: "bigint-encodings", Rule: encRule, Quick: 5000, Thorough: 200000}, func(rt *rapid.T, c *drv.Case) {
		V := genScaled(rt, "v", maxIntBits)
		x := mkBigInt(V)
		if x.String() != V.String() {
			rt.Fatalf("BigInt.String %s != %s", x.String(), V)
		}
		b2, ok := osmomath.NewBigIntFromString(x.String())
		if !ok || b2.BigInt().Cmp(V) != 0 {
			rt.Fatalf("NewBigIntFromString(String(x)) failed for %s", V)
		}
		bz, err := json.Marshal(x)
		var y osmomath.BigInt
		if err != nil || json.Unmarshal(bz, &y) != nil || y.BigInt().Cmp(V) != 0 {
			rt.Fatalf("BigInt JSON round trip failed for %s: %v", V, err)
		}
		bin, err := x.Marshal()
		var u osmomath.BigInt
		if err != nil || u.Unmarshal(bin) != nil || u.BigInt().Cmp(V) != 0 {
			rt.Fatalf("BigInt Marshal/Unmarshal round trip failed for %s", V)
		}
		if x.Size() != len(bin) {
			rt.Fatalf("BigInt Size()=%d, Marshal %d bytes", x.Size(), len(bin))
		}
		buf := make([]byte, len(bin)+2)
		n, err := x.MarshalTo(buf)
		if err != nil || n != len(bin) || string(buf[:n]) != string(bin) {
			rt.Fatalf("BigInt MarshalTo disagrees with Marshal for %s", V)
		}
		if V.Sign() != 0 {
			c.NonTrivial(V.String())
			c.Samplef("BigInt %s… (%d bits)", trunc(V.String()), V.BitLen())
		}
	})
}

const decodeRule = "decoder fuzzing: byte strings biased towards decimal syntax (digits, sign, dot, leading zeros, exponents, whitespace, over-long fractions, huge magnitudes) fed to NewBigDecFromStr / UnmarshalJSON / Unmarshal / NewBigIntFromString; oracle: error, or a value whose canonical re-encoding decodes to the same value and - for plain [-]digits[.digits] input - equals the exact rational the text denotes; never a panic; non-trivial = input accepted; distinct by input hash"

func genText(rt *rapid.T) string {
	digits := rapid.StringMatching(`[0-9]{0,60}`)
	switch rapid.IntRange(0, 7).Draw(rt, "textShape") {
	case 0:
		return rapid.StringMatching(`-?[0-9]{1,40}(\.[0-9]{1,36})?`).Draw(rt, "plain")
	case 1:
		return rapid.StringMatching(`-?0{0,3}[0-9]{1,310}\.[0-9]{1,36}`).Draw(rt, "long")
	case 2:
		return rapid.StringMatching(`-?[0-9]{1,10}\.[0-9]{30,40}`).Draw(rt, "fraclen")
	case 3:
		return rapid.StringMatching(`[-+ ]{0,2}[0-9]{0,5}[.eE_x]{0,2}[0-9a-f]{0,5}`).Draw(rt, "junk")
	case 4:
		return rapid.StringOf(rapid.RuneFrom([]rune("0123456789.-+eE _"))).Draw(rt, "alpha")
	case 5:
		return digits.Draw(rt, "digits")
	case 6:
		return string(rapid.SliceOfN(rapid.Byte(), 0, 12).Draw(rt, "raw"))
	default:
		n := rapid.IntRange(300, 350).Draw(rt, "hugeLen")
		return rapid.StringMatching(`-?[1-9]`).Draw(rt, "lead") + strings.Repeat("9", n) + ".5"
	}
}

func TestPropDecodeFuzz(t *testing.T) {
	plain := func(s string) (*big.Int, bool) {
		neg := strings.HasPrefix(s, "-")
		b := strings.TrimPrefix(s, "-")
		parts := strings.Split(b, ".")
		if len(parts) > 2 || parts[0] == "" {
			return nil, false
		}
		frac := ""
		if len(parts) == 2 {
			frac = parts[1]
			if frac == "" || len(frac) > 36 {
				return nil, false
			}
		}
		for _, r := range parts[0] + frac {
			if r < '0' || r > '9' {
				return nil, false
			}
		}
		v, _ := new(big.Int).SetString(parts[0]+frac, 10)
		v.Mul(v, ref.Pow10(36-len(frac)))
		if neg {
			v.Neg(v)
		}
		return v, true
	}
	drv.Check(t, drv.Cfg{Name: "decoder-fuzz", Rule: decodeRule, Quick: 20000, Thorough: 600000}, func(rt *rapid.T, c *drv.Case) {
		s := genText(rt)
		var d osmomath.BigDec
		var err error
		_, p, msg := call(func() *big.Int { d, err = osmomath.NewBigDecFromStr(s); return nil })
		if p {
			rt.Fatalf("NewBigDecFromStr(%q) panicked: %v", s, msg)
		}
		if err == nil {
			if want, ok := plain(s); ok && d.BigInt().Cmp(want) != 0 {
				rt.Fatalf("NewBigDecFromStr(%q) = %s/1e36, the text denotes %s/1e36", s, d.BigInt(), want)
			}
			re, err2 := osmomath.NewBigDecFromStr(d.String())
			if err2 != nil || !re.Equal(d) {
				rt.Fatalf("NewBigDecFromStr(%q) accepted as %s but its canonical text does not decode back: %v", s, d, err2)
			}
			c.Class("str-accepted")
			c.NonTrivial("s|" + s)
			c.Samplef("text %q -> %s", trunc(s), trunc(d.String()))
		} else if want, ok := plain(s); ok && want.BitLen() <= maxIntBits {
			rt.Fatalf("NewBigDecFromStr(%q) rejected a well-formed in-range decimal: %v", s, err)
		}
		// JSON: the same text quoted, and raw
		for _, js := range []string{`"` + s + `"`, s} {
			var j osmomath.BigDec
			var jerr error
			_, p, msg = call(func() *big.Int { jerr = json.Unmarshal([]byte(js), &j); return nil })
			if p {
				rt.Fatalf("UnmarshalJSON(%q) panicked: %v", js, msg)
			}
			if jerr == nil && !j.IsNil() {
				bz, _ := json.Marshal(j)
				var k osmomath.BigDec
				if json.Unmarshal(bz, &k) != nil || !k.Equal(j) {
					rt.Fatalf("UnmarshalJSON(%q) accepted but re-encoding %s does not decode back", js, bz)
				}
				c.Class("json-accepted")
			}
		}
		// binary
		var b osmomath.BigDec
		var berr error
		_, p, msg = call(func() *big.Int { berr = b.Unmarshal([]byte(s)); return nil })
		if p {
			rt.Fatalf("Unmarshal(%q) panicked: %v", s, msg)
		}
		if berr == nil && !b.IsNil() && len(s) > 0 {
			bin, _ := b.Marshal()
			var b2 osmomath.BigDec
			if b2.Unmarshal(bin) != nil || !b2.Equal(b) {
				rt.Fatalf("Unmarshal(%q) accepted but re-encoding %q does not decode back", s, bin)
			}
			c.Class("bin-accepted")
		}
		// BigInt
		var bi osmomath.BigInt
		var ok bool
		_, p, msg = call(func() *big.Int { bi, ok = osmomath.NewBigIntFromString(s); return nil })
		if p {
			rt.Fatalf("NewBigIntFromString(%q) panicked: %v", s, msg)
		}
		if ok {
			b3, ok3 := osmomath.NewBigIntFromString(bi.String())
			if !ok3 || !b3.Equal(bi) {
				rt.Fatalf("NewBigIntFromString(%q) accepted but canonical text does not decode back", s)
			}
		}
	})
}

const convRule = "precision conversions and constructors owned by osmomath (DecWithPrecision, ChopPrecision(Mut), BigDecFromDec(Mut), BigDecFromSDKInt, NewBigDecFromDecMulDec, NewBigDecWithPrec, NewBigDecFromBigIntWithPrec, DivIntByU64ToBigDec in all rounding modes, TruncateInt64/RoundInt64) against exact big.Int results; non-trivial = inexact conversion; distinct by (function, operands) hash"

func TestPropConversions(t *testing.T) {
	drv.Check(t, drv.Cfg{Name: "conversions", Rule: convRule, Quick: 20000, Thorough: 600000}, func(rt *rapid.T, c *drv.Case) {
		which := rapid.IntRange(0, 8).Draw(rt, "fn")
		switch which {
		case 0: // DecWithPrecision: truncate toward zero at p decimals, p <= 18
			A := genScaled(rt, "a", maxDecBits)
			p := rapid.IntRange(0, 19).Draw(rt, "prec")
			var got *big.Int
			_, pan, _ := call(func() *big.Int { got = mkBigDec(A).DecWithPrecision(uint64(p)).BigInt(); return nil })
			if p > 18 {
				if !pan {
					rt.Fatalf("DecWithPrecision(%d) must fail (max 18)", p)
				}
				return
			}
			if pan {
				rt.Fatalf("DecWithPrecision(%d) of %s panicked", p, A)
			}
			unit := ref.Pow10(36 - p)
			want := new(big.Int).Mul(ref.DivTrunc(A, unit), ref.Pow10(18-p))
			if got.Cmp(want) != 0 {
				rt.Fatalf("DecWithPrecision(%d) of %s/1e36 = %s/1e18 want %s/1e18", p, A, got, want)
			}
			if !ref.Exact(A, unit) {
				c.NonTrivial(fmt.Sprintf("dwp|%d|%s", p, A))
				c.Samplef("DecWithPrecision(%d) of %s/1e36 = %s/1e18", p, A, got)
			}
		case 1: // ChopPrecision / Mut
			A := genScaled(rt, "a", maxDecBits)
			p := rapid.IntRange(0, 37).Draw(rt, "prec")
			x := mkBigDec(A)
			var got, gotM *big.Int
			xm := mkBigDec(A)
			_, pan, _ := call(func() *big.Int { got = x.ChopPrecision(uint64(p)).BigInt(); return nil })
			_, panM, _ := call(func() *big.Int { gotM = xm.ChopPrecisionMut(uint64(p)).BigInt(); return nil })
			if p > 36 {
				if !pan || !panM {
					rt.Fatalf("ChopPrecision(%d) must fail (max 36)", p)
				}
				return
			}
			unit := ref.Pow10(36 - p)
			want := new(big.Int).Mul(ref.DivTrunc(A, unit), unit)
			if pan || panM || got.Cmp(want) != 0 || gotM.Cmp(want) != 0 {
				rt.Fatalf("ChopPrecision(%d) of %s = %s / Mut %s, want %s", p, A, got, gotM, want)
			}
			if x.BigInt().Cmp(A) != 0 {
				rt.Fatalf("ChopPrecision mutated its receiver")
			}
			if xm.BigInt().Cmp(want) != 0 {
				rt.Fatalf("ChopPrecisionMut did not leave the result in the receiver")
			}
			if !ref.Exact(A, unit) {
				c.NonTrivial(fmt.Sprintf("chop|%d|%s", p, A))
				c.Samplef("ChopPrecision(%d) of %s/1e36 = %s/1e36", p, A, got)
			}
		case 2: // BigDecFromDec / Mut / slices: exact widening
			C := genScaled(rt, "c", sdkDecBits)
			d := mkDec(C)
			want := new(big.Int).Mul(C, D)
			if got := osmomath.BigDecFromDec(d).BigInt(); got.Cmp(want) != 0 {
				rt.Fatalf("BigDecFromDec(%s/1e18) = %s want %s", C, got, want)
			}
			if d.BigInt().Cmp(C) != 0 {
				rt.Fatalf("BigDecFromDec mutated its argument")
			}
			if got := osmomath.BigDecFromDecSlice([]osmomath.Dec{d})[0].BigInt(); got.Cmp(want) != 0 {
				rt.Fatalf("BigDecFromDecSlice(%s/1e18) = %s want %s", C, got, want)
			}
			if got := osmomath.BigDecFromDecMut(mkDec(C)).BigInt(); got.Cmp(want) != 0 {
				rt.Fatalf("BigDecFromDecMut(%s/1e18) = %s want %s", C, got, want)
			}
			// and back: Dec() of the widened value is the original
			if got := mkBigDec(want).Dec().BigInt(); got.Cmp(C) != 0 {
				rt.Fatalf("Dec(BigDecFromDec(x)) != x for %s", C)
			}
			c.NonTrivial("fromdec|" + C.String())
			c.Samplef("BigDecFromDec(%s/1e18)", C)
		case 3: // NewBigDecFromDecMulDec: exact product
			C1, C2 := genScaled(rt, "c1", sdkDecBits), genScaled(rt, "c2", sdkDecBits)
			got := osmomath.NewBigDecFromDecMulDec(mkDec(C1), mkDec(C2)).BigInt()
			if want := mul(C1, C2); got.Cmp(want) != 0 {
				rt.Fatalf("NewBigDecFromDecMulDec(%s,%s) = %s want %s", C1, C2, got, want)
			}
			c.NonTrivial("decmuldec|" + C1.String() + "|" + C2.String())
			c.Samplef("NewBigDecFromDecMulDec(%s/1e18, %s/1e18)", C1, C2)
		case 4: // constructors with precision
			i := rapid.Int64().Draw(rt, "i")
			p := rapid.IntRange(0, 36).Draw(rt, "prec")
			want := mul(big.NewInt(i), ref.Pow10(36-p))
			if got := osmomath.NewBigDecWithPrec(i, int64(p)).BigInt(); got.Cmp(want) != 0 {
				rt.Fatalf("NewBigDecWithPrec(%d,%d) = %s want %s", i, p, got, want)
			}
			V := genScaled(rt, "v", maxIntBits)
			want2 := mul(V, ref.Pow10(36-p))
			if got := osmomath.NewBigDecFromBigIntWithPrec(new(big.Int).Set(V), int64(p)).BigInt(); got.Cmp(want2) != 0 {
				rt.Fatalf("NewBigDecFromBigIntWithPrec(%s,%d) = %s want %s", V, p, got, want2)
			}
			if got := osmomath.NewBigDecFromIntWithPrec(mkBigInt(V), int64(p)).BigInt(); got.Cmp(want2) != 0 {
				rt.Fatalf("NewBigDecFromIntWithPrec(%s,%d) = %s want %s", V, p, got, want2)
			}
			if got := mkBigInt(V).ToDec().BigInt(); got.Cmp(mul(V, P)) != 0 {
				rt.Fatalf("BigInt.ToDec(%s) = %s", V, got)
			}
			if V.BitLen() <= 255 {
				if got := osmomath.BigDecFromSDKInt(osmomath.NewIntFromBigInt(new(big.Int).Set(V))).BigInt(); got.Cmp(mul(V, P)) != 0 {
					rt.Fatalf("BigDecFromSDKInt(%s) = %s", V, got)
				}
			}
			c.NonTrivial(fmt.Sprintf("ctor|%d|%d|%s", i, p, V))
			c.Samplef("NewBigDecWithPrec(%d,%d), NewBigDecFromBigIntWithPrec(%s,%d)", i, p, V, p)
		case 5: // DivIntByU64ToBigDec
			I := genScaled(rt, "i", 255)
			var u uint64
			switch rapid.IntRange(0, 3).Draw(rt, "uShape") {
			case 0:
				u = uint64(rapid.IntRange(0, 12).Draw(rt, "uSmall"))
			case 1:
				u = rapid.SampledFrom([]uint64{1, 3, 7, 10, 1_000_000, 1<<63 - 1}).Draw(rt, "uEdge")
			default:
				u = rapid.Uint64Range(1, 1<<63-1).Draw(rt, "u")
			}
			rd := rapid.SampledFrom([]osmomath.RoundingDirection{osmomath.RoundUp, osmomath.RoundDown, osmomath.RoundBankers, osmomath.RoundUnconstrained, 7}).Draw(rt, "round")
			got, err := osmomath.DivIntByU64ToBigDec(osmomath.NewIntFromBigInt(new(big.Int).Set(I)), u, rd)
			if u == 0 || rd == osmomath.RoundUnconstrained || rd == 7 {
				if err == nil {
					rt.Fatalf("DivIntByU64ToBigDec(%s,%d,%d) must fail", I, u, rd)
				}
				return
			}
			if err != nil {
				rt.Fatalf("DivIntByU64ToBigDec(%s,%d,%d): %v", I, u, rd, err)
			}
			num, den := mul(I, P), new(big.Int).SetUint64(u)
			var want *big.Int
			switch rd {
			case osmomath.RoundUp:
				want = ref.DivCeil(num, den)
			case osmomath.RoundDown:
				// documented as rounding down; for the non-negative amounts it is used on this is truncation
				if I.Sign() < 0 {
					return
				}
				want = ref.DivTrunc(num, den)
			default:
				want = ref.DivHalfEven(ref.DivTrunc(mul(num, P), den), P)
			}
			if got.BigInt().Cmp(want) != 0 {
				rt.Fatalf("DivIntByU64ToBigDec(%s,%d,mode %d) = %s want %s", I, u, rd, got.BigInt(), want)
			}
			if !ref.Exact(num, den) {
				c.NonTrivial(fmt.Sprintf("divu64|%s|%d|%d", I, u, rd))
				c.Samplef("DivIntByU64ToBigDec(%s, %d, mode %d) = %s/1e36", I, u, rd, got.BigInt())
			}
		case 6: // TruncateInt64 / RoundInt64: value or failure, never wrap
			A := genScaled(rt, "a", rapid.SampledFrom([]int{120, 181, 182, 183, 184, 200, 400}).Draw(rt, "bits"))
			x := mkBigDec(A)
			wt, wr := ref.DivTrunc(A, P), ref.DivHalfEven(A, P)
			var gt, gr int64
			_, pt, _ := call(func() *big.Int { gt = x.TruncateInt64(); return nil })
			_, pr, _ := call(func() *big.Int { gr = x.RoundInt64(); return nil })
			if wt.IsInt64() == pt || (!pt && gt != wt.Int64()) {
				rt.Fatalf("TruncateInt64(%s/1e36): panicked=%v got=%d want %s", A, pt, gt, wt)
			}
			if wr.IsInt64() == pr || (!pr && gr != wr.Int64()) {
				rt.Fatalf("RoundInt64(%s/1e36): panicked=%v got=%d want %s", A, pr, gr, wr)
			}
			if !wt.IsInt64() || !ref.Exact(A, P) {
				c.NonTrivial("i64|" + A.String())
				c.Samplef("TruncateInt64/RoundInt64(%s/1e36) -> %s / %s", A, wt, wr)
			}
		case 7: // IsInteger, comparisons, Min/Max agree with the integers
			A, B := genScaled(rt, "a", maxDecBits), genScaled(rt, "b", maxDecBits)
			if rapid.Bool().Draw(rt, "same") {
				B = new(big.Int).Set(A)
			}
			x, y := mkBigDec(A), mkBigDec(B)
			cmp := A.Cmp(B)
			if x.Equal(y) != (cmp == 0) || x.GT(y) != (cmp > 0) || x.GTE(y) != (cmp >= 0) || x.LT(y) != (cmp < 0) || x.LTE(y) != (cmp <= 0) {
				rt.Fatalf("comparison of %s and %s disagrees with integers", A, B)
			}
			if x.IsInteger() != ref.Exact(A, P) || x.IsZero() != (A.Sign() == 0) || x.IsNegative() != (A.Sign() < 0) || x.IsPositive() != (A.Sign() > 0) {
				rt.Fatalf("predicates of %s wrong", A)
			}
			mn, mx := osmomath.MinBigDec(x, y).BigInt(), osmomath.MaxBigDec(x, y).BigInt()
			if (cmp <= 0 && (mn.Cmp(A) != 0 || mx.Cmp(B) != 0)) || (cmp > 0 && (mn.Cmp(B) != 0 || mx.Cmp(A) != 0)) {
				rt.Fatalf("Min/Max of %s and %s wrong: %s %s", A, B, mn, mx)
			}
			c.NonTrivial("cmp|" + A.String() + "|" + B.String())
			c.Samplef("compare %s… vs %s…", trunc(A.String()), trunc(B.String()))
		default: // BigInt arithmetic: exact or failure at 1024 bits; Quo truncates; Mod is the least non-negative residue
			A, B := genScaled(rt, "a", maxIntBits), genScaled(rt, "b", maxIntBits)
			x, y := mkBigInt(A), mkBigInt(B)
			type bop struct {
				name string
				f    func() osmomath.BigInt
				want func() *big.Int
			}
			i64 := rapid.Int64().Draw(rt, "raw")
			R := big.NewInt(i64)
			for _, o := range []bop{
				{"Add", func() osmomath.BigInt { return x.Add(y) }, func() *big.Int { return new(big.Int).Add(A, B) }},
				{"Sub", func() osmomath.BigInt { return x.Sub(y) }, func() *big.Int { return new(big.Int).Sub(A, B) }},
				{"Mul", func() osmomath.BigInt { return x.Mul(y) }, func() *big.Int { return mul(A, B) }},
				{"AddRaw", func() osmomath.BigInt { return x.AddRaw(i64) }, func() *big.Int { return new(big.Int).Add(A, R) }},
				{"SubRaw", func() osmomath.BigInt { return x.SubRaw(i64) }, func() *big.Int { return new(big.Int).Sub(A, R) }},
				{"MulRaw", func() osmomath.BigInt { return x.MulRaw(i64) }, func() *big.Int { return mul(A, R) }},
				{"Neg", func() osmomath.BigInt { return x.Neg() }, func() *big.Int { return new(big.Int).Neg(A) }},
				{"Abs", func() osmomath.BigInt { return x.Abs() }, func() *big.Int { return new(big.Int).Abs(A) }},
			} {
				var got osmomath.BigInt
				_, pan, _ := call(func() *big.Int { got = o.f(); return nil })
				want := o.want()
				if want.BitLen() > maxIntBits {
					if !pan {
						rt.Fatalf("BigInt.%s(%s,%s): %d-bit result did not fail", o.name, A, B, want.BitLen())
					}
					continue
				}
				if pan || got.BigInt().Cmp(want) != 0 {
					rt.Fatalf("BigInt.%s(%s,%s/%d) = %v (panic=%v) want %s", o.name, A, B, i64, got, pan, want)
				}
			}
			if B.Sign() != 0 {
				if got := x.Quo(y).BigInt(); got.Cmp(ref.DivTrunc(A, B)) != 0 {
					rt.Fatalf("BigInt.Quo(%s,%s) = %s", A, B, got)
				}
				m := x.Mod(y).BigInt()
				if m.Sign() < 0 || m.CmpAbs(B) >= 0 || !ref.Exact(new(big.Int).Sub(A, m), B) {
					rt.Fatalf("BigInt.Mod(%s,%s) = %s is not the least non-negative residue", A, B, m)
				}
			} else {
				_, pan, _ := call(func() *big.Int { return x.Quo(y).BigInt() })
				if !pan {
					rt.Fatalf("BigInt.Quo by zero did not fail")
				}
			}
			if x.BigInt().Cmp(A) != 0 || y.BigInt().Cmp(B) != 0 {
				rt.Fatalf("BigInt operation mutated an operand")
			}
			c.NonTrivial("bigint|" + A.String() + "|" + B.String())
			c.Samplef("BigInt ops on %s… , %s…", trunc(A.String()), trunc(B.String()))
		}
	})
}

// TestKnown_C12_decode_bound reproduces the listed finding: 2^1030/1e36 is a legal arithmetic result
// but its own text is rejected by the decoder.
func TestKnown_C12_decode_bound(t *testing.T) {
	v := new(big.Int).Lsh(ref.One, 1030)
	x := mkBigDec(v).Add(mkBigDec(ref.One)) // produced by arithmetic, no failure
	if _, err := osmomath.NewBigDecFromStr(x.String()); err != nil {
		drv.Reproduced(t, "C12-decode-bound")
	}
}

// TestRegress_C12_roundup_negative: fixed finding must stay fixed.
func TestRegress_C12_roundup_negative(t *testing.T) {
	one, three := osmomath.NewBigDec(1), osmomath.NewBigDec(3)
	third := "0.333333333333333333333333333333333333"
	chk := func(name string, got osmomath.BigDec, want string) {
		if got.String() != want {
			t.Errorf("%s = %s want %s", name, got, want)
		}
	}
	chk("(-1).QuoRoundUp(3)", one.Neg().QuoRoundUp(three), "-"+third)
	chk("(-1).QuoRoundUpMut(3)", one.Neg().QuoRoundUpMut(three), "-"+third)
	chk("1.QuoRoundUp(-3)", one.QuoRoundUp(three.Neg()), "-"+third)
	chk("(-1).QuoRoundUp(-3)", one.Neg().QuoRoundUp(three.Neg()), third[:len(third)-1]+"4")
	chk("(-7).QuoRoundUpNextIntMut(2)", osmomath.NewBigDec(-7).QuoRoundUpNextIntMut(osmomath.NewBigDec(2)), "-3.000000000000000000000000000000000000")
	if got := osmomath.NewBigDecWithPrec(-15, 19).DecRoundUp(); got.String() != "-0.000000000000000001" {
		t.Errorf("DecRoundUp(-1.5e-18) = %s want -1e-18", got)
	}
	if got := osmomath.SmallestBigDec().Neg().DecRoundUp(); !got.IsZero() {
		t.Errorf("DecRoundUp(-1e-36) = %s want 0", got)
	}
}
