package c03

import (
	"fmt"
	"math/big"
	"strings"
	"testing"

	sdk "github.com/cosmos/cosmos-sdk/types"
	"pgregory.net/rapid"

	"github.com/osmosis-labs/osmosis/osmomath"
	pmtypes "github.com/osmosis-labs/osmosis/v31/x/poolmanager/types"

	"verif/harness/chain"
	"verif/harness/clsim"
	"verif/harness/drv"
)

func TestMain(m *testing.M) { drv.Main(m) }

const rule = "a reachable CL pool state is produced by a generated prefix of the C01/C07 state machine (positions overlapping/disjoint/one-sided, swaps, withdrawals; every spacing and spread factor incl. zero; taker fee set to 0 so trader amounts are pool amounts), then one probed swap (direction, exact-in/out, amount from 1 unit to draining); oracle: (a) exact curve walk in big.Rat through the same initialised ticks (implementation's tick sqrt prices as bucket edges) - paid out <= ideal, charged >= ideal, difference <= beta = 2 + sum over buckets (2 + 2 x marginal price of the other token + 4 L 1e-36 (1 + 1/s^2)), i.e. one unit per computed amount of each bucket expressed in the judged token plus sqrt-price granularity; (b) poolmanager estimate on the same state == executed amount, and the pool module's quote with a caller-chosen spread factor (0 .. 5%) == its swap with that spread factor; (c) estimate leaves the digest of all stores unchanged; (d) swapping there and straight back never returns more than was put in; failed swaps are skipped; non-trivial = the walk crossed an initialised tick, ended exactly on one, traversed an empty gap or left a sub-unit remainder; distinct by history hash"

// quietly turns a panic of a query into an error, as the query server's recovery does (the swap math panics on purpose
// in a few sub-unit corners; a transaction hitting them fails as a whole).
func quietly(f func() error) (err error) {
	defer func() {
		if r := recover(); r != nil {
			err = fmt.Errorf("panic: %v", r)
		}
	}()
	return f()
}

func coin(d string, a *big.Int) sdk.Coin { return sdk.NewCoin(d, osmomath.NewIntFromBigInt(a)) }

func TestPropSwapCurve(t *testing.T) {
	drv.Check(t, drv.Cfg{Name: "cl-swap-curve", Rule: rule, Quick: 300, Thorough: 8000, Steps: 12, TSteps: 25}, func(rt *rapid.T, c *drv.Case) {
		s := clsim.New(rt, t)
		ch := s.C
		// trader amounts == pool amounts
		p := ch.App.PoolManagerKeeper.GetParams(ch.Ctx)
		p.TakerFeeParams.DefaultTakerFee = osmomath.ZeroDec()
		ch.App.PoolManagerKeeper.SetParams(ch.Ctx, p)
		acts := map[string]func(*rapid.T){
			"create": s.CreatePosition, "create2": s.CreatePosition, "create3": s.CreatePosition,
			"withdraw": s.Withdraw, "swap": s.Swap, "add": s.AddToPosition,
		}
		probes := 0
		nt := false
		probe := func(rt *rapid.T) {
			if len(s.Known) == 0 {
				return
			}
			zfo := rapid.Bool().Draw(rt, "probeZeroForOne")
			exactIn := rapid.Bool().Draw(rt, "probeExactIn")
			in, out := clsim.D0, clsim.D1
			if !zfo {
				in, out = clsim.D1, clsim.D0
			}
			spec := out
			if exactIn {
				spec = in
			}
			poolBal := ch.Bal(s.Pool().GetAddress(), spec).Amount.BigInt()
			var amt *big.Int
			switch rapid.IntRange(0, 5).Draw(rt, "probeShape") {
			case 0:
				amt = big.NewInt(rapid.Int64Range(1, 3).Draw(rt, "probeTiny"))
			case 1:
				amt = new(big.Int).Mul(poolBal, big.NewInt(rapid.Int64Range(50, 400).Draw(rt, "probePct")))
				amt.Quo(amt, big.NewInt(100)).Add(amt, big.NewInt(1))
			default:
				amt = new(big.Int).Mul(poolBal, big.NewInt(rapid.Int64Range(1, 1_000_000).Draw(rt, "probePpm")))
				amt.Quo(amt, big.NewInt(1_000_000))
				if amt.Sign() == 0 {
					amt.SetInt64(1)
				}
			}
			trader := chain.Actor(3)
			ref := s.RefSwap(zfo, exactIn, amt)
			// (b)+(c): estimate on the same state, purity
			d0 := ch.Digest()
			var est osmomath.Int
			var estErr error
			if exactIn {
				est, estErr = ch.App.PoolManagerKeeper.MultihopEstimateOutGivenExactAmountIn(ch.Ctx, []pmtypes.SwapAmountInRoute{{PoolId: s.PoolID, TokenOutDenom: out}}, coin(in, amt))
			} else {
				est, estErr = ch.App.PoolManagerKeeper.MultihopEstimateInGivenExactAmountOut(ch.Ctx, []pmtypes.SwapAmountOutRoute{{PoolId: s.PoolID, TokenInDenom: in}}, coin(out, amt))
			}
			if ch.Digest() != d0 {
				rt.Fatalf("swap estimate changed state [history %v]", s.Hist)
			}
			// execute on a branch
			b := ch.Branch()
			b0in, b0out := b.Bal(trader, in).Amount.BigInt(), b.Bal(trader, out).Amount.BigInt()
			var r chain.ExecResult
			if exactIn {
				r = b.Exec(&pmtypes.MsgSwapExactAmountIn{Sender: trader.String(), Routes: []pmtypes.SwapAmountInRoute{{PoolId: s.PoolID, TokenOutDenom: out}}, TokenIn: coin(in, amt), TokenOutMinAmount: osmomath.OneInt()})
			} else {
				max, _ := new(big.Int).SetString("100000000000000000000000000000000000000000", 10)
				r = b.Exec(&pmtypes.MsgSwapExactAmountOut{Sender: trader.String(), Routes: []pmtypes.SwapAmountOutRoute{{PoolId: s.PoolID, TokenInDenom: in}}, TokenInMaxAmount: osmomath.NewIntFromBigInt(max), TokenOut: coin(out, amt)})
			}
			if !r.OK() {
				c.Class("probe-rejected")
				return
			}
			probes++
			paid := new(big.Int).Sub(b0in, b.Bal(trader, in).Amount.BigInt())
			got := new(big.Int).Sub(b.Bal(trader, out).Amount.BigInt(), b0out)
			if estErr != nil {
				rt.Fatalf("swap executed (paid %s%s got %s%s) but the estimate on the same state failed: %v [history %v]", paid, in, got, out, estErr, s.Hist)
			}
			if exactIn && est.BigInt().Cmp(got) != 0 {
				rt.Fatalf("exact-in swap of %s%s: estimate %s%s but execution paid out %s [history %v]", amt, in, est, out, got, s.Hist)
			}
			if !exactIn && est.BigInt().Cmp(paid) != 0 {
				rt.Fatalf("exact-out swap for %s%s: estimate %s%s but execution charged %s [history %v]", amt, out, est, in, paid, s.Hist)
			}
			// (b') the pool module's own quote and swap take the spread factor from their caller (the pool manager passes the
			// pool's, its price-impact queries pass zero): for ANY spread factor the quote must equal the execution with it
			{
				sf := rapid.SampledFrom([]string{"0", "0.0001", "0.0005", "0.003", "0.01", "0.05"}).Draw(rt, "callerSpread")
				callerSpread := osmomath.MustNewDecFromStr(sf)
				clk := ch.App.ConcentratedLiquidityKeeper
				poolI, perr := clk.GetConcentratedPoolById(ch.Ctx, s.PoolID)
				if perr != nil {
					rt.Fatalf("harness: %v", perr)
				}
				var q, x osmomath.Int
				var qErr, xErr error
				b2 := ch.Branch()
				if exactIn {
					var qc sdk.Coin
					qErr = quietly(func() (e error) { qc, e = clk.CalcOutAmtGivenIn(ch.Ctx, poolI, coin(in, amt), out, callerSpread); return })
					q = qc.Amount
					xErr = b2.Try(func(ctx sdk.Context) (e error) {
						x, e = b2.App.ConcentratedLiquidityKeeper.SwapExactAmountIn(ctx, trader, poolI, coin(in, amt), out, osmomath.OneInt(), callerSpread)
						return
					})
				} else {
					var qc sdk.Coin
					qErr = quietly(func() (e error) { qc, e = clk.CalcInAmtGivenOut(ch.Ctx, poolI, coin(out, amt), in, callerSpread); return })
					q = qc.Amount
					max, _ := new(big.Int).SetString("100000000000000000000000000000000000000000", 10)
					xErr = b2.Try(func(ctx sdk.Context) (e error) {
						x, e = b2.App.ConcentratedLiquidityKeeper.SwapExactAmountOut(ctx, trader, poolI, in, osmomath.NewIntFromBigInt(max), coin(out, amt), callerSpread)
						return
					})
				}
				if ch.Digest() != d0 {
					rt.Fatalf("pool-module quote changed state [history %v]", s.Hist)
				}
				if xErr == nil {
					if qErr != nil || !q.Equal(x) {
						rt.Fatalf("exactIn=%v amount %s with caller spread factor %s: pool-module quote %v (err %v), execution %s [history %v]", exactIn, amt, sf, q, qErr, x, s.Hist)
					}
					c.Class("caller-spread-quote-checked")
				}
			}
			// (a) curve walk
			desc := fmt.Sprintf("zfo=%v exactIn=%v amt=%s paid=%s got=%s ideal in=%s out=%s buckets=%d beta=%s", zfo, exactIn, amt, paid, got, ref.In.FloatString(3), ref.Out.FloatString(3), len(ref.Buckets), ref.Beta.FloatString(3))
			if !ref.Exhausted {
				paidR, gotR := new(big.Rat).SetInt(paid), new(big.Rat).SetInt(got)
				if exactIn {
					if gotR.Cmp(ref.Out) > 0 {
						rt.Fatalf("swap paid out more than the exact curve prescribes: %s [history %v]", desc, s.Hist)
					}
					if new(big.Rat).Sub(ref.Out, gotR).Cmp(ref.Beta) > 0 {
						rt.Fatalf("swap paid out less than the exact curve by more than the rounding allowance: %s [history %v]", desc, s.Hist)
					}
				} else {
					// ideal input for the amount actually paid out
					ideal := ref.In
					if got.Cmp(amt) != 0 {
						ideal = s.RefSwap(zfo, false, got).In
					}
					if paidR.Cmp(ideal) < 0 {
						rt.Fatalf("swap charged less than the exact curve prescribes (ideal %s): %s [history %v]", ideal.FloatString(3), desc, s.Hist)
					}
					// upper bound: against the ideal for the amount that was requested (the payout may be truncated)
					if new(big.Rat).Sub(paidR, ref.In).Cmp(ref.Beta) > 0 {
						rt.Fatalf("swap charged more than the exact curve by more than the rounding allowance: %s [history %v]", desc, s.Hist)
					}
				}
			} else if exactIn {
				// the walk stopped with input left over and the swap still executed: a partial fill at the minimum /
				// maximum price (liquidity reaches the extreme tick). The payout is judged as before; the amount CHARGED
				// must be what the curve consumed up to the boundary (spread charge included), not what was offered.
				paidR, gotR := new(big.Rat).SetInt(paid), new(big.Rat).SetInt(got)
				if gotR.Cmp(ref.Out) > 0 {
					rt.Fatalf("partially filled swap paid out more than the exact curve prescribes: %s [history %v]", desc, s.Hist)
				}
				if new(big.Rat).Sub(ref.Out, gotR).Cmp(ref.Beta) > 0 {
					rt.Fatalf("partially filled swap paid out less than the exact curve by more than the rounding allowance: %s [history %v]", desc, s.Hist)
				}
				betaIn := big.NewRat(3, 1)
				for _, bk := range ref.Buckets {
					betaIn.Add(betaIn, big.NewRat(3, 1))
					if bk.AmountIn != nil {
						betaIn.Add(betaIn, new(big.Rat).Mul(bk.AmountIn, new(big.Rat).SetFrac(big.NewInt(2), new(big.Int).Exp(big.NewInt(10), big.NewInt(18), nil))))
					}
					lo := bk.SqrtTo
					if bk.SqrtFrom.Cmp(lo) < 0 {
						lo = bk.SqrtFrom
					}
					if lo != nil && lo.Sign() > 0 && bk.L.Sign() > 0 {
						g := new(big.Rat).Mul(bk.L, new(big.Rat).SetFrac(big.NewInt(4), new(big.Int).Exp(big.NewInt(10), big.NewInt(36), nil)))
						g.Mul(g, new(big.Rat).Add(big.NewRat(1, 1), new(big.Rat).Inv(new(big.Rat).Mul(lo, lo))))
						betaIn.Add(betaIn, g)
					}
				}
				if new(big.Rat).Sub(ref.In, paidR).Cmp(big.NewRat(1, 1000)) > 0 {
					rt.Fatalf("partially filled swap charged less than the exact curve consumed up to the price boundary (%s): %s [history %v]", ref.In.FloatString(3), desc, s.Hist)
				}
				if new(big.Rat).Sub(paidR, ref.In).Cmp(betaIn) > 0 {
					rt.Fatalf("partially filled swap (price boundary reached) charged %s, the exact curve consumed only %s up to the boundary (allowance %s): %s [history %v]", paid, ref.In.FloatString(3), betaIn.FloatString(3), desc, s.Hist)
				}
				c.Class("partial-fill-at-price-limit")
				nt = true
			} else {
				c.Class("reference-ran-out-of-liquidity")
			}
			crossed, gap := 0, false
			for _, bk := range ref.Buckets {
				if bk.Crossed {
					crossed++
				}
				if bk.L.Sign() == 0 {
					gap = true
				}
			}
			if crossed > 0 {
				c.Class("crossed-tick")
				nt = true
			}
			if gap {
				c.Class("empty-gap")
				nt = true
			}
			if s.Spread.IsZero() {
				c.Class("zero-spread")
			}
			if !exactIn {
				c.Class("exact-out")
			}
			// (d) there and straight back
			if got.Sign() > 0 {
				r2 := b.Exec(&pmtypes.MsgSwapExactAmountIn{Sender: trader.String(), Routes: []pmtypes.SwapAmountInRoute{{PoolId: s.PoolID, TokenOutDenom: in}}, TokenIn: coin(out, got), TokenOutMinAmount: osmomath.OneInt()})
				if r2.OK() {
					final := b.Bal(trader, in).Amount.BigInt()
					if final.Cmp(b0in) > 0 {
						rt.Fatalf("swapping %s%s for %s%s and straight back left the trader with %s more %s than before [history %v]", paid, in, got, out, new(big.Int).Sub(final, b0in), in, s.Hist)
					}
					c.Class("there-and-back")
				}
			}
			s.Hist = append(s.Hist, "probe "+desc)
		}
		acts[""] = probe
		rt.Repeat(acts)
		for k, n := range s.Classes {
			if n > 0 && (strings.HasPrefix(k, "spacing") || strings.HasPrefix(k, "swap-landed")) {
				c.Class(k)
			}
		}
		if nt && probes > 0 {
			c.NonTrivial(s.Describe() + "|" + strings.Join(s.Hist, ";"))
			c.Sample(s.Describe() + " :: " + strings.Join(s.Hist, "; "))
		}
	})
}
