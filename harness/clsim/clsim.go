// Package clsim is the concentrated-liquidity state machine shared by the C01, C07, C03 and C08
// harnesses: it drives one CL pool of the real application through generated histories of LP, swap,
// claim, incentive and time operations (transaction semantics) and offers the oracles as functions.
package clsim

import (
	"fmt"
	"math/big"
	"sort"
	"testing"
	"time"

	sdk "github.com/cosmos/cosmos-sdk/types"
	banktypes "github.com/cosmos/cosmos-sdk/x/bank/types"
	"pgregory.net/rapid"

	"github.com/osmosis-labs/osmosis/osmomath"
	clmath "github.com/osmosis-labs/osmosis/v31/x/concentrated-liquidity/math"
	clmodel "github.com/osmosis-labs/osmosis/v31/x/concentrated-liquidity/model"
	cltypes "github.com/osmosis-labs/osmosis/v31/x/concentrated-liquidity/types"
	lockuptypes "github.com/osmosis-labs/osmosis/v31/x/lockup/types"
	pmtypes "github.com/osmosis-labs/osmosis/v31/x/poolmanager/types"

	"verif/harness/chain"
)

const NActors = 4

// D0 and D1 are token0 and token1 of the pool under test. They are set per case by New: a concentrated pool keeps its
// denoms in the order given at creation, and token0 sorts after token1 in half of the cases ("weth"/"usdc").
var (
	D0 = "eth"
	D1 = "usdc"
)

var IncDenoms = []string{"inca", "incb"}

type Sim struct {
	C       *chain.Chain
	PoolID  uint64
	Spacing int64
	Spread  osmomath.Dec
	Hist    []string

	// bookkeeping for the oracles
	LPOps, Swaps, Claims int
	Vol                  map[string]*big.Int // gross swap volume per denom (in + out)
	IncentiveDeposited   map[string]*big.Int
	Known                map[uint64]PosRec // harness's own record of live positions
	MaxTicks             int
	Gen                  int      // bumped by every swap, time advance, incentive creation and claim
	MaxLiq               *big.Int // max over the history of the summed liquidity of all positions (truncated)
	SpreadLedger         bool     // C08: check every swap's spread-fee attribution per position against the exact curve walk
	LedgerChecked        int
	InvSqrt2             *big.Rat // sum over successful swaps of 1/min(sqrt price before, after)^2 (token0 cost of one 1e-36 sqrt-price rounding per unit liquidity)
	Legacy               bool     // unscaled spread-reward accumulator (pool id <= migration threshold)
	LegacyInc            bool     // unscaled incentive accumulators
	IncLedger            *IncLedger // C08: exact incentive attribution ledger (nil = off)
	Ev                   *Event     // what the last successful action did (for the incentive ledger)

	// classes observed
	Classes map[string]int

	// StrictExit: an owner's withdrawal / claim that fails is a violation (C01/C08); otherwise it is only counted
	StrictExit bool

	// hooks
	OnSwap              func(info SwapInfo)
	OnCollectIncentives func(id uint64, resp cltypes.MsgCollectIncentivesResponse)
}

type PosRec struct {
	Owner        int
	Lower, Upper int64
	Join         time.Time
	Gen          int  // value of Sim.Gen when the position was created (anything that moves accumulators bumps it)
	Mods         int  // claims / partial withdrawals performed on the position since it was created
	Entered      bool // the price has (possibly) been inside [Lower, Upper) since creation
	// underlying lock of a full-range position created locked (0 = none): the position is bound until the lock has been
	// unlocking for its whole duration
	LockID   uint64
	LockDur  time.Duration
	UnlockAt time.Time // zero: unlocking not started
}

// Bound reports whether the position is bound by an unexpired lock at time now (the module's own rule: the lock's end
// time must lie strictly before the block time).
func (r PosRec) Bound(now time.Time) bool {
	if r.LockID == 0 {
		return false
	}
	if r.UnlockAt.IsZero() {
		return true
	}
	return !r.UnlockAt.Add(r.LockDur).Before(now)
}

type SwapInfo struct {
	ZeroForOne            bool
	ExactIn               bool
	In, Out               *big.Int
	TickBefore, TickAfter int64
	SqrtBefore, SqrtAfter osmomath.BigDec
}

func coin(d string, a *big.Int) sdk.Coin { return sdk.NewCoin(d, osmomath.NewIntFromBigInt(a)) }

func (s *Sim) class(k string) { s.Classes[k]++ }

func (s *Sim) log(f string, a ...any) { s.Hist = append(s.Hist, fmt.Sprintf(f, a...)) }

// New builds the chain, funds the actors, configures CL params and creates the pool.
func New(rt *rapid.T, t *testing.T) *Sim {
	c := chain.New(t)
	D0 = "eth"
	if rapid.Bool().Draw(rt, "token0SortsAfterToken1") {
		D0 = "weth"
	}
	s := &Sim{C: c, Vol: map[string]*big.Int{D0: new(big.Int), D1: new(big.Int)}, IncentiveDeposited: map[string]*big.Int{}, Known: map[uint64]PosRec{}, Classes: map[string]int{}, MaxLiq: new(big.Int), InvSqrt2: new(big.Rat)}
	huge, _ := new(big.Int).SetString("1000000000000000000000000000000000000000000", 10) // 1e42
	for a := 0; a < NActors; a++ {
		cs := sdk.NewCoins(coin(D0, huge), coin(D1, huge), coin("uosmo", big.NewInt(1_000_000_000_000)))
		for _, d := range IncDenoms {
			cs = cs.Add(coin(d, huge))
		}
		c.Fund(chain.Actor(a), cs)
	}
	k := c.App.ConcentratedLiquidityKeeper
	params := k.GetParams(c.Ctx)
	params.AuthorizedUptimes = []time.Duration{time.Nanosecond, time.Minute, time.Hour, 24 * time.Hour}
	k.SetParams(c.Ctx, params)
	// accumulator-scaling migration side, drawn independently for spread rewards and incentives (on mainnet the
	// two thresholds differ): pools with id <= threshold use the legacy (unscaled) accumulators
	if rapid.Bool().Draw(rt, "legacySpreadAccumulator") {
		k.SetSpreadFactorPoolIDMigrationThreshold(c.Ctx, 1_000_000)
		s.Legacy = true
		s.class("legacy-spread-accumulator")
	} else {
		k.SetSpreadFactorPoolIDMigrationThreshold(c.Ctx, 0)
		s.class("scaled-spread-accumulator")
	}
	if rapid.Bool().Draw(rt, "legacyIncentiveAccumulators") {
		k.SetIncentivePoolIDMigrationThreshold(c.Ctx, 1_000_000)
		s.LegacyInc = true
		s.class("legacy-incentive-accumulators")
	} else {
		k.SetIncentivePoolIDMigrationThreshold(c.Ctx, 0)
		s.class("scaled-incentive-accumulators")
	}
	s.Spacing = int64(rapid.SampledFrom(cltypes.AuthorizedTickSpacing).Draw(rt, "spacing"))
	s.Spread = rapid.SampledFrom(cltypes.AuthorizedSpreadFactors).Draw(rt, "spread")
	// neighbour pools on the same pair, one with a smaller and one with a larger id, each holding one position of an
	// outsider: per-pool bookkeeping must not see them
	outsider := chain.Actor(NActors + 5)
	c.Fund(outsider, sdk.NewCoins(coin(D0, huge), coin(D1, huge), coin("uosmo", big.NewInt(1_000_000_000_000))))
	neighbour := func(label string) {
		if !rapid.Bool().Draw(rt, label) {
			return
		}
		m := clmodel.NewMsgCreateConcentratedPool(outsider, D0, D1, 100, cltypes.AuthorizedSpreadFactors[1])
		r := c.Exec(&m)
		if !r.OK() {
			rt.Fatalf("harness: create neighbour CL pool: %v", r.Err)
		}
		var resp clmodel.MsgCreateConcentratedPoolResponse
		_ = r.Unpack(&resp)
		if r := c.Exec(&cltypes.MsgCreatePosition{PoolId: resp.PoolID, Sender: outsider.String(), LowerTick: -100000, UpperTick: 100000,
			TokensProvided: sdk.NewCoins(coin(D0, big.NewInt(1_000_000)), coin(D1, big.NewInt(1_000_000))), TokenMinAmount0: osmomath.ZeroInt(), TokenMinAmount1: osmomath.ZeroInt()}); !r.OK() {
			rt.Fatalf("harness: neighbour position: %v", r.Err)
		}
		s.class(label)
	}
	neighbour("neighbour-pool-with-smaller-id")
	msg := clmodel.NewMsgCreateConcentratedPool(chain.Actor(0), D0, D1, uint64(s.Spacing), s.Spread)
	r := c.Exec(&msg)
	if !r.OK() {
		rt.Fatalf("harness: create CL pool: %v", r.Err)
	}
	var resp clmodel.MsgCreateConcentratedPoolResponse
	_ = r.Unpack(&resp)
	s.PoolID = resp.PoolID
	neighbour("neighbour-pool-with-larger-id")
	s.class(fmt.Sprintf("spacing=%d", s.Spacing))
	if D0 > D1 {
		s.class("token0-sorts-after-token1")
	}
	if s.Spread.IsZero() {
		s.class("zero-spread")
	}
	return s
}

func (s *Sim) Pool() cltypes.ConcentratedPoolExtension {
	p, err := s.C.App.ConcentratedLiquidityKeeper.GetConcentratedPoolById(s.C.Ctx, s.PoolID)
	if err != nil {
		panic(err)
	}
	return p
}

// Positions returns all live positions of the pool (by querying every actor).
func (s *Sim) Positions() []clmodel.Position {
	var out []clmodel.Position
	for a := 0; a < NActors; a++ {
		ps, err := s.C.App.ConcentratedLiquidityKeeper.GetUserPositions(s.C.Ctx, chain.Actor(a), s.PoolID)
		if err != nil {
			panic(err)
		}
		out = append(out, ps...)
	}
	sort.Slice(out, func(i, j int) bool { return out[i].PositionId < out[j].PositionId })
	return out
}

func roundDown(t, sp int64) int64 {
	m := t % sp
	if m < 0 {
		m += sp
	}
	return t - m
}

// genTick draws a tick aligned to the spacing (by construction), biased towards the current tick,
// decade boundaries and the range ends.
func (s *Sim) genTick(rt *rapid.T, label string) int64 {
	sp := s.Spacing
	cur := s.Pool().GetCurrentTick()
	lo, hi := roundDown(cltypes.MinInitializedTick+sp-1, sp), roundDown(cltypes.MaxTick, sp)
	var t int64
	switch rapid.IntRange(0, 11).Draw(rt, label+"Shape") {
	case 10, 11: // a boundary tick of a live position: positions that meet or nest at shared ticks
		var bs []int64
		for _, id := range s.SortedKnown() {
			bs = append(bs, s.Known[id].Lower, s.Known[id].Upper)
		}
		if len(bs) > 0 {
			t = bs[rapid.IntRange(0, len(bs)-1).Draw(rt, label+"Boundary")]
		} else {
			t = roundDown(cur, sp)
		}
	case 0:
		t = lo
	case 1:
		t = hi
	case 2: // decade boundary +- {0, spacing}
		k := rapid.Int64Range(-12, 37).Draw(rt, label+"Decade")
		t = roundDown(k*9_000_000, sp) + sp*rapid.Int64Range(-1, 1).Draw(rt, label+"Off")
	case 3:
		t = roundDown(rapid.Int64Range(lo, hi).Draw(rt, label), sp)
	case 4, 5: // very close to the current tick
		t = roundDown(cur, sp) + sp*rapid.Int64Range(-3, 3).Draw(rt, label+"Near")
	default: // clustered within +-200 spacings
		t = roundDown(cur, sp) + sp*rapid.Int64Range(-200, 200).Draw(rt, label+"Cluster")
	}
	if t < lo {
		t = lo
	}
	if t > hi {
		t = hi
	}
	return t
}

func genAmount(rt *rapid.T, label string) *big.Int {
	switch rapid.IntRange(0, 6).Draw(rt, label+"Shape") {
	case 0:
		return big.NewInt(rapid.Int64Range(1, 3).Draw(rt, label+"Tiny"))
	case 1:
		e := rapid.IntRange(0, 30).Draw(rt, label+"Pow")
		v := new(big.Int).Exp(big.NewInt(10), big.NewInt(int64(e)), nil)
		return v.Add(v, big.NewInt(int64(rapid.IntRange(-1, 1).Draw(rt, label+"Off")))).Abs(v)
	default:
		e := rapid.IntRange(0, 24).Draw(rt, label+"Exp")
		m := rapid.Int64Range(1, 9_999_999).Draw(rt, label+"Mant")
		v := new(big.Int).Mul(big.NewInt(m), new(big.Int).Exp(big.NewInt(10), big.NewInt(int64(e)), nil))
		v.Quo(v, big.NewInt(1000))
		if v.Sign() == 0 {
			v.SetInt64(1)
		}
		return v
	}
}

// ---- actions ---------------------------------------------------------------------------------

func (s *Sim) CreatePosition(rt *rapid.T) {
	a := rapid.IntRange(0, NActors-1).Draw(rt, "owner")
	lo, hi := s.genTick(rt, "lower"), s.genTick(rt, "upper")
	if lo == hi {
		hi = lo + s.Spacing
	}
	if lo > hi {
		lo, hi = hi, lo
	}
	if hi > roundDown(cltypes.MaxTick, s.Spacing) {
		hi = roundDown(cltypes.MaxTick, s.Spacing)
		if lo >= hi {
			lo = hi - s.Spacing
		}
	}
	a0, a1 := genAmount(rt, "amt0"), genAmount(rt, "amt1")
	first := len(s.Known) == 0
	var coins sdk.Coins
	switch rapid.IntRange(0, 5).Draw(rt, "which") {
	case 0:
		coins = sdk.NewCoins(coin(D0, a0))
	case 1:
		coins = sdk.NewCoins(coin(D1, a1))
	default:
		coins = sdk.NewCoins(coin(D0, a0), coin(D1, a1))
	}
	if first {
		coins = sdk.NewCoins(coin(D0, a0), coin(D1, a1))
	}
	r := s.C.Exec(&cltypes.MsgCreatePosition{PoolId: s.PoolID, Sender: chain.Actor(a).String(), LowerTick: lo, UpperTick: hi, TokensProvided: coins, TokenMinAmount0: osmomath.ZeroInt(), TokenMinAmount1: osmomath.ZeroInt()})
	if !r.OK() {
		s.class("create-rejected")
		return
	}
	var resp cltypes.MsgCreatePositionResponse
	_ = r.Unpack(&resp)
	if _, dup := s.Known[resp.PositionId]; dup {
		rt.Fatalf("MsgCreatePosition returned position id %d which already exists", resp.PositionId)
	}
	cur := s.Pool().GetCurrentTick()
	s.Known[resp.PositionId] = PosRec{Owner: a, Lower: resp.LowerTick, Upper: resp.UpperTick, Join: s.C.Ctx.BlockTime(), Gen: s.Gen, Entered: first || (cur >= resp.LowerTick-1 && cur <= resp.UpperTick)}
	s.LPOps++
	s.Ev = &Event{Kind: "create", ID: resp.PositionId, Owner: a}
	switch {
	case first:
		s.class("first-position")
	case cur < resp.LowerTick:
		s.class("created-price-below-range")
	case cur >= resp.UpperTick:
		s.class("created-price-above-range")
	default:
		s.class("created-in-range")
	}
	s.log("create#%d a%d [%d,%d) %s liq=%s", resp.PositionId, a, resp.LowerTick, resp.UpperTick, coins, resp.LiquidityCreated)
}

// CreateSameRange opens a position by another owner over the range of an existing one (same block => same
// join time when no time passed): the pair must then earn in proportion to liquidity.
func (s *Sim) CreateSameRange(rt *rapid.T) {
	_, p := s.pickPos(rt)
	a := rapid.IntRange(0, NActors-1).Draw(rt, "owner")
	a0, a1 := genAmount(rt, "amt0"), genAmount(rt, "amt1")
	r := s.C.Exec(&cltypes.MsgCreatePosition{PoolId: s.PoolID, Sender: chain.Actor(a).String(), LowerTick: p.Lower, UpperTick: p.Upper, TokensProvided: sdk.NewCoins(coin(D0, a0), coin(D1, a1)), TokenMinAmount0: osmomath.ZeroInt(), TokenMinAmount1: osmomath.ZeroInt()})
	if !r.OK() {
		s.class("create-rejected")
		return
	}
	var resp cltypes.MsgCreatePositionResponse
	_ = r.Unpack(&resp)
	cur := s.Pool().GetCurrentTick()
	s.Known[resp.PositionId] = PosRec{Owner: a, Lower: resp.LowerTick, Upper: resp.UpperTick, Join: s.C.Ctx.BlockTime(), Gen: s.Gen, Entered: cur >= resp.LowerTick-1 && cur <= resp.UpperTick}
	s.LPOps++
	s.Ev = &Event{Kind: "create", ID: resp.PositionId, Owner: a}
	s.class("same-range-position")
	s.log("createSame#%d a%d [%d,%d) %s/%s liq=%s", resp.PositionId, a, resp.LowerTick, resp.UpperTick, a0, a1, resp.LiquidityCreated)
}

// CreateLocked opens a full-range position whose liquidity is tokenised and locked (the path superfluid staking and the
// balancer->concentrated migration use): it cannot be withdrawn, added to or transferred until the lock has matured.
func (s *Sim) CreateLocked(rt *rapid.T) {
	a := rapid.IntRange(0, NActors-1).Draw(rt, "owner")
	a0, a1 := genAmount(rt, "amt0"), genAmount(rt, "amt1")
	dur := rapid.SampledFrom([]time.Duration{time.Second, time.Hour, 24 * time.Hour, 14 * 24 * time.Hour}).Draw(rt, "lockDuration")
	first := len(s.Known) == 0
	var data cltypes.CreateFullRangePositionData
	var lockID uint64
	err := s.C.Try(func(ctx sdk.Context) error {
		var err error
		data, lockID, err = s.C.App.ConcentratedLiquidityKeeper.CreateFullRangePositionLocked(ctx, s.PoolID, chain.Actor(a), sdk.NewCoins(coin(D0, a0), coin(D1, a1)), dur)
		if err == nil && data.Liquidity.LT(osmomath.OneDec()) {
			// the callers of this keeper function (superfluid delegation, balancer migration) never keep a lock of zero
			// share units: the delegation of a zero-valued lock is rejected and the transaction rolled back
			return fmt.Errorf("liquidity %s tokenises to zero shares", data.Liquidity)
		}
		return err
	})
	if err != nil {
		s.class("create-locked-rejected")
		return
	}
	if _, dup := s.Known[data.ID]; dup {
		rt.Fatalf("CreateFullRangePositionLocked returned position id %d which already exists", data.ID)
	}
	s.Known[data.ID] = PosRec{Owner: a, Lower: cltypes.MinInitializedTick, Upper: cltypes.MaxTick, Join: s.C.Ctx.BlockTime(), Gen: s.Gen, Entered: true, LockID: lockID, LockDur: dur}
	s.LPOps++
	s.Ev = &Event{Kind: "create", ID: data.ID, Owner: a}
	if first {
		s.class("first-position")
	}
	s.class("locked-position-created")
	s.log("createLocked#%d a%d %s/%s liq=%s lock#%d %s", data.ID, a, a0, a1, data.Liquidity, lockID, dur)
}

// BeginUnlock starts unlocking the lock under a locked position.
func (s *Sim) BeginUnlock(rt *rapid.T) {
	var ids []uint64
	for _, id := range s.SortedKnown() {
		if r := s.Known[id]; r.LockID != 0 && r.UnlockAt.IsZero() {
			ids = append(ids, id)
		}
	}
	if len(ids) == 0 {
		rt.Skip("no locked position")
	}
	id := ids[rapid.IntRange(0, len(ids)-1).Draw(rt, "lockedPos")]
	rec := s.Known[id]
	r := s.C.Exec(&lockuptypes.MsgBeginUnlocking{Owner: chain.Actor(rec.Owner).String(), ID: rec.LockID})
	if !r.OK() {
		rt.Fatalf("MsgBeginUnlocking of lock %d under position %d by its owner failed: %v [history %v]", rec.LockID, id, r.Err, s.Hist)
	}
	rec.UnlockAt = s.C.Ctx.BlockTime()
	s.Known[id] = rec
	s.class("locked-position-unlocking")
	s.log("beginUnlock#%d lock#%d", id, rec.LockID)
}

// Equalize makes two positions that meet at one tick (the upper bound of one is the lower bound of the other) hold
// exactly the same liquidity, by withdrawing the difference from the larger one: the shared tick then has net liquidity
// zero and gross liquidity 2L - "net is zero" and "nobody uses the tick" are different things.
func (s *Sim) Equalize(rt *rapid.T) {
	type pair struct{ a, b uint64 }
	var pairs []pair
	ids := s.SortedKnown()
	now := s.C.Ctx.BlockTime()
	for _, x := range ids {
		for _, y := range ids {
			if x != y && s.Known[x].Upper == s.Known[y].Lower && !s.Known[x].Bound(now) && !s.Known[y].Bound(now) {
				pairs = append(pairs, pair{x, y})
			}
		}
	}
	if len(pairs) == 0 {
		rt.Skip("no two positions meet at a tick")
	}
	pr := pairs[rapid.IntRange(0, len(pairs)-1).Draw(rt, "meetingPair")]
	k := s.C.App.ConcentratedLiquidityKeeper
	pa, err1 := k.GetPosition(s.C.Ctx, pr.a)
	pb, err2 := k.GetPosition(s.C.Ctx, pr.b)
	if err1 != nil || err2 != nil {
		rt.Fatalf("positions %d/%d known to the harness are gone", pr.a, pr.b)
	}
	big, diff := pr.a, pa.Liquidity.Sub(pb.Liquidity)
	if diff.IsNegative() {
		big, diff = pr.b, diff.Neg()
	}
	if diff.IsZero() {
		s.class("meeting-positions-already-equal")
		return
	}
	rec := s.Known[big]
	r := s.C.Exec(&cltypes.MsgWithdrawPosition{PositionId: big, Sender: chain.Actor(rec.Owner).String(), LiquidityAmount: diff})
	if !r.OK() {
		if s.StrictExit {
			rt.Fatalf("MsgWithdrawPosition(#%d, %s) by its owner failed: %v [history %v]", big, diff, r.Err, s.Hist)
		}
		s.class("withdraw-rejected")
		return
	}
	s.Gen++
	s.Ev = &Event{Kind: "withdraw", ID: big, Owner: rec.Owner, Amt: diff, Full: false}
	rec.Mods++
	s.Known[big] = rec
	s.LPOps++
	s.class("meeting-positions-equalized")
	s.log("equalize #%d/#%d at tick %d: withdraw#%d %s", pr.a, pr.b, s.Known[pr.a].Upper, big, diff)
}

func (s *Sim) pickPos(rt *rapid.T) (uint64, PosRec) {
	ids := make([]uint64, 0, len(s.Known))
	for id := range s.Known {
		ids = append(ids, id)
	}
	if len(ids) == 0 {
		rt.Skip("no positions")
	}
	sort.Slice(ids, func(i, j int) bool { return ids[i] < ids[j] })
	id := ids[rapid.IntRange(0, len(ids)-1).Draw(rt, "pos")]
	return id, s.Known[id]
}

func (s *Sim) AddToPosition(rt *rapid.T) {
	id, p := s.pickPos(rt)
	a0, a1 := genAmount(rt, "amt0"), genAmount(rt, "amt1")
	r := s.C.Exec(&cltypes.MsgAddToPosition{PositionId: id, Sender: chain.Actor(p.Owner).String(), Amount0: osmomath.NewIntFromBigInt(a0), Amount1: osmomath.NewIntFromBigInt(a1), TokenMinAmount0: osmomath.ZeroInt(), TokenMinAmount1: osmomath.ZeroInt()})
	if p.Bound(s.C.Ctx.BlockTime()) {
		if r.OK() {
			rt.Fatalf("MsgAddToPosition(#%d) succeeded although the position is bound by unexpired lock %d [history %v]", id, p.LockID, s.Hist)
		}
		s.class("bound-position-add-rejected")
		return
	}
	if !r.OK() {
		s.class("add-rejected")
		return
	}
	var resp cltypes.MsgAddToPositionResponse
	_ = r.Unpack(&resp)
	if _, dup := s.Known[resp.PositionId]; dup {
		rt.Fatalf("MsgAddToPosition returned position id %d which already exists", resp.PositionId)
	}
	delete(s.Known, id)
	s.Known[resp.PositionId] = PosRec{Owner: p.Owner, Lower: p.Lower, Upper: p.Upper, Join: s.C.Ctx.BlockTime(), Mods: 1, Entered: p.Entered, Gen: s.Gen + 1}
	s.LPOps += 2
	s.Gen++ // add-to-position withdraws the old position, which may redeposit its forfeited incentives to the liquidity active then
	s.Ev = &Event{Kind: "add", ID: id, NewID: resp.PositionId, Owner: p.Owner}
	s.class("add-to-position")
	s.log("add#%d->#%d %s/%s", id, resp.PositionId, a0, a1)
}

func (s *Sim) Withdraw(rt *rapid.T) {
	id, p := s.pickPos(rt)
	pos, err := s.C.App.ConcentratedLiquidityKeeper.GetPosition(s.C.Ctx, id)
	if err != nil {
		rt.Fatalf("position %d known to the harness is gone: %v", id, err)
	}
	liq := pos.Liquidity
	full := false
	var amt osmomath.Dec
	switch rapid.IntRange(0, 4).Draw(rt, "wKind") {
	case 0, 1:
		amt, full = liq, true
	case 2: // all but one ulp
		amt = liq.Sub(osmomath.SmallestDec())
		if !amt.IsPositive() {
			amt, full = liq, true
		}
	default:
		amt = liq.MulInt64(rapid.Int64Range(1, 999).Draw(rt, "permille")).QuoInt64(1000)
		if !amt.IsPositive() {
			amt, full = liq, true
		}
	}
	r := s.C.Exec(&cltypes.MsgWithdrawPosition{PositionId: id, Sender: chain.Actor(p.Owner).String(), LiquidityAmount: amt})
	if p.Bound(s.C.Ctx.BlockTime()) {
		if r.OK() {
			rt.Fatalf("MsgWithdrawPosition(#%d) succeeded although the position is bound by unexpired lock %d (unlocking since %v, duration %s) [history %v]", id, p.LockID, p.UnlockAt, p.LockDur, s.Hist)
		}
		s.class("bound-position-withdraw-rejected")
		return
	}
	if p.LockID != 0 {
		s.class("matured-locked-position-withdrawn")
	}
	if !r.OK() {
		if s.StrictExit {
			rt.Fatalf("MsgWithdrawPosition(#%d, %s of %s) by its owner failed: %v [history %v]", id, amt, liq, r.Err, s.Hist)
		}
		s.class("withdraw-rejected")
		return
	}
	s.Gen++ // withdrawals may redeposit forfeited incentives
	s.Ev = &Event{Kind: "withdraw", ID: id, Owner: p.Owner, Amt: amt, Full: full}
	if full {
		delete(s.Known, id)
		s.class("full-withdrawal")
	} else {
		rec := s.Known[id]
		rec.Mods++
		s.Known[id] = rec
		s.class("partial-withdrawal")
	}
	s.LPOps++
	s.log("withdraw#%d %s (full=%v)", id, amt, full)
}

func (s *Sim) balances(addr sdk.AccAddress) map[string]*big.Int {
	out := map[string]*big.Int{}
	for _, d := range append([]string{D0, D1}, IncDenoms...) {
		out[d] = s.C.Bal(addr, d).Amount.BigInt()
	}
	return out
}

// swapAmount picks tiny / typical / reserve-relative / drain amounts.
func (s *Sim) swapAmount(rt *rapid.T, denom string) *big.Int {
	bal := s.C.Bal(s.Pool().GetAddress(), denom).Amount.BigInt()
	switch rapid.IntRange(0, 6).Draw(rt, "sShape") {
	case 0:
		return big.NewInt(rapid.Int64Range(1, 3).Draw(rt, "sTiny"))
	case 1: // a fraction of the pool balance
		v := new(big.Int).Mul(bal, big.NewInt(rapid.Int64Range(1, 1_000_000).Draw(rt, "sPpm")))
		v.Quo(v, big.NewInt(1_000_000))
		if v.Sign() == 0 {
			v.SetInt64(1)
		}
		return v
	case 2: // around the whole balance (drain attempts)
		v := new(big.Int).Mul(bal, big.NewInt(rapid.Int64Range(90, 1000).Draw(rt, "sPct")))
		v.Quo(v, big.NewInt(100)).Add(v, big.NewInt(1))
		return v
	default:
		return genAmount(rt, "sAmt")
	}
}

var bigDecOne = new(big.Int).Exp(big.NewInt(10), big.NewInt(36), nil)

func (s *Sim) Swap(rt *rapid.T) {
	if len(s.Known) == 0 {
		rt.Skip("no liquidity")
	}
	a := rapid.IntRange(0, NActors-1).Draw(rt, "trader")
	zfo := rapid.Bool().Draw(rt, "zeroForOne")
	exactIn := rapid.Bool().Draw(rt, "exactIn")
	in, out := D0, D1
	if !zfo {
		in, out = D1, D0
	}
	p0 := s.Pool()
	trader := chain.Actor(a)
	b0 := s.balances(trader)
	var r chain.ExecResult
	var amt *big.Int
	var ledger *spreadLedger
	defer func() {
		if ledger != nil && r.OK() {
			ledger.check(rt, s, in)
		}
	}()
	if exactIn {
		amt = s.swapAmount(rt, in)
		if s.SpreadLedger {
			ledger = s.newSpreadLedger(zfo, true, amt, in)
		}
		r = s.C.Exec(&pmtypes.MsgSwapExactAmountIn{Sender: trader.String(), Routes: []pmtypes.SwapAmountInRoute{{PoolId: s.PoolID, TokenOutDenom: out}}, TokenIn: coin(in, amt), TokenOutMinAmount: osmomath.OneInt()})
	} else {
		amt = s.swapAmount(rt, out)
		if s.SpreadLedger {
			ledger = s.newSpreadLedger(zfo, false, amt, in)
		}
		max, _ := new(big.Int).SetString("100000000000000000000000000000000000000000", 10)
		r = s.C.Exec(&pmtypes.MsgSwapExactAmountOut{Sender: trader.String(), Routes: []pmtypes.SwapAmountOutRoute{{PoolId: s.PoolID, TokenInDenom: in}}, TokenInMaxAmount: osmomath.NewIntFromBigInt(max), TokenOut: coin(out, amt)})
	}
	if !r.OK() {
		s.class("swap-rejected")
		return
	}
	b1 := s.balances(trader)
	paid := new(big.Int).Sub(b0[in], b1[in])
	got := new(big.Int).Sub(b1[out], b0[out])
	s.Vol[in].Add(s.Vol[in], paid)
	s.Vol[out].Add(s.Vol[out], got)
	s.Swaps++
	s.Gen++
	p1 := s.Pool()
	sMin := p0.GetCurrentSqrtPrice()
	if p1.GetCurrentSqrtPrice().LT(sMin) {
		sMin = p1.GetCurrentSqrtPrice()
	}
	if sMin.IsPositive() {
		sr := new(big.Rat).SetFrac(sMin.BigInt(), bigDecOne)
		s.InvSqrt2.Add(s.InvSqrt2, new(big.Rat).Inv(sr.Mul(sr, sr)))
	}
	if p0.GetCurrentTick() != p1.GetCurrentTick() {
		s.class("swap-changed-tick")
	}
	if p1.GetLiquidity().IsZero() {
		s.class("swap-into-zero-liquidity")
	}
	if ts, err := clmath.TickToSqrtPrice(p1.GetCurrentTick()); err == nil && ts.Equal(p1.GetCurrentSqrtPrice()) {
		s.class("swap-landed-exactly-on-tick")
	}
	lo, hi := p0.GetCurrentTick(), p1.GetCurrentTick()
	if lo > hi {
		lo, hi = hi, lo
	}
	for id, rec := range s.Known {
		// conservative: ticks adjacent to the range count as "entered"
		if !rec.Entered && hi >= rec.Lower-1 && lo <= rec.Upper {
			rec.Entered = true
			s.Known[id] = rec
		}
	}
	if s.OnSwap != nil {
		s.OnSwap(SwapInfo{ZeroForOne: zfo, ExactIn: exactIn, In: paid, Out: got, TickBefore: p0.GetCurrentTick(), TickAfter: p1.GetCurrentTick(), SqrtBefore: p0.GetCurrentSqrtPrice(), SqrtAfter: p1.GetCurrentSqrtPrice()})
	}
	s.log("swap a%d zfo=%v exactIn=%v amt=%s paid=%s got=%s tick %d->%d", a, zfo, exactIn, amt, paid, got, p0.GetCurrentTick(), p1.GetCurrentTick())
}

func (s *Sim) CollectSpread(rt *rapid.T) {
	id, p := s.pickPos(rt)
	r := s.C.Exec(&cltypes.MsgCollectSpreadRewards{PositionIds: []uint64{id}, Sender: chain.Actor(p.Owner).String()})
	if !r.OK() {
		if s.StrictExit {
			rt.Fatalf("MsgCollectSpreadRewards(#%d) by its owner failed: %v [history %v]", id, r.Err, s.Hist)
		}
		s.class("collect-rejected")
		return
	}
	rec := s.Known[id]
	rec.Mods++
	s.Known[id] = rec
	s.Claims++
	s.class("collect-spread")
	s.log("collectSpread#%d", id)
}

func (s *Sim) CollectIncentives(rt *rapid.T) {
	id, p := s.pickPos(rt)
	r := s.C.Exec(&cltypes.MsgCollectIncentives{PositionIds: []uint64{id}, Sender: chain.Actor(p.Owner).String()})
	if !r.OK() {
		if s.StrictExit {
			rt.Fatalf("MsgCollectIncentives(#%d) by its owner failed: %v [history %v]", id, r.Err, s.Hist)
		}
		s.class("collect-rejected")
		return
	}
	var resp cltypes.MsgCollectIncentivesResponse
	_ = r.Unpack(&resp)
	if !resp.ForfeitedIncentives.IsZero() {
		s.class("claim-with-forfeiture")
	}
	rec := s.Known[id]
	rec.Mods++
	s.Known[id] = rec
	if s.OnCollectIncentives != nil {
		s.OnCollectIncentives(id, resp)
	}
	s.Ev = &Event{Kind: "collectInc", ID: id, Owner: p.Owner, Collected: resp.CollectedIncentives, Forfeited: resp.ForfeitedIncentives, HasResp: true}
	s.Claims++
	s.Gen++
	s.class("collect-incentives")
	s.log("collectInc#%d got=%s forfeited=%s", id, resp.CollectedIncentives, resp.ForfeitedIncentives)
}

func (s *Sim) Transfer(rt *rapid.T) {
	id, p := s.pickPos(rt)
	to := rapid.IntRange(0, NActors-1).Draw(rt, "newOwner")
	before := map[uint64]bool{}
	for _, q := range s.Positions() {
		before[q.PositionId] = true
	}
	claimBefore := s.claimableOf(id)
	r := s.C.Exec(&cltypes.MsgTransferPositions{PositionIds: []uint64{id}, Sender: chain.Actor(p.Owner).String(), NewOwner: chain.Actor(to).String()})
	if p.Bound(s.C.Ctx.BlockTime()) {
		if r.OK() {
			rt.Fatalf("MsgTransferPositions(#%d) succeeded although the position is bound by unexpired lock %d [history %v]", id, p.LockID, s.Hist)
		}
		s.class("bound-position-transfer-rejected")
		return
	}
	if !r.OK() {
		// business rules (last position in the pool, same owner) reject some transfers
		s.class("transfer-rejected")
		return
	}
	delete(s.Known, id)
	for _, q := range s.Positions() {
		if !before[q.PositionId] || q.PositionId == id {
			if q.Address != chain.Actor(to).String() || q.LowerTick != p.Lower || q.UpperTick != p.Upper {
				rt.Fatalf("transfer of #%d to a%d produced position %d {%s [%d,%d)}", id, to, q.PositionId, q.Address, q.LowerTick, q.UpperTick)
			}
			// a transfer neither loses nor duplicates what the position has earned: what it could collect (and what it
			// would still forfeit) a moment ago is what the new owner's position can collect now; the harness keeps the join
			// time IT recorded at creation, so that later claims are judged against the position's real age
			claimAfter := s.claimableOf(q.PositionId)
			for _, pair := range []struct {
				what string
				b, a map[string]*big.Int
			}{{"claimable spread rewards", claimBefore.spread, claimAfter.spread}, {"collectable incentives", claimBefore.incent, claimAfter.incent}, {"forfeitable incentives", claimBefore.forfeit, claimAfter.forfeit}} {
				for _, d := range append(append([]string{}, IncDenoms...), D0, D1) {
					if get(pair.b, d).Cmp(get(pair.a, d)) != 0 {
						rt.Fatalf("transfer of position #%d (joined %s ago) changed its %s of %s from %s to %s [history %v]", id, s.C.Ctx.BlockTime().Sub(p.Join), pair.what, d, get(pair.b, d), get(pair.a, d), s.Hist)
					}
				}
			}
			s.Known[q.PositionId] = PosRec{Owner: to, Lower: q.LowerTick, Upper: q.UpperTick, Join: p.Join, Mods: 1, Entered: p.Entered}
		}
	}
	s.LPOps += 2
	s.class("transfer")
	s.log("transfer#%d a%d->a%d", id, p.Owner, to)
}

func (s *Sim) CreateIncentive(rt *rapid.T) {
	a := rapid.IntRange(0, NActors-1).Draw(rt, "sponsor")
	d := IncDenoms[rapid.IntRange(0, len(IncDenoms)-1).Draw(rt, "incDenom")]
	amt := genAmount(rt, "incAmt")
	// emission rate per second: from tiny to exhausting within a second
	rate := osmomath.NewDecFromBigInt(genAmount(rt, "rate")).QuoInt64(rapid.SampledFrom([]int64{1, 1000, 1_000_000}).Draw(rt, "rateDiv"))
	if !rate.IsPositive() {
		rate = osmomath.SmallestDec()
	}
	start := s.C.Ctx.BlockTime().Add(time.Duration(rapid.Int64Range(0, int64(2*time.Hour)).Draw(rt, "startIn")))
	if rapid.Bool().Draw(rt, "startNow") {
		start = s.C.Ctx.BlockTime()
	}
	uptimes := s.C.App.ConcentratedLiquidityKeeper.GetParams(s.C.Ctx).AuthorizedUptimes
	up := uptimes[rapid.IntRange(0, len(uptimes)-1).Draw(rt, "uptime")]
	var rec cltypes.IncentiveRecord
	err := s.C.Try(func(ctx sdk.Context) error {
		var err error
		rec, err = s.C.App.ConcentratedLiquidityKeeper.CreateIncentive(ctx, s.PoolID, chain.Actor(a), coin(d, amt), rate, start, up)
		return err
	})
	if err != nil {
		s.class("incentive-rejected")
		return
	}
	if s.IncentiveDeposited[d] == nil {
		s.IncentiveDeposited[d] = new(big.Int)
	}
	s.IncentiveDeposited[d].Add(s.IncentiveDeposited[d], amt)
	s.Gen++
	s.Ev = &Event{Kind: "incentive", Owner: a, Rec: &rec, Deposit: coin(d, amt)}
	s.class("incentive-created")
	s.log("incentive %s%s rate=%s start=+%s uptime=%s", amt, d, rate, start.Sub(s.C.Ctx.BlockTime()), up)
}

func (s *Sim) AdvanceTime(rt *rapid.T) {
	var dt time.Duration
	switch rapid.IntRange(0, 5).Draw(rt, "dtKind") {
	case 0:
		dt = 0
	case 1:
		dt = 1
	case 2:
		dt = time.Duration(rapid.Int64Range(1, int64(10*time.Second)).Draw(rt, "secs"))
	case 3:
		dt = rapid.SampledFrom([]time.Duration{time.Minute - 1, time.Minute, time.Minute + 1, time.Hour - 1, time.Hour, time.Hour + 1, 24 * time.Hour}).Draw(rt, "uptimeEdge")
	default:
		dt = time.Duration(rapid.Int64Range(0, int64(3*24*time.Hour)).Draw(rt, "days"))
	}
	s.C.Advance(dt)
	s.Gen++
	s.log("+%s", dt)
}

// RevertedTx sends a transaction of two messages whose second message fails after the first (a swap or a position
// creation) has run: nothing of the first message may survive - in the stores (digest) or anywhere else (the following
// steps run their oracles on whatever the rolled-back message left in memory).
func (s *Sim) RevertedTx(rt *rapid.T) {
	if len(s.Known) == 0 {
		rt.Skip("no liquidity")
	}
	a := rapid.IntRange(0, NActors-1).Draw(rt, "actor")
	var first sdk.Msg
	if rapid.Bool().Draw(rt, "firstIsSwap") {
		in, out := D0, D1
		if rapid.Bool().Draw(rt, "oneForZero") {
			in, out = D1, D0
		}
		first = &pmtypes.MsgSwapExactAmountIn{Sender: chain.Actor(a).String(), Routes: []pmtypes.SwapAmountInRoute{{PoolId: s.PoolID, TokenOutDenom: out}}, TokenIn: coin(in, s.swapAmount(rt, in)), TokenOutMinAmount: osmomath.OneInt()}
	} else {
		lo, hi := s.genTick(rt, "lower"), s.genTick(rt, "upper")
		if lo == hi {
			hi = lo + s.Spacing
		}
		if lo > hi {
			lo, hi = hi, lo
		}
		first = &cltypes.MsgCreatePosition{PoolId: s.PoolID, Sender: chain.Actor(a).String(), LowerTick: lo, UpperTick: hi, TokensProvided: sdk.NewCoins(coin(D0, genAmount(rt, "amt0")), coin(D1, genAmount(rt, "amt1"))), TokenMinAmount0: osmomath.ZeroInt(), TokenMinAmount1: osmomath.ZeroInt()}
	}
	tooMuch, _ := new(big.Int).SetString("1000000000000000000000000000000000000000000000", 10) // 1e45, nobody holds it
	second := &banktypes.MsgSend{FromAddress: chain.Actor(a).String(), ToAddress: chain.Actor((a + 1) % NActors).String(), Amount: sdk.NewCoins(coin(D0, tooMuch))}
	d0 := s.C.Digest()
	r := s.C.ExecTx(first, second)
	if r.OK() {
		rt.Fatalf("harness: a bank send of 1e45 succeeded")
	}
	if s.C.Digest() != d0 {
		rt.Fatalf("a two-message transaction whose second message failed (%v) changed state [history %v]", r.Err, s.Hist)
	}
	s.class("reverted-two-message-tx")
	s.log("revertedTx a%d %T + failing send", a, first)
}

// WrapLedger runs an action under the incentive ledger (no-op when the ledger is off): the state the accumulator
// update of the step sees is read before the action, the ledger is advanced and the step's coin flows checked after it.
func (s *Sim) WrapLedger(f func(*rapid.T)) func(*rapid.T) {
	return func(rt *rapid.T) {
		if s.IncLedger == nil {
			f(rt)
			return
		}
		pre := s.incPre()
		s.Ev = nil
		f(rt)
		s.incApply(rt, pre, s.Ev)
	}
}

// Actions returns the rapid state-machine action table.
func (s *Sim) Actions() map[string]func(*rapid.T) {
	acts := s.actions()
	for k, f := range acts {
		acts[k] = s.WrapLedger(f)
	}
	return acts
}

func (s *Sim) actions() map[string]func(*rapid.T) {
	return map[string]func(*rapid.T){
		"create":           s.CreatePosition,
		"create2":          s.CreatePosition,
		"add":              s.AddToPosition,
		"withdraw":         s.Withdraw,
		"swap":             s.Swap,
		"swap2":            s.Swap,
		"swap3":            s.Swap,
		"collectSpread":    s.CollectSpread,
		"collectIncentive": s.CollectIncentives,
		"transfer":         s.Transfer,
		"incentive":        s.CreateIncentive,
		"time":             s.AdvanceTime,
		"createLocked":     s.CreateLocked,
		"equalize":         s.Equalize,
		"revertedTx":       s.RevertedTx,
		"beginUnlock":      s.BeginUnlock,
	}
}
