package clsim

import (
	"fmt"
	"math/big"
	"sort"

	sdk "github.com/cosmos/cosmos-sdk/types"
	"pgregory.net/rapid"

	"github.com/osmosis-labs/osmosis/osmomath"
	clmath "github.com/osmosis-labs/osmosis/v31/x/concentrated-liquidity/math"
	cltypes "github.com/osmosis-labs/osmosis/v31/x/concentrated-liquidity/types"

	"verif/harness/chain"
)

// CheckBookkeeping is the C07 oracle: pool, tick and position records must agree, from queries only.
func (s *Sim) CheckBookkeeping(rt *rapid.T) {
	k := s.C.App.ConcentratedLiquidityKeeper
	ctx := s.C.Ctx
	pool := s.Pool()
	positions := s.Positions()
	cur := pool.GetCurrentTick()
	curSqrt := pool.GetCurrentSqrtPrice()

	// the harness's own id -> (owner, range) record must match what the chain reports
	if len(positions) != len(s.Known) {
		rt.Fatalf("pool has %d positions, the history created %d live ones [history %v]", len(positions), len(s.Known), s.Hist)
	}
	for _, p := range positions {
		rec, ok := s.Known[p.PositionId]
		if !ok || chain.Actor(rec.Owner).String() != p.Address || rec.Lower != p.LowerTick || rec.Upper != p.UpperTick {
			rt.Fatalf("position %d is {owner %s [%d,%d)} but the history says %+v (ids, owners and ranges may only change through create/withdraw/add/transfer by the owner)", p.PositionId, p.Address, p.LowerTick, p.UpperTick, rec)
		}
		if !p.Liquidity.IsPositive() {
			rt.Fatalf("position %d has non-positive liquidity %s", p.PositionId, p.Liquidity)
		}
	}
	if len(positions) == 0 {
		if !curSqrt.IsZero() || cur != 0 || !pool.GetLiquidity().IsZero() {
			rt.Fatalf("pool without positions still has sqrt price %s, tick %d, liquidity %s", curSqrt, cur, pool.GetLiquidity())
		}
		if sp, err := k.CalculateSpotPrice(ctx, s.PoolID, D0, D1); err == nil {
			rt.Fatalf("pool without positions reports spot price %s", sp)
		}
		if ts, _ := k.GetAllInitializedTicksForPool(ctx, s.PoolID); len(ts) != 0 {
			rt.Fatalf("pool without positions still stores %d ticks", len(ts))
		}
		return
	}
	// active liquidity
	active := osmomath.ZeroDec()
	gross := map[int64]osmomath.Dec{}
	net := map[int64]osmomath.Dec{}
	add := func(m map[int64]osmomath.Dec, t int64, v osmomath.Dec) {
		if cur, ok := m[t]; ok {
			m[t] = cur.Add(v)
		} else {
			m[t] = v
		}
	}
	total := osmomath.ZeroDec()
	for _, p := range positions {
		total = total.Add(p.Liquidity)
		if p.LowerTick <= cur && cur < p.UpperTick {
			active = active.Add(p.Liquidity)
		}
		add(gross, p.LowerTick, p.Liquidity)
		add(gross, p.UpperTick, p.Liquidity)
		add(net, p.LowerTick, p.Liquidity)
		add(net, p.UpperTick, p.Liquidity.Neg())
	}
	if tl := total.TruncateInt().BigInt(); tl.Cmp(s.MaxLiq) > 0 {
		s.MaxLiq = tl
	}
	if !pool.GetLiquidity().Equal(active) {
		rt.Fatalf("pool active liquidity %s != sum of positions containing the current tick %d: %s [history %v]", pool.GetLiquidity(), cur, active, s.Hist)
	}
	ticks, err := k.GetAllInitializedTicksForPool(ctx, s.PoolID)
	if err != nil {
		rt.Fatalf("GetAllInitializedTicksForPool: %v", err)
	}
	if len(ticks) > s.MaxTicks {
		s.MaxTicks = len(ticks)
	}
	seen := map[int64]bool{}
	for _, t := range ticks {
		seen[t.TickIndex] = true
		g, ok := gross[t.TickIndex]
		if !ok {
			rt.Fatalf("tick %d is stored (gross %s, net %s) but no position uses it as a boundary [history %v]", t.TickIndex, t.Info.LiquidityGross, t.Info.LiquidityNet, s.Hist)
		}
		if !t.Info.LiquidityGross.Equal(g) || !t.Info.LiquidityNet.Equal(net[t.TickIndex]) {
			rt.Fatalf("tick %d stores gross %s net %s, positions sum to gross %s net %s [history %v]", t.TickIndex, t.Info.LiquidityGross, t.Info.LiquidityNet, g, net[t.TickIndex], s.Hist)
		}
	}
	for t := range gross {
		if !seen[t] {
			rt.Fatalf("tick %d is a boundary of a live position but is not stored [history %v]", t, s.Hist)
		}
	}
	// price / tick agreement about every position
	for _, p := range positions {
		lo, err1 := clmath.TickToSqrtPrice(p.LowerTick)
		hi, err2 := clmath.TickToSqrtPrice(p.UpperTick)
		if err1 != nil || err2 != nil {
			rt.Fatalf("position %d has unconvertible ticks", p.PositionId)
		}
		switch {
		case cur < p.LowerTick:
			if curSqrt.GT(lo) {
				rt.Fatalf("current tick %d says the price is below position %d [%d,%d) but sqrt price %s > sqrt(lower) %s [history %v]", cur, p.PositionId, p.LowerTick, p.UpperTick, curSqrt, lo, s.Hist)
			}
		case cur >= p.UpperTick:
			if curSqrt.LT(hi) {
				rt.Fatalf("current tick %d says the price is above position %d [%d,%d) but sqrt price %s < sqrt(upper) %s [history %v]", cur, p.PositionId, p.LowerTick, p.UpperTick, curSqrt, hi, s.Hist)
			}
		default:
			if curSqrt.LT(lo) || curSqrt.GT(hi) {
				rt.Fatalf("current tick %d says the price is inside position %d [%d,%d) but sqrt price %s is outside [%s,%s] [history %v]", cur, p.PositionId, p.LowerTick, p.UpperTick, curSqrt, lo, hi, s.Hist)
			}
		}
	}
}

func coinsMap(cs sdk.Coins) map[string]*big.Int {
	out := map[string]*big.Int{}
	for _, c := range cs {
		out[c.Denom] = c.Amount.BigInt()
	}
	return out
}

// CheckSolvency is the C01 oracle, run on a discarded branch: claimable sums are covered by the reward
// accounts, then every unlocked position collects and fully withdraws (all must succeed), and what is left
// is bounded dust.
func (s *Sim) CheckSolvency(rt *rapid.T) {
	if len(s.Known) == 0 {
		return
	}
	b := s.C.Branch()
	k := b.App.ConcentratedLiquidityKeeper
	pool, _ := k.GetConcentratedPoolById(b.Ctx, s.PoolID)
	positions := s.Positions()
	// 1. reward accounts cover the claimable sums
	sumSpread, sumInc := map[string]*big.Int{}, map[string]*big.Int{}
	acc := func(m map[string]*big.Int, cs sdk.Coins) {
		for _, c := range cs {
			if m[c.Denom] == nil {
				m[c.Denom] = new(big.Int)
			}
			m[c.Denom].Add(m[c.Denom], c.Amount.BigInt())
		}
	}
	for _, p := range positions {
		// claimable queries update accumulators on their own branch
		qb := b.Branch()
		sr, err := qb.App.ConcentratedLiquidityKeeper.GetClaimableSpreadRewards(qb.Ctx, p.PositionId)
		if err != nil {
			rt.Fatalf("GetClaimableSpreadRewards(#%d): %v [history %v]", p.PositionId, err, s.Hist)
		}
		acc(sumSpread, sr)
		qb = b.Branch()
		ci, fi, err := qb.App.ConcentratedLiquidityKeeper.GetClaimableIncentives(qb.Ctx, p.PositionId)
		if err != nil {
			rt.Fatalf("GetClaimableIncentives(#%d): %v [history %v]", p.PositionId, err, s.Hist)
		}
		acc(sumInc, ci)
		acc(sumInc, fi)
	}
	for d, v := range sumSpread {
		if bal := b.Bal(pool.GetSpreadRewardsAddress(), d).Amount.BigInt(); bal.Cmp(v) < 0 {
			rt.Fatalf("spread-reward account holds %s%s but claimable spread rewards sum to %s [history %v]", bal, d, v, s.Hist)
		}
	}
	for d, v := range sumInc {
		if bal := b.Bal(pool.GetIncentivesAddress(), d).Amount.BigInt(); bal.Cmp(v) < 0 {
			rt.Fatalf("incentive account holds %s%s but claimable+forfeitable incentives sum to %s [history %v]", bal, d, v, s.Hist)
		}
	}
	// 2. everybody leaves, in a generated order
	order := rapid.Permutation(positions).Draw(rt, "exitOrder")
	boundLeft := 0
	for _, p := range order {
		locked, _, err := k.PositionHasActiveUnderlyingLock(b.Ctx, p.PositionId)
		if err != nil {
			rt.Fatalf("PositionHasActiveUnderlyingLock(#%d): %v", p.PositionId, err)
		}
		if bound := s.Known[p.PositionId].Bound(b.Ctx.BlockTime()); bound != locked {
			rt.Fatalf("position %d: the module says bound-by-an-active-lock=%v, the history (lock %d, duration %s, unlocking since %v, now %v) says %v [history %v]", p.PositionId, locked, s.Known[p.PositionId].LockID, s.Known[p.PositionId].LockDur, s.Known[p.PositionId].UnlockAt, b.Ctx.BlockTime(), bound, s.Hist)
		}
		if locked {
			s.class("exit-skipped-bound-position")
			boundLeft++
			continue
		}
		owner := p.Address
		if r := b.Exec(&cltypes.MsgCollectSpreadRewards{PositionIds: []uint64{p.PositionId}, Sender: owner}); !r.OK() {
			rt.Fatalf("exit: MsgCollectSpreadRewards(#%d) failed: %v [history %v]", p.PositionId, r.Err, s.Hist)
		}
		if r := b.Exec(&cltypes.MsgCollectIncentives{PositionIds: []uint64{p.PositionId}, Sender: owner}); !r.OK() {
			rt.Fatalf("exit: MsgCollectIncentives(#%d) failed: %v [history %v]", p.PositionId, r.Err, s.Hist)
		}
		if r := b.Exec(&cltypes.MsgWithdrawPosition{PositionId: p.PositionId, Sender: owner, LiquidityAmount: p.Liquidity}); !r.OK() {
			rt.Fatalf("exit: position %d [%d,%d) liquidity %s cannot be fully withdrawn: %v [history %v]", p.PositionId, p.LowerTick, p.UpperTick, p.Liquidity, r.Err, s.Hist)
		}
	}
	// 3. what is left is dust (judged only when nobody had to stay behind a lock: their principal and rewards remain)
	if boundLeft > 0 {
		return
	}
	after, _ := k.GetConcentratedPoolById(b.Ctx, s.PoolID)
	if !after.GetCurrentSqrtPrice().IsZero() || !after.GetLiquidity().IsZero() {
		rt.Fatalf("after everybody left the pool still has sqrt price %s / liquidity %s [history %v]", after.GetCurrentSqrtPrice(), after.GetLiquidity(), s.Hist)
	}
	ops := int64(s.LPOps + s.Claims + len(positions)*3 + s.Swaps*(s.MaxTicks+2) + 4)
	// every accumulator update truncates fee/liquidity at 18 decimals (after scaling by 1e27 in the scaled
	// regime): up to liquidity*1e-18/scale units per update are unclaimable by construction
	perUpdate := new(big.Int).Quo(s.MaxLiq, new(big.Int).Exp(big.NewInt(10), big.NewInt(18), nil))
	if !s.Legacy {
		perUpdate.Quo(perUpdate, new(big.Int).Exp(big.NewInt(10), big.NewInt(27), nil))
	}
	perUpdate.Add(perUpdate, big.NewInt(4))
	// every swap step rounds the next sqrt price by up to 1e-36 in the pool's favour; at sqrt price s and liquidity L
	// that is worth L*1e-36/s^2 of token0 and L*1e-36 of token1
	stepDust := new(big.Rat).Mul(s.InvSqrt2, new(big.Rat).SetFrac(new(big.Int).Mul(s.MaxLiq, big.NewInt(int64(2*(s.MaxTicks+2)))), bigDecOne36))
	stepDust0 := new(big.Int).Quo(stepDust.Num(), stepDust.Denom())
	for _, d := range []string{D0, D1} {
		bound := new(big.Int).Add(new(big.Int).Mul(perUpdate, big.NewInt(ops)), new(big.Int).Quo(s.Vol[d], big.NewInt(1_000_000_000)))
		if d == D0 {
			bound.Add(bound, stepDust0)
		} else {
			// token1: L*1e-36 per step (exceeds one unit only for liquidity beyond 1e36, which the generator reaches)
			d1 := new(big.Int).Mul(s.MaxLiq, big.NewInt(int64(2*(s.MaxTicks+2)*(s.Swaps+1))))
			bound.Add(bound, d1.Quo(d1, bigDecOne36))
		}
		for what, addr := range map[string]sdk.AccAddress{"pool": pool.GetAddress(), "spread-reward": pool.GetSpreadRewardsAddress()} {
			if r := b.Bal(addr, d).Amount.BigInt(); r.Cmp(bound) > 0 {
				rt.Fatalf("after everybody withdrew and claimed, the %s account retains %s%s, more than rounding dust (bound %s for %d operations, volume %s) [history %v]", what, r, d, bound, ops, s.Vol[d], s.Hist)
			}
		}
	}
}

var bigDecOne36 = new(big.Int).Exp(big.NewInt(10), big.NewInt(36), nil)

// SortedKnown returns the ids the harness believes alive.
func (s *Sim) SortedKnown() []uint64 {
	ids := make([]uint64, 0, len(s.Known))
	for id := range s.Known {
		ids = append(ids, id)
	}
	sort.Slice(ids, func(i, j int) bool { return ids[i] < ids[j] })
	return ids
}

func (s *Sim) Describe() string {
	return fmt.Sprintf("spacing=%d spread=%s", s.Spacing, s.Spread)
}
