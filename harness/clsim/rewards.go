package clsim

import (
	"math/big"

	sdk "github.com/cosmos/cosmos-sdk/types"
	"pgregory.net/rapid"

	clmodel "github.com/osmosis-labs/osmosis/v31/x/concentrated-liquidity/model"
)

type claimable struct {
	spread  map[string]*big.Int
	incent  map[string]*big.Int // collectable now
	forfeit map[string]*big.Int // would be forfeited now
}

func (s *Sim) claimableOf(id uint64) claimable {
	qb := s.C.Branch()
	sr, err := qb.App.ConcentratedLiquidityKeeper.GetClaimableSpreadRewards(qb.Ctx, id)
	if err != nil {
		panic(err)
	}
	qb = s.C.Branch()
	ci, fi, err := qb.App.ConcentratedLiquidityKeeper.GetClaimableIncentives(qb.Ctx, id)
	if err != nil {
		panic(err)
	}
	return claimable{coinsMap(sr), coinsMap(ci), coinsMap(fi)}
}

func get(m map[string]*big.Int, d string) *big.Int {
	if v := m[d]; v != nil {
		return v
	}
	return new(big.Int)
}

// CheckRewardProportionality is part of the C08 oracle: positions with the same range and the same join
// time that were never modified earn in proportion to their liquidity (identical liquidity => identical
// rewards); a position whose range the price never entered earns nothing.
func (s *Sim) CheckRewardProportionality(rt *rapid.T) {
	positions := s.Positions()
	byID := map[uint64]clmodel.Position{}
	for _, p := range positions {
		byID[p.PositionId] = p
	}
	cl := map[uint64]claimable{}
	for _, p := range positions {
		cl[p.PositionId] = s.claimableOf(p.PositionId)
	}
	denoms := append([]string{D0, D1}, IncDenoms...)
	for _, p := range positions {
		rec := s.Known[p.PositionId]
		c := cl[p.PositionId]
		if !rec.Entered {
			for _, d := range denoms {
				if get(c.spread, d).Sign() != 0 || get(c.incent, d).Sign() != 0 || get(c.forfeit, d).Sign() != 0 {
					rt.Fatalf("position %d [%d,%d) was never in range (price never came near it) but has claimable rewards: spread %v incentives %v forfeitable %v [history %v]", p.PositionId, p.LowerTick, p.UpperTick, c.spread, c.incent, c.forfeit, s.Hist)
				}
			}
			s.class("never-in-range-checked")
		}
	}
	for i, p := range positions {
		for _, q := range positions[i+1:] {
			rp, rq := s.Known[p.PositionId], s.Known[q.PositionId]
			if rp.Mods != 0 || rq.Mods != 0 || rp.Gen != rq.Gen || p.LowerTick != q.LowerTick || p.UpperTick != q.UpperTick || !rp.Join.Equal(rq.Join) {
				continue
			}
			cp, cq := cl[p.PositionId], cl[q.PositionId]
			// liquidity as integers scaled by 1e18
			Lp, Lq := p.Liquidity.BigInt(), q.Liquidity.BigInt()
			for _, d := range denoms {
				for kind, pair := range map[string][2]*big.Int{"spread rewards": {get(cp.spread, d), get(cq.spread, d)}, "incentives (collectable+forfeitable)": {new(big.Int).Add(get(cp.incent, d), get(cp.forfeit, d)), new(big.Int).Add(get(cq.incent, d), get(cq.forfeit, d))}} {
					rP, rQ := pair[0], pair[1]
					if Lp.Cmp(Lq) == 0 && rP.Cmp(rQ) != 0 {
						rt.Fatalf("positions %d and %d have identical range, liquidity and lifetime but claimable %s of %s differ: %s vs %s [history %v]", p.PositionId, q.PositionId, kind, d, rP, rQ, s.Hist)
					}
					// |rQ*Lp - rP*Lq| <= k (Lp + Lq): each claimable amount is a sum of truncations of growth x liquidity - one for
					// spread rewards, one per authorised uptime accumulator (four here) for incentives - plus one for the scaling
					k := int64(2)
					if kind != "spread rewards" {
						k = 5
					}
					lhs := new(big.Int).Sub(new(big.Int).Mul(rQ, Lp), new(big.Int).Mul(rP, Lq))
					lhs.Abs(lhs)
					rhs := new(big.Int).Mul(big.NewInt(k), new(big.Int).Add(Lp, Lq))
					if lhs.Cmp(rhs) > 0 {
						rt.Fatalf("positions %d (liquidity %s) and %d (liquidity %s) share range and lifetime but claimable %s of %s are not proportional: %s vs %s [history %v]", p.PositionId, p.Liquidity, q.PositionId, q.Liquidity, kind, d, rP, rQ, s.Hist)
					}
				}
			}
			s.class("proportional-pair-checked")
		}
	}
}

// IncentiveAccounting is the conservation part of the C08 oracle for incentives: everything deposited is
// either paid out, still claimable (collectable or forfeitable), still un-emitted in a record, or bounded
// truncation dust; `stranded` is what listed known findings account for.
func (s *Sim) IncentiveAccounting(rt *rapid.T, paidOut map[string]*big.Int, stranded map[string]*big.Int) {
	k := s.C.App.ConcentratedLiquidityKeeper
	pool := s.Pool()
	recs, err := k.GetAllIncentiveRecordsForPool(s.C.Ctx, s.PoolID)
	if err != nil {
		panic(err)
	}
	remaining := map[string]*big.Rat{}
	for _, r := range recs {
		c := r.IncentiveRecordBody.RemainingCoin
		if remaining[c.Denom] == nil {
			remaining[c.Denom] = new(big.Rat)
		}
		remaining[c.Denom].Add(remaining[c.Denom], decRat(c.Amount))
	}
	// accumulators must be current before reading claimable amounts: claimable queries do that themselves
	sum := map[string]*big.Int{}
	for _, p := range s.Positions() {
		c := s.claimableOf(p.PositionId)
		for _, d := range IncDenoms {
			if sum[d] == nil {
				sum[d] = new(big.Int)
			}
			sum[d].Add(sum[d], get(c.incent, d)).Add(sum[d], get(c.forfeit, d))
		}
	}
	// un-emitted amounts must be read on a branch where the accumulators were brought up to now
	qb := s.C.Branch()
	if err := qb.App.ConcentratedLiquidityKeeper.UpdatePoolUptimeAccumulatorsToNow(qb.Ctx, s.PoolID); err == nil {
		recs2, _ := qb.App.ConcentratedLiquidityKeeper.GetAllIncentiveRecordsForPool(qb.Ctx, s.PoolID)
		remaining = map[string]*big.Rat{}
		for _, r := range recs2 {
			c := r.IncentiveRecordBody.RemainingCoin
			if remaining[c.Denom] == nil {
				remaining[c.Denom] = new(big.Rat)
			}
			remaining[c.Denom].Add(remaining[c.Denom], decRat(c.Amount))
		}
	}
	for _, d := range IncDenoms {
		dep := get(s.IncentiveDeposited, d)
		bal := s.C.Bal(pool.GetIncentivesAddress(), d).Amount.BigInt()
		// conservation of coins
		if new(big.Int).Add(bal, get(paidOut, d)).Cmp(dep) != 0 {
			rt.Fatalf("incentive denom %s: deposited %s but account holds %s and %s was paid out [history %v]", d, dep, bal, get(paidOut, d), s.Hist)
		}
		rem := remaining[d]
		if rem == nil {
			rem = new(big.Rat)
		}
		// accounted = claimable + un-emitted + known-stranded ; must not exceed the balance, and fall short only by dust
		acc := new(big.Rat).Add(new(big.Rat).SetInt(get(sum, d)), rem)
		acc.Add(acc, new(big.Rat).SetInt(get(stranded, d)))
		balR := new(big.Rat).SetInt(bal)
		if new(big.Rat).SetInt(get(sum, d)).Cmp(balR) > 0 {
			rt.Fatalf("incentive denom %s: claimable+forfeitable %s exceeds the incentive account balance %s [history %v]", d, get(sum, d), bal, s.Hist)
		}
		short := new(big.Rat).Sub(balR, acc)
		ops := int64(s.LPOps + s.Claims + s.Swaps*(s.MaxTicks+2) + len(s.Known)*3 + 8)
		perUpdate := new(big.Int).Quo(s.MaxLiq, e18)
		if !s.LegacyInc {
			perUpdate.Quo(perUpdate, new(big.Int).Exp(big.NewInt(10), big.NewInt(27), nil))
		}
		perUpdate.Add(perUpdate, big.NewInt(4))
		bound := new(big.Rat).SetInt(new(big.Int).Mul(perUpdate, big.NewInt(ops*4)))
		if short.Cmp(bound) > 0 {
			rt.Fatalf("incentive denom %s: account holds %s but only %s is claimable, %s un-emitted and %s known-stranded: %s can never be claimed by anybody (dust bound %s) [history %v]", d, bal, get(sum, d), rem.FloatString(3), get(stranded, d), short.FloatString(3), bound.FloatString(0), s.Hist)
		}
	}
}

var _ = sdk.Coins{}
