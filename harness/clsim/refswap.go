package clsim

import (
	"math/big"
	"sort"

	"github.com/osmosis-labs/osmosis/osmomath"
	clmath "github.com/osmosis-labs/osmosis/v31/x/concentrated-liquidity/math"
	cltypes "github.com/osmosis-labs/osmosis/v31/x/concentrated-liquidity/types"
)

var (
	e18 = new(big.Int).Exp(big.NewInt(10), big.NewInt(18), nil)
	e36 = new(big.Int).Exp(big.NewInt(10), big.NewInt(36), nil)
)

func decRat(d osmomath.Dec) *big.Rat       { return new(big.Rat).SetFrac(d.BigInt(), e18) }
func bigDecRat(d osmomath.BigDec) *big.Rat { return new(big.Rat).SetFrac(d.BigInt(), e36) }

// Bucket is one constant-liquidity segment the reference walk went through.
type Bucket struct {
	L         *big.Rat // active liquidity in the segment
	SqrtFrom  *big.Rat
	SqrtTo    *big.Rat
	AmountIn  *big.Rat // net of the spread factor
	Fee       *big.Rat // spread charge of the segment (in token-in units)
	AmountOut *big.Rat
	// PriceOther: worst-case value, inside the segment, of one unit of the token that is NOT being judged (the token
	// out for exact-in, the token in for exact-out are judged) in units of the judged token
	PriceOther *big.Rat
	CrossedTo  int64 // tick crossed at the end of the segment (valid if Crossed)
	Crossed   bool
}

// RefResult is the exact piecewise constant-liquidity curve walk.
type RefResult struct {
	In, Out   *big.Rat // total paid in (incl. spread charge) and paid out
	Buckets   []Bucket
	Beta      *big.Rat // documented rounding allowance for this walk
	Exhausted bool     // ran out of liquidity before the amount was consumed
	// Ambiguous: at some bucket end the specified amount left over was within a few 1e-18 of exactly reaching the next
	// tick, so whether the walk continues into the next bucket is decided by the implementation's sub-1e-18 roundings;
	// next to extreme liquidity and prices (1e26 at 1e38) that dust is worth more than the whole swap, and a two-sided
	// comparison of per-bucket quantities is meaningless
	Ambiguous bool
}

type tickNet struct {
	idx int64
	net *big.Rat
	sq  *big.Rat
}

// RefSwap walks the exact curve from the pool's current public state: current sqrt price, active
// liquidity, all initialised ticks with their net liquidity and the implementation's tick sqrt prices
// as bucket edges, the spread factor exact, everything in rationals.
func (s *Sim) RefSwap(zeroForOne, exactIn bool, amount *big.Int) RefResult {
	pool := s.Pool()
	k := s.C.App.ConcentratedLiquidityKeeper
	full, err := k.GetAllInitializedTicksForPool(s.C.Ctx, s.PoolID)
	if err != nil {
		panic(err)
	}
	var ticks []tickNet
	for _, t := range full {
		sq, err := clmath.TickToSqrtPrice(t.TickIndex)
		if err != nil {
			panic(err)
		}
		ticks = append(ticks, tickNet{t.TickIndex, decRat(t.Info.LiquidityNet), bigDecRat(sq)})
	}
	sort.Slice(ticks, func(i, j int) bool { return ticks[i].idx < ticks[j].idx })
	cur := pool.GetCurrentTick()
	sq := bigDecRat(pool.GetCurrentSqrtPrice())
	L := decRat(pool.GetLiquidity())
	f := decRat(s.Spread)
	oneMinusF := new(big.Rat).Sub(big.NewRat(1, 1), f)
	rem := new(big.Rat).SetInt(amount)
	res := RefResult{In: new(big.Rat), Out: new(big.Rat), Beta: big.NewRat(2, 1)}
	limit := bigDecRat(cltypes.MinSqrtPriceBigDec)
	if !zeroForOne {
		limit = bigDecRat(cltypes.MaxSqrtPriceBigDec)
	}
	// candidate ticks in walking order
	var order []tickNet
	if zeroForOne {
		for i := len(ticks) - 1; i >= 0; i-- {
			if ticks[i].idx <= cur {
				order = append(order, ticks[i])
			}
		}
	} else {
		for _, t := range ticks {
			if t.idx > cur {
				order = append(order, t)
			}
		}
	}
	inv := func(r *big.Rat) *big.Rat { return new(big.Rat).Inv(r) }
	// the implementation's swap loop runs while more than 1e-18 of the specified amount remains: a smaller remainder is
	// dust it deliberately leaves (next to liquidity of 1e26 at a price of 1e38 even 1e-19 of token0 costs 1e19 of token1)
	smallest := new(big.Rat).SetFrac(big.NewInt(1), e18)
	for _, t := range order {
		if rem.Cmp(smallest) <= 0 {
			break
		}
		target := t.sq
		if (zeroForOne && target.Cmp(limit) < 0) || (!zeroForOne && target.Cmp(limit) > 0) {
			target = limit
		}
		b := Bucket{L: new(big.Rat).Set(L), SqrtFrom: new(big.Rat).Set(sq), CrossedTo: t.idx}
		if L.Sign() > 0 {
			// amounts to reach the target from sq
			var needIn, giveOut *big.Rat
			if zeroForOne { // token0 in, price down: in = L(1/target - 1/sq), out = L(sq - target)
				needIn = new(big.Rat).Mul(L, new(big.Rat).Sub(inv(target), inv(sq)))
				giveOut = new(big.Rat).Mul(L, new(big.Rat).Sub(sq, target))
			} else { // token1 in, price up: in = L(target - sq), out = L(1/sq - 1/target)
				needIn = new(big.Rat).Mul(L, new(big.Rat).Sub(target, sq))
				giveOut = new(big.Rat).Mul(L, new(big.Rat).Sub(inv(sq), inv(target)))
			}
			reach := false
			var margin *big.Rat
			if exactIn {
				net := new(big.Rat).Mul(rem, oneMinusF)
				reach = net.Cmp(needIn) >= 0
				margin = new(big.Rat).Sub(net, needIn)
			} else {
				reach = rem.Cmp(giveOut) >= 0
				margin = new(big.Rat).Sub(rem, giveOut)
			}
			if margin.Abs(margin).Cmp(new(big.Rat).Mul(smallest, big.NewRat(int64(4*(len(res.Buckets)+2)), 1))) <= 0 {
				res.Ambiguous = true
			}
			if reach {
				b.AmountIn, b.AmountOut = needIn, giveOut
				b.Fee = new(big.Rat).Mul(needIn, new(big.Rat).Quo(f, oneMinusF))
				b.SqrtTo = new(big.Rat).Set(target)
			} else if exactIn {
				net := new(big.Rat).Mul(rem, oneMinusF)
				var to *big.Rat
				if zeroForOne { // 1/s' = 1/s + dx/L
					to = inv(new(big.Rat).Add(inv(sq), new(big.Rat).Quo(net, L)))
					b.AmountOut = new(big.Rat).Mul(L, new(big.Rat).Sub(sq, to))
				} else { // s' = s + dy/L
					to = new(big.Rat).Add(sq, new(big.Rat).Quo(net, L))
					b.AmountOut = new(big.Rat).Mul(L, new(big.Rat).Sub(inv(sq), inv(to)))
				}
				b.AmountIn, b.Fee, b.SqrtTo = net, new(big.Rat).Sub(rem, net), to
			} else { // exact out, partial
				var to *big.Rat
				if zeroForOne { // out token1 = L(sq - s')
					to = new(big.Rat).Sub(sq, new(big.Rat).Quo(rem, L))
					b.AmountIn = new(big.Rat).Mul(L, new(big.Rat).Sub(inv(to), inv(sq)))
				} else { // out token0 = L(1/sq - 1/s')
					to = inv(new(big.Rat).Sub(inv(sq), new(big.Rat).Quo(rem, L)))
					b.AmountIn = new(big.Rat).Mul(L, new(big.Rat).Sub(to, sq))
				}
				b.AmountOut, b.SqrtTo = new(big.Rat).Set(rem), to
				b.Fee = new(big.Rat).Mul(b.AmountIn, new(big.Rat).Quo(f, oneMinusF))
			}
			res.In.Add(res.In, b.AmountIn).Add(res.In, b.Fee)
			res.Out.Add(res.Out, b.AmountOut)
			if exactIn {
				rem.Sub(rem, new(big.Rat).Add(b.AmountIn, b.Fee))
			} else {
				rem.Sub(rem, b.AmountOut)
			}
			// allowance, in units of the amount being judged (out for exact-in, in for exact-out): the
			// implementation rounds every computed amount of every bucket by up to one unit (in, spread
			// charge, out); a unit of the other token is worth the marginal price of the bucket; plus the
			// 36-decimal sqrt-price granularity amplified by liquidity.
			var price *big.Rat // value of one unit of the other token, worst case inside the bucket
			switch {
			case exactIn && zeroForOne: // out token1 per in token0 = s^2, largest at the start
				price = new(big.Rat).Mul(b.SqrtFrom, b.SqrtFrom)
			case exactIn && !zeroForOne: // out token0 per in token1 = 1/s^2, largest at the start
				price = inv(new(big.Rat).Mul(b.SqrtFrom, b.SqrtFrom))
			case !exactIn && zeroForOne: // in token0 per out token1 = 1/s^2, largest at the end
				price = inv(new(big.Rat).Mul(b.SqrtTo, b.SqrtTo))
			default: // in token1 per out token0 = s^2, largest at the end
				price = new(big.Rat).Mul(b.SqrtTo, b.SqrtTo)
			}
			if !exactIn {
				price.Quo(price, oneMinusF)
			}
			b.PriceOther = new(big.Rat).Set(price)
			res.Beta.Add(res.Beta, big.NewRat(2, 1)).Add(res.Beta, new(big.Rat).Mul(big.NewRat(2, 1), price))
			// the spread charge multiplies by f/(1-f) held at 18 decimals (rounded up): up to amountIn*2e-18 of
			// token-in per bucket, in the pool's favour
			feeGran := new(big.Rat).Mul(b.AmountIn, new(big.Rat).SetFrac(big.NewInt(2), e18))
			if exactIn {
				feeGran.Mul(feeGran, price)
			}
			res.Beta.Add(res.Beta, feeGran)
			g := new(big.Rat).Mul(L, big.NewRat(4, 1))
			g.Mul(g, new(big.Rat).SetFrac(big.NewInt(1), e36))
			lo := b.SqrtTo
			if b.SqrtFrom.Cmp(lo) < 0 {
				lo = b.SqrtFrom
			}
			amp := new(big.Rat).Add(big.NewRat(1, 1), inv(new(big.Rat).Mul(lo, lo)))
			res.Beta.Add(res.Beta, new(big.Rat).Mul(g, amp))
			// a token0 amount enters the next sqrt price through L*s/(L +- dx*s): the 1e-36 rounding of the product dx*s
			// moves the result by s'^2/(L*s) * 1e-36, i.e. the token1 amount by s'^2/s * 1e-36 - negligible except when a
			// bucket is nearly drained towards a sqrt price of 1e19 (s'^2 = 1e38)
			hi := b.SqrtTo
			if b.SqrtFrom.Cmp(hi) > 0 {
				hi = b.SqrtFrom
			}
			if lo.Sign() > 0 {
				g2 := new(big.Rat).Quo(new(big.Rat).Mul(hi, hi), lo)
				g2.Mul(g2, new(big.Rat).SetFrac(big.NewInt(8), e36))
				res.Beta.Add(res.Beta, g2)
			}
			sq = b.SqrtTo
			if !reach {
				res.Buckets = append(res.Buckets, b)
				break
			}
		} else {
			b.AmountIn, b.AmountOut, b.Fee, b.SqrtTo = new(big.Rat), new(big.Rat), new(big.Rat), new(big.Rat).Set(target)
			sq = target
		}
		if sq.Cmp(limit) == 0 && target != t.sq {
			res.Buckets = append(res.Buckets, b)
			break
		}
		// cross the tick
		b.Crossed = true
		if zeroForOne {
			L = new(big.Rat).Sub(L, t.net)
		} else {
			L = new(big.Rat).Add(L, t.net)
		}
		res.Buckets = append(res.Buckets, b)
	}
	if rem.Cmp(new(big.Rat).SetFrac(big.NewInt(1), e18)) > 0 {
		res.Exhausted = true
	}
	return res
}
