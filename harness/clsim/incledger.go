package clsim

import (
	"fmt"
	"math/big"
	"sort"
	"time"

	sdk "github.com/cosmos/cosmos-sdk/types"
	"pgregory.net/rapid"

	"github.com/osmosis-labs/osmosis/osmomath"
	clmodel "github.com/osmosis-labs/osmosis/v31/x/concentrated-liquidity/model"
	cltypes "github.com/osmosis-labs/osmosis/v31/x/concentrated-liquidity/types"

	"verif/harness/chain"
)

// IncLedger is the exact reference for incentive attribution (C08). It shares nothing with the module's mechanism
// (uptime accumulators, per-tick growth-outside trackers, per-position interval snapshots): it books, for every
// observed accumulator update, the emission of every started record to the positions whose range contains the tick
// the price sat in during the elapsed interval, in proportion to their liquidity, per (position, uptime, denom), in
// big.Rat; claims split the booked amounts by position age against the uptime; amounts forfeited on a withdrawal are
// re-booked to the liquidity that is active afterwards (or to the owner when none is), as the module documents.
//
// What is taken from the implementation: the emission amount rule (elapsed seconds x rate, truncated at 18 decimals,
// capped by the record's remainder; nothing while active liquidity is below one; records must have started strictly
// before the block time) and the moments at which it brings its accumulators up to date (observed through the pool's
// LastLiquidityUpdate, with the state read before the step: every update precedes the step's own changes).
type IncLedger struct {
	recs    []*incRec
	acc     map[uint64]map[ikey]*big.Rat // booked since the position's last claim
	tol     map[uint64]map[ikey]*big.Rat // accumulated truncation allowance for the same
	Checked int
	Claims  int
	Redep   int
}

type incRec struct {
	id        uint64
	u         int
	denom     string
	rate      *big.Rat
	start     time.Time
	remaining *big.Rat
}

type ikey struct {
	u int
	d string
}

// Event is what the last successful action did, as far as incentives are concerned.
type Event struct {
	Kind      string // create, add, withdraw, collectInc, transfer, incentive
	ID, NewID uint64
	Owner     int
	Amt       osmomath.Dec // withdrawn liquidity
	Full      bool
	Collected sdk.Coins
	Forfeited sdk.Coins
	HasResp   bool
	Rec       *cltypes.IncentiveRecord
	Deposit   sdk.Coin
}

type incPre struct {
	T    time.Time
	tick int64
	pos  []clmodel.Position
	bal  [NActors]map[string]*big.Int
}

func NewIncLedger() *IncLedger {
	return &IncLedger{acc: map[uint64]map[ikey]*big.Rat{}, tol: map[uint64]map[ikey]*big.Rat{}}
}

func (l *IncLedger) clone() *IncLedger {
	c := NewIncLedger()
	for _, r := range l.recs {
		rr := *r
		rr.remaining = new(big.Rat).Set(r.remaining)
		c.recs = append(c.recs, &rr)
	}
	cp := func(src map[uint64]map[ikey]*big.Rat) map[uint64]map[ikey]*big.Rat {
		out := map[uint64]map[ikey]*big.Rat{}
		for id, m := range src {
			out[id] = map[ikey]*big.Rat{}
			for k, v := range m {
				out[id][k] = new(big.Rat).Set(v)
			}
		}
		return out
	}
	c.acc, c.tol = cp(l.acc), cp(l.tol)
	return c
}

func addTo(m map[uint64]map[ikey]*big.Rat, id uint64, k ikey, v *big.Rat) {
	if m[id] == nil {
		m[id] = map[ikey]*big.Rat{}
	}
	if m[id][k] == nil {
		m[id][k] = new(big.Rat)
	}
	m[id][k].Add(m[id][k], v)
}

func (s *Sim) incPre() incPre {
	p := incPre{T: s.Pool().GetLastLiquidityUpdate(), tick: s.Pool().GetCurrentTick(), pos: s.ownJoinTimes(s.Positions())}
	for a := 0; a < NActors; a++ {
		p.bal[a] = map[string]*big.Int{}
		for _, d := range IncDenoms {
			p.bal[a][d] = s.C.Bal(chain.Actor(a), d).Amount.BigInt()
		}
	}
	return p
}

func (s *Sim) incUlp() *big.Rat {
	ulp := new(big.Rat).SetFrac(big.NewInt(1), e18)
	if !s.LegacyInc {
		ulp.Quo(ulp, new(big.Rat).SetInt(new(big.Int).Exp(big.NewInt(10), big.NewInt(27), nil)))
	}
	return ulp
}

func inRange(p clmodel.Position, tick int64) bool { return p.LowerTick <= tick && tick < p.UpperTick }

func activeLiq(pos []clmodel.Position, tick int64) *big.Rat {
	sum := new(big.Rat)
	for _, p := range pos {
		if inRange(p, tick) {
			sum.Add(sum, decRat(p.Liquidity))
		}
	}
	return sum
}

var ratOne = big.NewRat(1, 1)

// trunc18 truncates a non-negative rational at 18 decimals.
func trunc18(r *big.Rat) *big.Rat {
	n := new(big.Int).Mul(r.Num(), e18)
	n.Quo(n, r.Denom())
	return new(big.Rat).SetFrac(n, e18)
}

// emit books the emission of the interval (from, to] to the positions in range at `tick`.
func (l *IncLedger) emit(s *Sim, from, to time.Time, tick int64, pos []clmodel.Position) {
	if !to.After(from) {
		return
	}
	L := activeLiq(pos, tick)
	if L.Cmp(ratOne) < 0 {
		return // the module emits nothing while active liquidity is below one (time still passes)
	}
	dt := new(big.Rat).SetFrac(big.NewInt(int64(to.Sub(from))), big.NewInt(1_000_000_000))
	ulp := s.incUlp()
	for _, r := range l.recs {
		if r.remaining.Sign() <= 0 || !r.start.Before(to) {
			continue
		}
		E := trunc18(new(big.Rat).Mul(dt, r.rate))
		if E.Cmp(r.remaining) > 0 {
			E = new(big.Rat).Set(r.remaining)
		}
		r.remaining.Sub(r.remaining, E)
		k := ikey{r.u, r.denom}
		for _, p := range pos {
			if !inRange(p, tick) {
				continue
			}
			liq := decRat(p.Liquidity)
			addTo(l.acc, p.PositionId, k, new(big.Rat).Quo(new(big.Rat).Mul(E, liq), L))
			// growth per unit of liquidity is truncated at the accumulator precision
			addTo(l.tol, p.PositionId, k, new(big.Rat).Mul(liq, ulp))
		}
	}
}

// split returns model bounds [lo, hi] per denom for what a claim of position id at time now collects and forfeits.
func (l *IncLedger) split(id uint64, join, now time.Time) (cLo, cHi, fLo, fHi map[string]*big.Rat) {
	cLo, cHi, fLo, fHi = map[string]*big.Rat{}, map[string]*big.Rat{}, map[string]*big.Rat{}, map[string]*big.Rat{}
	for _, d := range IncDenoms {
		cLo[d], cHi[d], fLo[d], fHi[d] = new(big.Rat), new(big.Rat), new(big.Rat), new(big.Rat)
	}
	age := now.Sub(join)
	for k, v := range l.acc[id] {
		if v.Sign() == 0 {
			continue
		}
		t := new(big.Rat)
		if tv := l.tol[id][k]; tv != nil {
			t.Set(tv)
		}
		// one truncation to a whole scaled unit and one to a whole unit at the claim
		lo := new(big.Rat).Sub(v, t)
		lo.Sub(lo, big.NewRat(2, 1))
		if lo.Sign() < 0 {
			lo.SetInt64(0)
		}
		if age < cltypes.SupportedUptimes[k.u] {
			fLo[k.d].Add(fLo[k.d], lo)
			fHi[k.d].Add(fHi[k.d], v)
		} else {
			cLo[k.d].Add(cLo[k.d], lo)
			cHi[k.d].Add(cHi[k.d], v)
		}
	}
	return
}

func within(v *big.Int, lo, hi *big.Rat) bool {
	r := new(big.Rat).SetInt(v)
	eps := big.NewRat(1, 1_000_000)
	return r.Cmp(new(big.Rat).Sub(lo, eps)) >= 0 && r.Cmp(new(big.Rat).Add(hi, eps)) <= 0
}

type fitem struct {
	k    ikey
	v, t *big.Rat
}

// forfeitItems copies what position id has booked for uptimes it has not met at `now`.
func (l *IncLedger) forfeitItems(id uint64, join, now time.Time) []fitem {
	age := now.Sub(join)
	var items []fitem
	for k, v := range l.acc[id] {
		if v.Sign() > 0 && age < cltypes.SupportedUptimes[k.u] {
			t := new(big.Rat)
			if tv := l.tol[id][k]; tv != nil {
				t.Set(tv)
			}
			items = append(items, fitem{k, new(big.Rat).Set(v), t})
		}
	}
	sort.Slice(items, func(i, j int) bool {
		if items[i].k.u != items[j].k.u {
			return items[i].k.u < items[j].k.u
		}
		return items[i].k.d < items[j].k.d
	})
	return items
}

// redeposit re-books forfeited amounts to the positions in `pos` that are in range at `tick`; returns false if there is
// no active liquidity (the module then sends them to the owner).
func (l *IncLedger) redeposit(s *Sim, items []fitem, tick int64, pos []clmodel.Position) bool {
	if len(items) == 0 {
		return true
	}
	L := activeLiq(pos, tick)
	if L.Cmp(ratOne) < 0 {
		return false
	}
	ulp := s.incUlp()
	for _, it := range items {
		for _, p := range pos {
			if !inRange(p, tick) {
				continue
			}
			liq := decRat(p.Liquidity)
			share := new(big.Rat).Quo(liq, L)
			addTo(l.acc, p.PositionId, it.k, new(big.Rat).Mul(it.v, share))
			// the forfeited amount is a truncated (scaled) integer of what was booked, and the growth per unit of liquidity
			// is truncated again
			tt := new(big.Rat).Add(it.t, big.NewRat(2, 1))
			tt.Mul(tt, share)
			tt.Add(tt, new(big.Rat).Mul(liq, ulp))
			addTo(l.tol, p.PositionId, it.k, tt)
		}
	}
	l.Redep++
	return true
}

func (l *IncLedger) reset(id uint64) {
	delete(l.acc, id)
	delete(l.tol, id)
}

// ownJoinTimes replaces the join time the module stores with the one the harness recorded when the position was created
// (a transfer keeps it): a position's age, which decides between collecting and forfeiting, is a fact of the history, not
// something to be read back from the code under test.
func (s *Sim) ownJoinTimes(pos []clmodel.Position) []clmodel.Position {
	for i := range pos {
		if k, ok := s.Known[pos[i].PositionId]; ok && !k.Join.IsZero() {
			pos[i].JoinTime = k.Join
		}
	}
	return pos
}

func joinOf(pos []clmodel.Position, id uint64) (clmodel.Position, bool) {
	for _, p := range pos {
		if p.PositionId == id {
			return p, true
		}
	}
	return clmodel.Position{}, false
}

// incApply advances the ledger over one executed step and checks the coin flows of the step against it.
func (s *Sim) incApply(rt *rapid.T, pre incPre, ev *Event) {
	l := s.IncLedger
	now := s.C.Ctx.BlockTime()
	pool := s.Pool()
	if T1 := pool.GetLastLiquidityUpdate(); T1.After(pre.T) && !pre.T.IsZero() {
		l.emit(s, pre.T, T1, pre.tick, pre.pos)
	}
	expLo, expHi := [NActors]map[string]*big.Rat{}, [NActors]map[string]*big.Rat{}
	for a := 0; a < NActors; a++ {
		expLo[a], expHi[a] = map[string]*big.Rat{}, map[string]*big.Rat{}
		for _, d := range IncDenoms {
			expLo[a][d], expHi[a][d] = new(big.Rat), new(big.Rat)
		}
	}
	if ev != nil {
		switch ev.Kind {
		case "collectInc":
			p, ok := joinOf(pre.pos, ev.ID)
			if !ok {
				rt.Fatalf("incentive ledger: collected position %d unknown", ev.ID)
			}
			cLo, cHi, fLo, fHi := l.split(ev.ID, p.JoinTime, now)
			for _, d := range IncDenoms {
				if ev.HasResp {
					if !within(ev.Collected.AmountOf(d).BigInt(), cLo[d], cHi[d]) || !within(ev.Forfeited.AmountOf(d).BigInt(), fLo[d], fHi[d]) {
						rt.Fatalf("incentive attribution: MsgCollectIncentives(#%d [%d,%d) liquidity %s, age %s) collected %s and forfeited %s of %s; its liquidity share of the emissions while it was in range, split by the uptimes it has met, is collect [%s, %s] forfeit [%s, %s] [history %v]",
							ev.ID, p.LowerTick, p.UpperTick, p.Liquidity, now.Sub(p.JoinTime), ev.Collected.AmountOf(d), ev.Forfeited.AmountOf(d), d, cLo[d].FloatString(3), cHi[d].FloatString(3), fLo[d].FloatString(3), fHi[d].FloatString(3), s.Hist)
					}
				}
				expLo[ev.Owner][d].Add(expLo[ev.Owner][d], cLo[d])
				expHi[ev.Owner][d].Add(expHi[ev.Owner][d], cHi[d])
			}
			// forfeits of a plain collect are not re-deposited (listed finding C08-collect-forfeits-stranded): they leave the ledger
			l.reset(ev.ID)
			l.Claims++
		case "withdraw", "add":
			p, ok := joinOf(pre.pos, ev.ID)
			if !ok {
				rt.Fatalf("incentive ledger: withdrawn position %d unknown", ev.ID)
			}
			cLo, cHi, fLo, fHi := l.split(ev.ID, p.JoinTime, now)
			// positions after the removal
			var post []clmodel.Position
			for _, q := range pre.pos {
				if q.PositionId == ev.ID {
					if ev.Kind == "add" || ev.Full {
						continue
					}
					q.Liquidity = q.Liquidity.Sub(ev.Amt)
				}
				post = append(post, q)
			}
			items := l.forfeitItems(ev.ID, p.JoinTime, now)
			l.reset(ev.ID) // the claim zeroes the position's own booking; a remaining part of it shares in the re-deposit below
			toPool := l.redeposit(s, items, pre.tick, post)
			for _, d := range IncDenoms {
				expLo[ev.Owner][d].Add(expLo[ev.Owner][d], cLo[d])
				expHi[ev.Owner][d].Add(expHi[ev.Owner][d], cHi[d])
				if !toPool {
					expLo[ev.Owner][d].Add(expLo[ev.Owner][d], fLo[d])
					expHi[ev.Owner][d].Add(expHi[ev.Owner][d], fHi[d])
				}
			}
			l.Claims++
		case "incentive":
			r := ev.Rec
			u := -1
			for i, d := range cltypes.SupportedUptimes {
				if d == r.MinUptime {
					u = i
				}
			}
			l.recs = append(l.recs, &incRec{id: r.IncentiveId, u: u, denom: r.IncentiveRecordBody.RemainingCoin.Denom, rate: decRat(r.IncentiveRecordBody.EmissionRate), start: r.IncentiveRecordBody.StartTime, remaining: decRat(r.IncentiveRecordBody.RemainingCoin.Amount)})
			dep := new(big.Rat).SetInt(ev.Deposit.Amount.BigInt())
			expLo[ev.Owner][ev.Deposit.Denom].Sub(expLo[ev.Owner][ev.Deposit.Denom], dep)
			expHi[ev.Owner][ev.Deposit.Denom].Sub(expHi[ev.Owner][ev.Deposit.Denom], dep)
		}
	}
	// 1. every actor's incentive-denom balance moved by exactly what the ledger says (nothing for bystanders)
	for a := 0; a < NActors; a++ {
		for _, d := range IncDenoms {
			delta := new(big.Int).Sub(s.C.Bal(chain.Actor(a), d).Amount.BigInt(), pre.bal[a][d])
			if !within(delta, expLo[a][d], expHi[a][d]) {
				kind := "none"
				if ev != nil {
					kind = fmt.Sprintf("%s #%d by a%d", ev.Kind, ev.ID, ev.Owner)
				}
				rt.Fatalf("incentive attribution: step (%s) changed the %s balance of a%d by %s; the ledger (liquidity share of the emissions while in range, uptimes met) allows [%s, %s] [history %v]",
					kind, d, a, delta, expLo[a][d].FloatString(3), expHi[a][d].FloatString(3), s.Hist)
			}
		}
	}
	// 2. the records' remainders are exactly what the emission rule leaves
	impl := map[uint64]*big.Rat{}
	recs, err := s.C.App.ConcentratedLiquidityKeeper.GetAllIncentiveRecordsForPool(s.C.Ctx, s.PoolID)
	if err != nil {
		rt.Fatalf("GetAllIncentiveRecordsForPool: %v", err)
	}
	for _, r := range recs {
		impl[r.IncentiveId] = decRat(r.IncentiveRecordBody.RemainingCoin.Amount)
	}
	for _, r := range l.recs {
		got := impl[r.id]
		if got == nil {
			got = new(big.Rat)
		}
		if got.Cmp(r.remaining) != 0 {
			rt.Fatalf("incentive record %d (%s, uptime %s, rate %s/s): un-emitted remainder is %s, the emission rule (elapsed seconds x rate truncated at 18 decimals, capped, only while active liquidity >= 1, only after the start time) leaves %s [history %v]",
				r.id, r.denom, cltypes.SupportedUptimes[r.u], r.rate.FloatString(18), got.FloatString(18), r.remaining.FloatString(18), s.Hist)
		}
		delete(impl, r.id)
	}
	for id := range impl {
		rt.Fatalf("incentive record %d exists in state but was never created by the history", id)
	}
}

// CheckIncentiveLedger compares every position's claimable (collectable / forfeitable) incentives with the ledger,
// including the emission still pending since the last accumulator update (the query brings accumulators up to now).
func (s *Sim) CheckIncentiveLedger(rt *rapid.T) {
	l := s.IncLedger.clone()
	pool := s.Pool()
	pos := s.ownJoinTimes(s.Positions())
	now := s.C.Ctx.BlockTime()
	if T := pool.GetLastLiquidityUpdate(); !T.IsZero() {
		l.emit(s, T, now, pool.GetCurrentTick(), pos)
	}
	ids := make([]uint64, 0, len(pos))
	for _, p := range pos {
		ids = append(ids, p.PositionId)
	}
	sort.Slice(ids, func(i, j int) bool { return ids[i] < ids[j] })
	for _, p := range pos {
		c := s.claimableOf(p.PositionId)
		cLo, cHi, fLo, fHi := l.split(p.PositionId, p.JoinTime, now)
		for _, d := range IncDenoms {
			if !within(get(c.incent, d), cLo[d], cHi[d]) || !within(get(c.forfeit, d), fLo[d], fHi[d]) {
				rt.Fatalf("incentive attribution: position %d [%d,%d) liquidity %s (age %s) can collect %s and would forfeit %s of %s; its liquidity share of what was emitted (and re-deposited) while its range contained the current tick, split by the uptimes it has met, is collect [%s, %s] forfeit [%s, %s] [history %v]",
					p.PositionId, p.LowerTick, p.UpperTick, p.Liquidity, now.Sub(p.JoinTime), get(c.incent, d), get(c.forfeit, d), d, cLo[d].FloatString(3), cHi[d].FloatString(3), fLo[d].FloatString(3), fHi[d].FloatString(3), s.Hist)
			}
		}
		if len(l.acc[p.PositionId]) > 0 {
			s.IncLedger.Checked++
		}
	}
	for id := range l.acc {
		if _, ok := joinOf(pos, id); !ok {
			for _, v := range l.acc[id] {
				if v.Sign() != 0 {
					rt.Fatalf("incentive ledger: booking for position %d which no longer exists", id)
				}
			}
		}
	}
}
