package clsim

import (
	"fmt"
	"math/big"

	"pgregory.net/rapid"

	clmodel "github.com/osmosis-labs/osmosis/v31/x/concentrated-liquidity/model"
)

// spreadLedger is the per-swap reference for spread-fee attribution (C08): the exact curve walk from the state
// before the swap yields, per constant-liquidity bucket, the spread charge and the active liquidity; a position
// covering the bucket is owed charge x (its liquidity / active liquidity), a position not covering it nothing.
type spreadLedger struct {
	exactIn bool
	ref     RefResult
	pos     []clmodel.Position
	before  map[uint64]*big.Int // claimable spread reward in the token-in denom before the swap
	tickPos []int64             // the tick the price sits in while each bucket is traversed
}

func (s *Sim) newSpreadLedger(zfo, exactIn bool, amt *big.Int, in string) *spreadLedger {
	l := &spreadLedger{exactIn: exactIn, ref: s.RefSwap(zfo, exactIn, amt), pos: s.Positions(), before: map[uint64]*big.Int{}}
	cur := s.Pool().GetCurrentTick()
	for _, b := range l.ref.Buckets {
		l.tickPos = append(l.tickPos, cur)
		if b.Crossed {
			if zfo {
				cur = b.CrossedTo - 1
			} else {
				cur = b.CrossedTo
			}
		}
	}
	for _, p := range l.pos {
		l.before[p.PositionId] = get(s.claimableOf(p.PositionId).spread, in)
	}
	return l
}

func (l *spreadLedger) check(rt *rapid.T, s *Sim, in string) {
	ulp := new(big.Rat).SetFrac(big.NewInt(1), e18)
	if !s.Legacy {
		ulp.Quo(ulp, new(big.Rat).SetInt(new(big.Int).Exp(big.NewInt(10), big.NewInt(27), nil)))
	}
	if l.ref.Ambiguous {
		s.class("ledger-skipped-ambiguous-walk-end")
		return
	}
	// the walk must describe the same liquidity the positions add up to, otherwise the reference does not apply
	for i, b := range l.ref.Buckets {
		sum := new(big.Rat)
		for _, p := range l.pos {
			if p.LowerTick <= l.tickPos[i] && l.tickPos[i] < p.UpperTick {
				sum.Add(sum, decRat(p.Liquidity))
			}
		}
		if sum.Cmp(b.L) != 0 {
			s.class("ledger-skipped-liquidity-mismatch")
			return
		}
	}
	// exact-out: the module tracks the amount still to be delivered at 18 decimals, so every bucket leaves up to 1e-18 of
	// the token out unaccounted; the remaining buckets are walked with that dust, which costs its marginal price in token
	// in - next to a nearly drained bucket that price (s'^2, up to 1e38) turns 1e-18 into whole units (observed: sqrt
	// price moved by 4.5e-14 relative, 6e6 units of 1.2e20)
	dust := new(big.Rat)
	if !l.exactIn {
		maxP := new(big.Rat)
		for _, b := range l.ref.Buckets {
			if b.PriceOther != nil && b.PriceOther.Cmp(maxP) > 0 {
				maxP = b.PriceOther
			}
		}
		dust.Mul(maxP, new(big.Rat).SetFrac(big.NewInt(int64(4*(len(l.ref.Buckets)+1))), e18))
		// the charge is amount in x f/(1-f)
		f := decRat(s.Spread)
		dust.Mul(dust, new(big.Rat).Quo(f, new(big.Rat).Sub(big.NewRat(1, 1), f)))
	}
	for _, p := range l.pos {
		want := new(big.Rat)
		tol := new(big.Rat).Add(big.NewRat(2, 1), dust)
		liq := decRat(p.Liquidity)
		for i, b := range l.ref.Buckets {
			if b.L.Sign() == 0 || !(p.LowerTick <= l.tickPos[i] && l.tickPos[i] < p.UpperTick) {
				continue
			}
			share := new(big.Rat).Quo(liq, b.L)
			want.Add(want, new(big.Rat).Mul(b.Fee, share))
			// per bucket: the charge is rounded up by up to a unit (plus the 18-decimal granularity of f/(1-f)), the
			// growth per unit of liquidity is truncated at the accumulator precision, the amount in by up to 2 units
			g := new(big.Rat).Mul(b.AmountIn, new(big.Rat).SetFrac(big.NewInt(2), e18))
			g.Add(g, big.NewRat(4, 1))
			tol.Add(tol, new(big.Rat).Mul(g, share))
			tol.Add(tol, new(big.Rat).Mul(liq, ulp))
			tol.Add(tol, big.NewRat(1, 1))
			// the next sqrt price is rounded at 36 decimals: the amount in (and with it the charge of a bucket that is
			// left before its end, which is "what remains") moves by up to L*1e-36*(1 + 1/s^2)
			lo := b.SqrtTo
			if b.SqrtFrom.Cmp(lo) < 0 {
				lo = b.SqrtFrom
			}
			if lo.Sign() > 0 {
				g36 := new(big.Rat).Mul(b.L, new(big.Rat).SetFrac(big.NewInt(4), e36))
				g36.Mul(g36, new(big.Rat).Add(big.NewRat(1, 1), new(big.Rat).Inv(new(big.Rat).Mul(lo, lo))))
				tol.Add(tol, new(big.Rat).Mul(g36, share))
				// and the s'^2/s * 1e-36 term of a token0 amount entering the next sqrt price (see RefSwap)
				hi := b.SqrtTo
				if b.SqrtFrom.Cmp(hi) > 0 {
					hi = b.SqrtFrom
				}
				g2 := new(big.Rat).Quo(new(big.Rat).Mul(hi, hi), lo)
				g2.Mul(g2, new(big.Rat).SetFrac(big.NewInt(8), e36))
				tol.Add(tol, new(big.Rat).Mul(g2, share))
			}
		}
		after := get(s.claimableOf(p.PositionId).spread, in)
		got := new(big.Rat).SetInt(new(big.Int).Sub(after, l.before[p.PositionId]))
		diff := new(big.Rat).Sub(got, want)
		if diff.Sign() < 0 {
			diff.Neg(diff)
		}
		if diff.Cmp(tol) > 0 {
			var bs []string
			for i, b := range l.ref.Buckets {
				bs = append(bs, fmt.Sprintf("{tick %d L %s fee %s in %s crossed %v->%d}", l.tickPos[i], b.L.FloatString(3), b.Fee.FloatString(3), b.AmountIn.FloatString(3), b.Crossed, b.CrossedTo))
			}
			rt.Fatalf("spread-fee attribution: the swap credited position %d [%d,%d) liquidity %s with %s %s, its share of the spread charges of the buckets it covers is %s (tolerance %s, buckets %v) [history %v]",
				p.PositionId, p.LowerTick, p.UpperTick, p.Liquidity, got.FloatString(0), in, want.FloatString(3), tol.FloatString(3), bs, s.Hist)
		}
	}
	s.LedgerChecked++
	s.class("ledger-swap-checked")
}
