module verif/harness

go 1.23.4

require pgregory.net/rapid v1.3.0
