package chain

import (
	"encoding/json"
	"fmt"
	"os"
	"testing"

	wasmtypes "github.com/CosmWasm/wasmd/x/wasm/types"
	cmtproto "github.com/cometbft/cometbft/proto/tendermint/types"
	sdk "github.com/cosmos/cosmos-sdk/types"

	"github.com/osmosis-labs/osmosis/osmomath"
	"github.com/osmosis-labs/osmosis/osmoutils/cosmwasm"
	"github.com/osmosis-labs/osmosis/v31/app"
	"github.com/osmosis-labs/osmosis/v31/app/apptesting"
	cwmsg "github.com/osmosis-labs/osmosis/v31/x/cosmwasmpool/cosmwasm/msg"
	"github.com/osmosis-labs/osmosis/v31/x/cosmwasmpool/cosmwasm/msg/transmuter"
	cwmodel "github.com/osmosis-labs/osmosis/v31/x/cosmwasmpool/model"
	cwpooltypes "github.com/osmosis-labs/osmosis/v31/x/cosmwasmpool/types"
)

// transmuterCode remembers, per application, the code id under which the transmuter contract was stored in the
// application's base state (NewWithTransmuter): compiling the contract takes about two seconds, far too much per case.
var transmuterCode = map[*app.OsmosisApp]uint64{}

// uploadTransmuter stores the transmuter v3 contract shipped with the repository (code upload restricted to the
// cosmwasmpool module account, as on mainnet) and whitelists it for pool creation.
func uploadTransmuter(a *app.OsmosisApp, ctx sdk.Context) (uint64, error) {
	cwAddr := a.AccountKeeper.GetModuleAddress(cwpooltypes.ModuleName)
	params := a.WasmKeeper.GetParams(ctx)
	if err := a.WasmKeeper.SetParams(ctx, wasmtypes.Params{CodeUploadAccess: wasmtypes.AccessConfig{Permission: wasmtypes.AccessTypeAnyOfAddresses, Addresses: []string{cwAddr.String()}}, InstantiateDefaultPermission: params.InstantiateDefaultPermission}); err != nil {
		return 0, err
	}
	repo := os.Getenv("VERIF_REPO")
	if repo == "" {
		repo = "/repo"
	}
	code, err := os.ReadFile(repo + "/x/cosmwasmpool/bytecode/transmuter_v3.wasm")
	if err != nil {
		return 0, err
	}
	inst := wasmtypes.AccessConfig{Permission: wasmtypes.AccessTypeAnyOfAddresses, Addresses: []string{cwAddr.String()}}
	codeID, _, err := a.ContractKeeper.Create(ctx, cwAddr, code, &inst)
	if err != nil {
		return 0, fmt.Errorf("store transmuter code: %w", err)
	}
	a.CosmwasmPoolKeeper.WhitelistCodeId(ctx, codeID)
	return codeID, nil
}

// NewWithTransmuter is New on an application whose base state (below every case's discardable cache) already holds the
// transmuter contract code.
func NewWithTransmuter(t *testing.T) *Chain {
	c := New(t)
	if transmuterCode[c.App] == 0 {
		base := c.App.BaseApp.NewContextLegacy(false, cmtproto.Header{Height: 1, ChainID: "osmosis-1", Time: Base})
		id, err := uploadTransmuter(c.App, base)
		if err != nil {
			panic(err)
		}
		transmuterCode[c.App] = id
		c = New(t) // a fresh cache above the changed base
	}
	return c
}

// CreateTransmuterPool creates a CosmWasm pool (transmuter v3) over the given denoms with normalisation factor 1 and
// funds it from the creator. The pool swaps its assets 1:1 as long as the out-reserve lasts; it is reached through the
// pool manager like every other pool type.
func (c *Chain) CreateTransmuterPool(creator sdk.AccAddress, liquidity sdk.Coins, subdenom string) (uint64, error) {
	a, ctx := c.App, c.Ctx
	codeID := transmuterCode[a]
	if codeID == 0 {
		var err error
		if codeID, err = uploadTransmuter(a, ctx); err != nil {
			return 0, err
		}
	}
	var cfg []apptesting.AssetConfig
	for _, co := range liquidity {
		cfg = append(cfg, apptesting.AssetConfig{Denom: co.Denom, NormalizationFactor: osmomath.OneInt()})
	}
	bz, err := json.Marshal(apptesting.InstantiateMsg{
		PoolAssetConfigs:                cfg,
		AlloyedAssetSubdenom:            subdenom,
		AlloyedAssetNormalizationFactor: "1",
		Admin:                           creator.String(),
		Moderator:                       creator.String(),
	})
	if err != nil {
		return 0, err
	}
	// the contract creates the alloyed denom from its own (empty) balance
	tp := a.TokenFactoryKeeper.GetParams(ctx)
	fee := tp.DenomCreationFee
	tp.DenomCreationFee = nil
	a.TokenFactoryKeeper.SetParams(ctx, tp)
	poolID, err := a.PoolManagerKeeper.CreatePool(ctx, cwmodel.NewMsgCreateCosmWasmPool(codeID, creator, bz))
	tp.DenomCreationFee = fee
	a.TokenFactoryKeeper.SetParams(ctx, tp)
	if err != nil {
		return 0, fmt.Errorf("create transmuter pool: %w", err)
	}
	pool, err := a.CosmwasmPoolKeeper.GetPoolById(ctx, poolID)
	if err != nil {
		return 0, err
	}
	if _, err := cosmwasm.Execute[transmuter.JoinPoolExecuteMsgRequest, cwmsg.EmptyStruct](ctx, a.ContractKeeper, pool.GetContractAddress(), creator, liquidity, transmuter.JoinPoolExecuteMsgRequest{}); err != nil {
		return 0, fmt.Errorf("fund transmuter pool: %w", err)
	}
	return poolID, nil
}
