package chain

import (
	"reflect"
	"sync"
	"unsafe"

	"github.com/osmosis-labs/osmosis/v31/app"
)

// CloseStores stops the background goroutine that every IAVL store of an application starts (asynchronous pruning, one per
// store, polling every 100 ms for the life of the process). Neither BaseApp.Close nor the multistore closes the trees, so
// a process that builds thousands of applications - one per generated case - otherwise accumulates hundreds of thousands
// of polling goroutines. The tree is an unexported field of the store: it is reached by reflection, and only to call its
// own Close. Harness housekeeping; it does not touch the state of any application that is still in use.
func CloseStores(a *app.OsmosisApp) {
	if a == nil {
		return
	}
	cms := a.CommitMultiStore()
	var wg sync.WaitGroup
	for _, k := range a.GetKVStoreKey() {
		st := cms.GetCommitKVStore(k)
		v := reflect.ValueOf(st)
		if v.Kind() != reflect.Ptr || v.IsNil() || v.Elem().Kind() != reflect.Struct {
			continue
		}
		f := v.Elem().FieldByName("tree")
		if !f.IsValid() || !f.CanAddr() {
			continue
		}
		f = reflect.NewAt(f.Type(), unsafe.Pointer(f.UnsafeAddr())).Elem()
		if f.IsNil() {
			continue
		}
		c, ok := f.Interface().(interface{ Close() error })
		if !ok {
			continue
		}
		wg.Add(1)
		go func() {
			defer wg.Done()
			defer func() { _ = recover() }()
			_ = c.Close()
		}()
	}
	wg.Wait()
}
