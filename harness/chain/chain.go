// Package chain runs messages against the real osmosis application with the semantics baseapp.runTx
// guarantees (ValidateBasic -> branch -> message router -> recover -> write on success), offers
// discardable branches, a digest of all KV state, deterministic actors/time, and light block
// progression. It is the executor shared by the app-level properties.
package chain

import (
	"crypto/sha256"
	"fmt"
	"sort"
	"testing"
	"time"

	storetypes "cosmossdk.io/store/types"
	abci "github.com/cometbft/cometbft/abci/types"
	cmtproto "github.com/cometbft/cometbft/proto/tendermint/types"
	sdk "github.com/cosmos/cosmos-sdk/types"
	"github.com/cosmos/cosmos-sdk/x/bank/testutil"

	"github.com/osmosis-labs/osmosis/v31/app"
	"github.com/osmosis-labs/osmosis/v31/app/apptesting"
)

// Base is the deterministic genesis block time of every history.
var Base = time.Date(2030, 1, 1, 0, 0, 0, 0, time.UTC)

type Chain struct {
	H   *apptesting.KeeperTestHelper
	App *app.OsmosisApp
	Ctx sdk.Context
}

var helper *apptesting.KeeperTestHelper

// New returns a chain on a fresh (cached, discardable) copy of the genesis state. The application is
// built once per process; every further call only drops the cache (≈0.1 ms).
func New(t *testing.T) *Chain {
	if helper == nil {
		helper = &apptesting.KeeperTestHelper{}
	}
	helper.SetT(t)
	helper.Reset()
	c := &Chain{H: helper, App: helper.App}
	c.Ctx = helper.Ctx.WithBlockTime(Base).WithBlockHeight(10).WithEventManager(sdk.NewEventManager())
	// epoch timers start at the deterministic base time, not at the wall clock apptesting uses
	for _, e := range c.App.EpochsKeeper.AllEpochInfos(c.Ctx) {
		e.StartTime = Base
		e.CurrentEpochStartTime = Base
		c.App.EpochsKeeper.DeleteEpochInfo(c.Ctx, e.Identifier)
		if err := c.App.EpochsKeeper.AddEpochInfo(c.Ctx, e); err != nil {
			panic(err)
		}
	}
	return c
}

// Actor returns the i-th deterministic account address.
func Actor(i int) sdk.AccAddress {
	b := []byte(fmt.Sprintf("actor%02d_____________", i))
	return sdk.AccAddress(b[:20])
}

// Fund mints coins into addr (faucet; outside the system under test).
func (c *Chain) Fund(addr sdk.AccAddress, coins sdk.Coins) {
	if err := testutil.FundAccount(c.Ctx, c.App.BankKeeper, addr, coins); err != nil {
		panic(err)
	}
}

// Branch returns a chain on a discardable branch of the current state.
func (c *Chain) Branch() *Chain {
	ctx, _ := c.Ctx.CacheContext()
	return &Chain{H: c.H, App: c.App, Ctx: ctx.WithEventManager(sdk.NewEventManager())}
}

type validator interface{ ValidateBasic() error }

// ExecResult is what a transaction with one message produced.
type ExecResult struct {
	Res    *sdk.Result
	Err    error
	Panic  any
	Events sdk.Events
}

func (r ExecResult) OK() bool { return r.Err == nil }

// ExecNoValidate is Exec without the stateless ValidateBasic step (how contracts / genesis reach a handler).
func (c *Chain) ExecNoValidate(msg sdk.Msg) ExecResult { return c.exec(msg, false) }

// Exec runs one message with transaction semantics on c.Ctx.
func (c *Chain) Exec(msg sdk.Msg) ExecResult { return c.exec(msg, true) }

func (c *Chain) exec(msg sdk.Msg, validate bool) (out ExecResult) {
	if v, ok := msg.(validator); ok && validate {
		if err := v.ValidateBasic(); err != nil {
			return ExecResult{Err: fmt.Errorf("validate basic: %w", err)}
		}
	}
	handler := c.App.MsgServiceRouter().Handler(msg)
	if handler == nil {
		return ExecResult{Err: fmt.Errorf("no handler for %T", msg)}
	}
	cctx, write := c.Ctx.CacheContext()
	cctx = cctx.WithEventManager(sdk.NewEventManager())
	func() {
		defer func() {
			if r := recover(); r != nil {
				out.Panic = r
				out.Err = fmt.Errorf("panic: %v", r)
			}
		}()
		out.Res, out.Err = handler(cctx, msg)
	}()
	if out.Err == nil {
		write()
		out.Events = cctx.EventManager().Events()
	}
	return out
}

// ExecTx runs several messages as ONE transaction: every message is validated first, then all run on one branch that is
// written only if all of them succeed (what baseapp.runTx does for a multi-message transaction). The result carries the
// index of the failing message in Err.
func (c *Chain) ExecTx(msgs ...sdk.Msg) (out ExecResult) {
	for i, msg := range msgs {
		if v, ok := msg.(validator); ok {
			if err := v.ValidateBasic(); err != nil {
				return ExecResult{Err: fmt.Errorf("message %d: validate basic: %w", i, err)}
			}
		}
	}
	cctx, write := c.Ctx.CacheContext()
	cctx = cctx.WithEventManager(sdk.NewEventManager())
	for i, msg := range msgs {
		handler := c.App.MsgServiceRouter().Handler(msg)
		if handler == nil {
			return ExecResult{Err: fmt.Errorf("message %d: no handler for %T", i, msg)}
		}
		func() {
			defer func() {
				if r := recover(); r != nil {
					out.Panic = r
					out.Err = fmt.Errorf("message %d: panic: %v", i, r)
				}
			}()
			var err error
			out.Res, err = handler(cctx, msg)
			if err != nil {
				out.Err = fmt.Errorf("message %d: %w", i, err)
			}
		}()
		if out.Err != nil {
			return out
		}
	}
	write()
	out.Events = cctx.EventManager().Events()
	return out
}

// Try runs f on a branch with panic recovery and writes the branch only if f returns nil
// (for keeper-level operations that have no message, e.g. governance-only calls).
func (c *Chain) Try(f func(ctx sdk.Context) error) (err error) {
	cctx, write := c.Ctx.CacheContext()
	func() {
		defer func() {
			if r := recover(); r != nil {
				err = fmt.Errorf("panic: %v", r)
			}
		}()
		err = f(cctx)
	}()
	if err == nil {
		write()
	}
	return err
}

// Digest hashes every (store, key, value) of every KV store of the application.
func (c *Chain) Digest() string { return Digest(c.App, c.Ctx) }

func Digest(a *app.OsmosisApp, ctx sdk.Context) string {
	keys := a.GetKVStoreKey()
	names := make([]string, 0, len(keys))
	for n := range keys {
		names = append(names, n)
	}
	sort.Strings(names)
	h := sha256.New()
	for _, n := range names {
		it := ctx.KVStore(keys[n]).Iterator(nil, nil)
		for ; it.Valid(); it.Next() {
			fmt.Fprintf(h, "%s|%d|", n, len(it.Key()))
			h.Write(it.Key())
			fmt.Fprintf(h, "|%d|", len(it.Value()))
			h.Write(it.Value())
		}
		it.Close()
	}
	return fmt.Sprintf("%x", h.Sum(nil))
}

// DigestStores is Digest restricted to the named stores.
func (c *Chain) DigestStores(names ...string) string {
	keys := c.App.GetKVStoreKey()
	sort.Strings(names)
	h := sha256.New()
	for _, n := range names {
		k, ok := keys[n]
		if !ok {
			panic("no store " + n)
		}
		it := c.Ctx.KVStore(k).Iterator(nil, nil)
		for ; it.Valid(); it.Next() {
			fmt.Fprintf(h, "%s|%d|", n, len(it.Key()))
			h.Write(it.Key())
			fmt.Fprintf(h, "|%d|", len(it.Value()))
			h.Write(it.Value())
		}
		it.Close()
	}
	return fmt.Sprintf("%x", h.Sum(nil))
}

// StoreKey returns the KV store key of a module.
func (c *Chain) StoreKey(name string) *storetypes.KVStoreKey { return c.App.GetKVStoreKey()[name] }

// Advance moves block time and height forward without running begin/end blockers.
func (c *Chain) Advance(dt time.Duration) {
	c.Ctx = c.Ctx.WithBlockTime(c.Ctx.BlockTime().Add(dt)).WithBlockHeight(c.Ctx.BlockHeight() + 1)
}

// NextBlock ends the current block (application EndBlocker), advances time/height and begins the next
// (application BeginBlocker), all on the cached context ("light" block progression).
func (c *Chain) NextBlock(dt time.Duration) error {
	if _, err := c.App.EndBlocker(c.Ctx); err != nil {
		return fmt.Errorf("end blocker: %w", err)
	}
	c.Advance(dt)
	return c.BeginBlock()
}

// BeginBlock runs the application's BeginBlocker with one bonded validator voting.
func (c *Chain) BeginBlock() error {
	vals, err := c.App.StakingKeeper.GetAllValidators(c.Ctx)
	if err != nil {
		return err
	}
	if len(vals) > 0 {
		cons, err := vals[0].GetConsAddr()
		if err != nil {
			return err
		}
		c.Ctx = c.Ctx.WithVoteInfos([]abci.VoteInfo{{Validator: abci.Validator{Address: cons, Power: 1000}, BlockIdFlag: cmtproto.BlockIDFlagCommit}})
		h := c.Ctx.BlockHeader()
		h.ProposerAddress = cons
		c.Ctx = c.Ctx.WithBlockHeader(h)
	}
	_, err = c.App.BeginBlocker(c.Ctx)
	return err
}

// Bal returns the balance of addr in denom as a string-free big-ish Int.
func (c *Chain) Bal(addr sdk.AccAddress, denom string) sdk.Coin {
	return c.App.BankKeeper.GetBalance(c.Ctx, addr, denom)
}

// Unpack decodes the (single) message response of a successful Exec into out.
func (r ExecResult) Unpack(out interface{ Unmarshal([]byte) error }) error {
	if r.Res == nil || len(r.Res.MsgResponses) == 0 {
		return fmt.Errorf("no message response")
	}
	return out.Unmarshal(r.Res.MsgResponses[0].Value)
}

// EnableSuperfluidDurations makes the staking unbonding time a lockable duration (mainnet genesis does),
// which superfluid intermediary-account gauges require.
func (c *Chain) EnableSuperfluidDurations() time.Duration {
	sp, err := c.App.StakingKeeper.GetParams(c.Ctx)
	if err != nil {
		panic(err)
	}
	ds := c.App.IncentivesKeeper.GetLockableDurations(c.Ctx)
	has := false
	for _, d := range ds {
		if d == sp.UnbondingTime {
			has = true
		}
	}
	if !has {
		c.App.IncentivesKeeper.SetLockableDurations(c.Ctx, append(ds, sp.UnbondingTime))
	}
	return sp.UnbondingTime
}
