package c17

import (
	"errors"
	"fmt"
	"sort"
	"strings"
	"testing"
	"time"

	storetypes "cosmossdk.io/store/types"
	"github.com/cosmos/cosmos-sdk/testutil"
	sdk "github.com/cosmos/cosmos-sdk/types"
	"pgregory.net/rapid"

	epochskeeper "github.com/osmosis-labs/osmosis/x/epochs/keeper"
	"github.com/osmosis-labs/osmosis/x/epochs/types"

	"verif/harness/drv"
)

func TestMain(m *testing.M) { drv.Main(m) }

const rule = "standalone epochs keeper on an in-memory multistore: 1-4 timers (durations 1ns..30d, start before/at/after the first block, some already counting as after a genesis import, with a recorded start height of 0, below or far above the chain height), 1-4 subscribers in MultiEpochHooks with a generated outcome table (succeed / return error / panic string / panic error / runtime panic / gas-meter panic that is not out-of-gas / out-of-gas) and 0-3 writes before the outcome, block-time sequences with gaps 0, 1ns, to the exact epoch end -1ns/0/+1ns, several epochs, days; oracle: per-timer reference model (pure function of the block times) for epoch number/start time/started flag after every block, the exact per-timer signal sequence as observed by the subscribers, store contents == writes of exactly the successful invocations, out-of-gas propagates out of BeginBlocker; non-trivial = a multi-epoch gap and a failing subscriber with partial writes occurred; distinct by history hash"

var base = time.Date(2030, 1, 1, 0, 0, 0, 0, time.UTC)

type outcome int

const (
	oOK outcome = iota
	oErr
	oPanicStr
	oPanicErr
	oPanicRuntime
	oOOG
	oPanicNegGas // a gas-meter panic that is NOT an out-of-gas condition (more gas refunded than consumed)
)

type call struct {
	sub   int
	kind  string // "end" | "start"
	id    string
	epoch int64
}

type world struct {
	key      storetypes.StoreKey
	log      []call
	outcomes [][]outcome // [sub][k]
	writes   [][]int
	counter  []int // invocations per subscriber
	expected map[string]string
	oogHit   bool
	failWithWrites bool
}

type sub struct {
	w *world
	i int
}

func (s sub) GetModuleName() string { return fmt.Sprintf("sub%d", s.i) }

func (s sub) run(ctx sdk.Context, kind, id string, n int64) error {
	w := s.w
	seq := w.counter[s.i]
	w.counter[s.i]++
	w.log = append(w.log, call{s.i, kind, id, n})
	k := seq % len(w.outcomes[s.i])
	out := w.outcomes[s.i][k]
	nw := w.writes[s.i][k]
	store := ctx.KVStore(w.key)
	pending := map[string]string{}
	for j := 0; j < nw; j++ {
		key := fmt.Sprintf("sub/%d/%d/%d", s.i, seq, j)
		val := fmt.Sprintf("%s:%s:%d", kind, id, n)
		store.Set([]byte(key), []byte(val))
		pending[key] = val
	}
	switch out {
	case oOK:
		for k, v := range pending {
			w.expected[k] = v
		}
		return nil
	case oErr:
		if nw > 0 {
			w.failWithWrites = true
		}
		return errors.New("subscriber error")
	case oPanicStr:
		if nw > 0 {
			w.failWithWrites = true
		}
		panic("subscriber panic")
	case oPanicErr:
		if nw > 0 {
			w.failWithWrites = true
		}
		panic(errors.New("subscriber panic error"))
	case oPanicRuntime:
		if nw > 0 {
			w.failWithWrites = true
		}
		var m map[string]int
		m["x"] = 1 // runtime.Error
		return nil
	case oPanicNegGas:
		if nw > 0 {
			w.failWithWrites = true
		}
		panic(storetypes.ErrorNegativeGasConsumed{Descriptor: "subscriber refunded more gas than it consumed"})
	default:
		w.oogHit = true
		panic(storetypes.ErrorOutOfGas{Descriptor: "subscriber ran out of gas"})
	}
}

func (s sub) AfterEpochEnd(ctx sdk.Context, id string, n int64) error   { return s.run(ctx, "end", id, n) }
func (s sub) BeforeEpochStart(ctx sdk.Context, id string, n int64) error { return s.run(ctx, "start", id, n) }

type timer struct {
	id       string
	dur      time.Duration
	start    time.Time
	started  bool
	epoch    int64
	curStart time.Time
	height   int64
	n0       int64 // epoch number at which counting began (for the grid check)
	t0       time.Time
}

var durations = []time.Duration{1, 2, time.Second, time.Minute, time.Hour, 24 * time.Hour, 7 * 24 * time.Hour, 30 * 24 * time.Hour, 1500 * time.Millisecond}

func TestPropEpochs(t *testing.T) {
	drv.Check(t, drv.Cfg{Name: "epoch-timers-and-hooks", Rule: rule, Quick: 1500, Thorough: 30000, Steps: 30, TSteps: 60}, func(rt *rapid.T, c *drv.Case) {
		key := storetypes.NewKVStoreKey(types.StoreKey)
		ctx := testutil.DefaultContext(key, storetypes.NewTransientStoreKey("transient_test"))
		k := epochskeeper.NewKeeper(key)
		nsub := rapid.IntRange(1, 4).Draw(rt, "subscribers")
		w := &world{key: key, expected: map[string]string{}, counter: make([]int, nsub)}
		hooks := types.MultiEpochHooks{}
		oogAllowed := rapid.IntRange(0, 4).Draw(rt, "oogAllowed") == 0
		for i := 0; i < nsub; i++ {
			tab := make([]outcome, 6)
			wr := make([]int, 6)
			for j := range tab {
				o := rapid.IntRange(0, 12).Draw(rt, fmt.Sprintf("out%d_%d", i, j))
				switch {
				case o <= 5:
					tab[j] = oOK
				case o <= 9:
					tab[j] = outcome(o - 5) // err / panics
				case o == 10 && oogAllowed:
					tab[j] = oOOG
				case o == 12:
					tab[j] = oPanicNegGas
				default:
					tab[j] = oErr
				}
				wr[j] = rapid.IntRange(0, 3).Draw(rt, fmt.Sprintf("wr%d_%d", i, j))
			}
			w.outcomes = append(w.outcomes, tab)
			w.writes = append(w.writes, wr)
			hooks = append(hooks, sub{w, i})
		}
		k.SetHooks(hooks)

		now := base
		height := int64(1)
		ctx = ctx.WithBlockTime(now).WithBlockHeight(height)
		// timers
		nt := rapid.IntRange(1, 4).Draw(rt, "timers")
		timers := map[string]*timer{}
		ids := []string{"day", "hour", "week", "aaa"}
		for i := 0; i < nt; i++ {
			tm := &timer{id: ids[i], dur: durations[rapid.IntRange(0, len(durations)-1).Draw(rt, "dur")]}
			info := types.EpochInfo{Identifier: tm.id, Duration: tm.dur}
			recorded := int64(0)
			switch rapid.IntRange(0, 4).Draw(rt, "startKind") {
			case 0: // zero start time: becomes the block time at registration
				tm.start = now
			case 1:
				tm.start = now.Add(-time.Duration(rapid.Int64Range(0, int64(40*24*time.Hour)).Draw(rt, "before")))
				info.StartTime = tm.start
			case 2:
				tm.start = now.Add(time.Duration(rapid.Int64Range(1, int64(3*24*time.Hour)).Draw(rt, "after")))
				info.StartTime = tm.start
			case 3:
				tm.start = now.Add(tm.dur * time.Duration(rapid.IntRange(1, 3).Draw(rt, "afterEpochs")))
				info.StartTime = tm.start
			default: // already counting (as after a genesis import)
				tm.start = now.Add(-time.Duration(rapid.Int64Range(0, int64(24*time.Hour)).Draw(rt, "before")))
				tm.started = true
				tm.epoch = rapid.Int64Range(1, 1000).Draw(rt, "epochNo")
				tm.curStart = tm.start
				info.StartTime = tm.start
				info.EpochCountingStarted = true
				info.CurrentEpoch = tm.epoch
				info.CurrentEpochStartTime = tm.curStart
				tm.n0, tm.t0 = tm.epoch, tm.curStart
				// exported state records the height at which the current epoch began on the exporting chain; the importing
				// chain may start at any height (a re-genesis at height 1 is the usual case). Ticks depend on block time only.
				recorded = rapid.SampledFrom([]int64{0, 0, 1, 2, 37, 5000, 1 << 40}).Draw(rt, "recordedStartHeight")
				info.CurrentEpochStartHeight = recorded
				if recorded > height {
					c.Class("restored-timer-with-start-height-above-chain-height")
				}
			}
			if err := k.AddEpochInfo(ctx, info); err != nil {
				rt.Fatalf("AddEpochInfo: %v", err)
			}
			tm.height = height
			if recorded != 0 {
				tm.height = recorded
			}
			timers[tm.id] = tm
		}
		order := make([]string, 0, nt)
		for id := range timers {
			order = append(order, id)
		}
		sort.Strings(order)

		var hist []string
		multiGap := false
		perTimerSeen := map[string]int{} // index into w.log consumed so far, per timer
		_ = perTimerSeen
		logPos := 0

		block := func(rt *rapid.T) {
			// choose the next block time
			var dt time.Duration
			kind := rapid.IntRange(0, 8).Draw(rt, "gapKind")
			switch kind {
			case 0:
				dt = 0
			case 1:
				dt = 1
			case 2:
				dt = time.Duration(rapid.Int64Range(1, int64(10*time.Second)).Draw(rt, "jitter"))
			case 3, 4, 5: // relative to some timer's current epoch end: -1ns, exactly, +1ns
				tm := timers[order[rapid.IntRange(0, len(order)-1).Draw(rt, "whichTimer")]]
				ref := tm.start
				if tm.started {
					ref = tm.curStart.Add(tm.dur)
				}
				target := ref.Add(time.Duration(kind-4) * time.Nanosecond)
				if target.Before(now) {
					dt = 0
				} else {
					dt = target.Sub(now)
				}
			case 6: // several epochs of some timer
				tm := timers[order[rapid.IntRange(0, len(order)-1).Draw(rt, "whichTimer")]]
				dt = tm.dur*time.Duration(rapid.IntRange(2, 6).Draw(rt, "epochs")) + time.Duration(rapid.Int64Range(0, 1000).Draw(rt, "extra"))
			case 7:
				dt = time.Duration(rapid.Int64Range(0, int64(3*24*time.Hour)).Draw(rt, "days"))
			default:
				dt = time.Duration(rapid.Int64Range(0, int64(2*time.Hour)).Draw(rt, "hours"))
			}
			now = now.Add(dt)
			height++
			ctx = ctx.WithBlockTime(now).WithBlockHeight(height)
			hist = append(hist, fmt.Sprintf("+%s", dt))

			// reference: what must happen in this block, per timer
			expect := map[string][]call{}
			for _, id := range order {
				tm := timers[id]
				if !tm.started {
					if now.Before(tm.start) {
						continue
					}
					tm.started = true
					tm.epoch = 1
					tm.curStart = tm.start
					tm.height = height
					tm.n0, tm.t0 = 1, tm.start
					for i := 0; i < nsub; i++ {
						expect[id] = append(expect[id], call{i, "start", id, 1})
					}
					continue
				}
				end := tm.curStart.Add(tm.dur)
				if now.After(end) {
					if now.After(end.Add(tm.dur)) {
						multiGap = true
					}
					for i := 0; i < nsub; i++ {
						expect[id] = append(expect[id], call{i, "end", id, tm.epoch})
					}
					tm.epoch++
					tm.curStart = end
					tm.height = height
					for i := 0; i < nsub; i++ {
						expect[id] = append(expect[id], call{i, "start", id, tm.epoch})
					}
				}
			}
			// run the real BeginBlocker
			var pan any
			func() {
				defer func() { pan = recover() }()
				k.BeginBlocker(ctx)
			}()
			if pan != nil {
				if _, ok := pan.(storetypes.ErrorOutOfGas); ok && w.oogHit {
					return // propagated as required; the block is aborted, the history ends here
				}
				rt.Fatalf("BeginBlocker panicked with %v (only out-of-gas may propagate)", pan)
			}
			if w.oogHit {
				rt.Fatalf("a subscriber ran out of gas but BeginBlocker swallowed it")
			}
			// observed signals of this block, per timer, in order
			got := map[string][]call{}
			for _, cl := range w.log[logPos:] {
				got[cl.id] = append(got[cl.id], cl)
			}
			logPos = len(w.log)
			for _, id := range order {
				if fmt.Sprint(got[id]) != fmt.Sprint(expect[id]) {
					rt.Fatalf("block time %s (height %d): timer %q signals observed %v, reference model expects %v", now.Format(time.RFC3339Nano), height, id, got[id], expect[id])
				}
			}
			// timer state
			for _, id := range order {
				tm := timers[id]
				info := k.GetEpochInfo(ctx, id)
				if info.EpochCountingStarted != tm.started || info.CurrentEpoch != tm.epoch {
					rt.Fatalf("timer %q at %s: started=%v epoch=%d, model started=%v epoch=%d", id, now.Format(time.RFC3339Nano), info.EpochCountingStarted, info.CurrentEpoch, tm.started, tm.epoch)
				}
				if tm.started {
					if !info.CurrentEpochStartTime.Equal(tm.curStart) {
						rt.Fatalf("timer %q: current epoch start %s, model %s", id, info.CurrentEpochStartTime, tm.curStart)
					}
					grid := tm.t0.Add(time.Duration(tm.epoch-tm.n0) * tm.dur)
					if !info.CurrentEpochStartTime.Equal(grid) {
						rt.Fatalf("timer %q: epoch start %s is off the grid start+n*duration (%s)", id, info.CurrentEpochStartTime, grid)
					}
					if info.CurrentEpochStartHeight != tm.height {
						rt.Fatalf("timer %q: epoch start height %d, model %d", id, info.CurrentEpochStartHeight, tm.height)
					}
				}
			}
			// store contents == writes of exactly the successful invocations
			store := ctx.KVStore(key)
			it := storetypes.KVStorePrefixIterator(store, []byte("sub/"))
			seen := map[string]string{}
			for ; it.Valid(); it.Next() {
				seen[string(it.Key())] = string(it.Value())
			}
			it.Close()
			if len(seen) != len(w.expected) {
				rt.Fatalf("subscriber store has %d entries, expected %d (writes of failed subscribers must be discarded, of successful ones kept): have %v want %v", len(seen), len(w.expected), keys(seen), keys(w.expected))
			}
			for kk, v := range w.expected {
				if seen[kk] != v {
					rt.Fatalf("subscriber write %s: have %q want %q", kk, seen[kk], v)
				}
			}
		}
		rt.Repeat(map[string]func(*rapid.T){
			"block": func(rt *rapid.T) {
				if w.oogHit {
					return // history ended by the propagated out-of-gas
				}
				block(rt)
			},
			"": func(rt *rapid.T) {},
		})
		if w.oogHit {
			c.Class("out-of-gas-propagated")
		}
		if multiGap {
			c.Class("multi-epoch-gap")
		}
		if w.failWithWrites {
			c.Class("failing-subscriber-with-writes")
		}
		c.Class(fmt.Sprintf("timers=%d", nt))
		if multiGap && w.failWithWrites {
			c.NonTrivial(fmt.Sprintf("%v|%v|%v|%s", w.outcomes, w.writes, describe(timers, order), strings.Join(hist, ",")))
			c.Samplef("timers %s; subscribers outcomes %v writes %v; block gaps %s", describe(timers, order), w.outcomes, w.writes, strings.Join(hist, ","))
		}
	})
}

func keys(m map[string]string) []string {
	out := make([]string, 0, len(m))
	for k := range m {
		out = append(out, k)
	}
	sort.Strings(out)
	return out
}

func describe(timers map[string]*timer, order []string) string {
	var sb strings.Builder
	for _, id := range order {
		tm := timers[id]
		fmt.Fprintf(&sb, "[%s dur=%s start=%s]", id, tm.dur, tm.start.Sub(base))
	}
	return sb.String()
}
