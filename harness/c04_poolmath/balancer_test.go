package c04

import (
	"fmt"
	"math/big"
	"runtime"
	"strings"
	"testing"
	"time"

	sdk "github.com/cosmos/cosmos-sdk/types"
	"pgregory.net/rapid"

	"github.com/osmosis-labs/osmosis/osmomath"
	"github.com/osmosis-labs/osmosis/v31/x/gamm/pool-models/balancer"

	"verif/harness/drv"
	"verif/harness/ref"
)

func TestMain(m *testing.M) { drv.Main(m) }

var denomNames = []string{"aaa", "bbb", "ccc", "ddd", "eee", "fff", "ggg", "hhh"}

type F = *big.Float

func fi(i *big.Int) F { return ref.FI(i) }

// genBal: log-uniform 1 .. 1e30 with boundary shapes
func genBal(rt *rapid.T, label string) *big.Int {
	switch rapid.IntRange(0, 5).Draw(rt, label+"Shape") {
	case 0:
		return big.NewInt(rapid.Int64Range(1, 1000).Draw(rt, label+"Small"))
	case 1:
		return ref.Pow10(rapid.IntRange(0, 30).Draw(rt, label+"Pow"))
	default:
		e := rapid.IntRange(0, 29).Draw(rt, label+"Exp")
		m := rapid.Int64Range(1, 9_999_999).Draw(rt, label+"Mant")
		v := new(big.Int).Mul(big.NewInt(m), ref.Pow10(e))
		v.Quo(v, big.NewInt(1_000_000))
		if v.Sign() == 0 {
			v.SetInt64(1)
		}
		return v
	}
}

func genWeight(rt *rapid.T, label string) int64 {
	switch rapid.IntRange(0, 3).Draw(rt, label+"Shape") {
	case 0:
		return 1
	case 1:
		return 1<<20 - 1
	default:
		return rapid.Int64Range(1, 1<<20-1).Draw(rt, label)
	}
}

func genFee(rt *rapid.T, label string, max int64) osmomath.Dec {
	switch rapid.IntRange(0, 3).Draw(rt, label+"Shape") {
	case 0:
		return osmomath.ZeroDec()
	case 1:
		return osmomath.NewDecWithPrec(3, 3)
	default:
		return osmomath.NewDecWithPrec(rapid.Int64Range(0, max).Draw(rt, label), 4) // 0 .. max bp
	}
}

type bpool struct {
	p      balancer.Pool
	denoms []string
	fee    osmomath.Dec
	exit   osmomath.Dec
	lbp    bool      // created with smooth weight change parameters
	now    time.Time // block time of the current operation
}

var poolBirth = time.Unix(1_900_000_000, 0).UTC()

func (b *bpool) bal(d string) *big.Int {
	a, err := b.p.GetPoolAsset(d)
	if err != nil {
		panic(err)
	}
	return a.Token.Amount.BigInt()
}

func (b *bpool) weight(d string) *big.Int {
	a, _ := b.p.GetPoolAsset(d)
	return a.Weight.BigInt()
}

func (b *bpool) shares() *big.Int { return b.p.GetTotalShares().BigInt() }

// lnV = sum_k (w_k/W) ln B_k - ln S   (value of one share in the weighted-product numeraire)
// sumW is the sum of the asset weights as the pool reports them per asset (the normalising constant of the
// constant-weighted-product formula); the pool's own cached total is deliberately not consulted.
func (b *bpool) sumW() F {
	s := new(big.Int)
	for _, d := range b.denoms {
		s.Add(s, b.weight(d))
	}
	return fi(s)
}

// drained reports whether a reserve or the share supply has reached zero (an accepted operation may take everything out of
// a tiny pool): the value per share is undefined from then on and the history ends there.
func (b *bpool) drained() bool {
	for _, d := range b.denoms {
		if b.bal(d).Sign() <= 0 {
			return true
		}
	}
	return b.shares().Sign() <= 0
}

func (b *bpool) lnV() F {
	W := b.sumW()
	s := ref.F(0)
	for _, d := range b.denoms {
		s = ref.Fadd(s, ref.Fmul(ref.Fquo(fi(b.weight(d)), W), ref.Ln(fi(b.bal(d)))))
	}
	return ref.Fsub(s, ref.Ln(fi(b.shares())))
}

func decF(d osmomath.Dec) F { return ref.FScaled(d.BigInt(), 18) }

// solve is the exact constant-function solution U*(1-(Xb/Xa)^(wf/wu)) and the absolute tolerance
// the documented power precision allows on it.
func solve(Xb, Xa, wf, wu, U F) (val, tol F, ok bool) {
	ref.ForceSeriesTerm = true
	y := ref.Fquo(Xb, Xa)
	if y.Sign() <= 0 || y.Cmp(ref.F(2)) >= 0 {
		return nil, nil, false
	}
	e := ref.Fquo(wf, wu)
	p := ref.Pow(y, e)
	val = ref.Fmul(U, ref.Fsub(ref.F(1), p))
	tol = ref.Fmul(ref.Fabs(U), ref.PowTol(y, e))
	// quotient roundings of y and of the exponent at 18 decimals: d(y^e) <= e*y^(e-1)*1e-18 + y^e*|ln y|*1e-18*e
	em1 := ref.Pow(y, ref.Fsub(e, ref.F(1)))
	// exponent error: wf and wu may themselves be 18-decimal roundings (normalised weights), and the
	// quotient is rounded again: |de| <= 1e-18 * (1 + e/wu + e/wf ... ) bounded here by 1e-18*(1 + 2e + 2e^2)
	de := ref.Fadd(ref.F(1), ref.Fadd(ref.Fmul(ref.F(2), e), ref.Fmul(ref.F(2), ref.Fmul(e, e))))
	dq := ref.Fmul(ref.Fquo(ref.F(1), fi(ref.Pow10(18))), ref.Fadd(ref.Fmul(e, em1), ref.Fmul(ref.Fmul(p, ref.Fabs(ref.Ln(y))), de)))
	tol = ref.Fadd(tol, ref.Fmul(ref.Fabs(U), ref.Fmul(dq, ref.F(4))))
	return val, tol, true
}

// try runs f; an error or a panic carrying an error/string is the documented clean failure mode of the
// solver. A Go runtime error (nil dereference, index out of range) is a crash, never a clean failure.
func try(f func() error) (err error, panicked any) {
	defer func() {
		if r := recover(); r != nil {
			if re, ok := r.(runtime.Error); ok {
				panic(fmt.Sprintf("pool operation crashed with a runtime error: %v", re))
			}
			panicked = r
		}
	}()
	return f(), nil
}

func newBalancer(rt *rapid.T) *bpool {
	n := rapid.IntRange(2, 8).Draw(rt, "assets")
	if rapid.IntRange(0, 2).Draw(rt, "two") == 0 {
		n = 2
	}
	b := &bpool{fee: genFee(rt, "spread", 1000), exit: osmomath.ZeroDec()}
	if rapid.IntRange(0, 3).Draw(rt, "exitFee") == 0 {
		b.exit = genFee(rt, "exit", 500)
	}
	var assets []balancer.PoolAsset
	for i := 0; i < n; i++ {
		d := denomNames[i]
		b.denoms = append(b.denoms, d)
		assets = append(assets, balancer.PoolAsset{Weight: osmomath.NewInt(genWeight(rt, "w"+d)), Token: sdk.NewCoin(d, osmomath.NewIntFromBigInt(genBal(rt, "bal"+d)))})
	}
	params := balancer.PoolParams{SwapFee: b.fee, ExitFee: b.exit}
	if rapid.IntRange(0, 3).Draw(rt, "lbp") == 0 {
		// liquidity-bootstrapping pool: weights move linearly from the initial to generated target weights; the keeper
		// brings them up to the block time (PokePool) every time it loads the pool, and so does this harness
		var target []balancer.PoolAsset
		for _, d := range b.denoms {
			target = append(target, balancer.PoolAsset{Weight: osmomath.NewInt(genWeight(rt, "tw"+d)), Token: sdk.NewCoin(d, osmomath.ZeroInt())})
		}
		start := poolBirth.Add(time.Duration(rapid.Int64Range(0, int64(2*time.Hour)).Draw(rt, "lbpStartIn")))
		dur := time.Duration(rapid.Int64Range(int64(time.Second), int64(10*24*time.Hour)).Draw(rt, "lbpDuration"))
		params.SmoothWeightChangeParams = &balancer.SmoothWeightChangeParams{StartTime: start, Duration: dur, TargetPoolWeights: target}
		b.lbp = true
	}
	p, err := balancer.NewBalancerPool(1, params, assets, "", poolBirth)
	if err != nil {
		rt.Skip("pool parameters rejected: " + err.Error())
	}
	b.p = p
	b.now = poolBirth
	return b
}

const balRule = "balancer.Pool objects built directly: 2-8 assets, reserves log-uniform 1..1e30 (incl. 1e12:1 imbalances and reserves below 1000 units where one unit of rounding dominates), weights 1..2^20-1, a quarter of the pools liquidity-bootstrapping (smooth weight change towards generated target weights, block time advancing between operations and the pool poked at every load as the keeper does; normalised weights are taken from the per-asset weights, never from the pool's cached total), spread 0..10%, exit fee 0..5%; sequences of <= 12 operations (swap exact in/out, single-asset join, multi-asset uneven join, proportional no-swap join, exit, single-asset in for exact shares, exit-swap exact out) with trade sizes from 1 unit to multiples of the reserve; oracle: closed constant-weighted-product formula in 1024-bit floats with tolerance = unknown balance x the power precision bound (PowTol) + 2 units, one-sided (never in the trader's favour beyond it), and ln(value per share) = sum w_k/W ln B_k - ln S never falling by more than the same tolerance relative to the affected reserve/share total; proportional joins mint <= floor(S*min in_k/B_k), exits pay <= floor(B_k*shares(1-exitFee)/S); non-trivial = an operation moved a reserve by more than one unit with an inexact power; distinct by history hash"

func TestPropBalancer(t *testing.T) {
	ctx0 := testCtx()
	drv.Check(t, drv.Cfg{Name: "balancer-math", Rule: balRule, Quick: 2500, Thorough: 80000}, func(rt *rapid.T, c *drv.Case) {
		b := newBalancer(rt)
		ctx := ctx0.WithBlockTime(b.now)
		W := func() F { return b.sumW() }
		var hist []string
		nt := false
		nops := rapid.IntRange(1, 12).Draw(rt, "nops")
		for step := 0; step < nops; step++ {
			if b.lbp {
				var dt time.Duration
				switch rapid.IntRange(0, 3).Draw(rt, "dtKind") {
				case 0:
					dt = 0
				case 1:
					dt = time.Duration(rapid.Int64Range(1, int64(time.Hour)).Draw(rt, "dtShort"))
				default:
					dt = time.Duration(rapid.Int64Range(1, int64(4*24*time.Hour)).Draw(rt, "dtLong"))
				}
				b.now = b.now.Add(dt)
				ctx = ctx.WithBlockTime(b.now)
				b.p.PokePool(b.now)
				c.Class("lbp-pool")
				if b.p.PoolParams.SmoothWeightChangeParams == nil {
					c.Class("lbp-weights-reached-target")
				} else if b.now.After(b.p.PoolParams.SmoothWeightChangeParams.StartTime) {
					c.Class("lbp-weights-shifting")
				}
			}
			if b.drained() {
				c.Class("pool-drained")
				break
			}
			before := b.lnV()
			S0 := b.shares()
			kind := rapid.IntRange(0, 7).Draw(rt, "op")
			tau := ref.F(0) // allowed drop of lnV for this operation
			unit := func(q *big.Int) F { return ref.Fquo(ref.F(2), fi(q)) }
			di := b.denoms[rapid.IntRange(0, len(b.denoms)-1).Draw(rt, "in")]
			do := b.denoms[rapid.IntRange(0, len(b.denoms)-1).Draw(rt, "out")]
			Bi, Bo := b.bal(di), b.bal(do)
			wi, wo := fi(b.weight(di)), fi(b.weight(do))
			oneMinusF := ref.Fsub(ref.F(1), decF(b.fee))
			amtOf := func(B *big.Int, label string) *big.Int {
				switch rapid.IntRange(0, 5).Draw(rt, label+"Shape") {
				case 0:
					return big.NewInt(1)
				case 1: // more than half the reserve
					v := new(big.Int).Mul(B, big.NewInt(rapid.Int64Range(50, 300).Draw(rt, label+"Pct")))
					v.Quo(v, big.NewInt(100)).Add(v, big.NewInt(1))
					if v.BitLen() > 250 { // sdk.Int holds 256 bits: an amount the message type cannot carry is not an input
						v.SetBit(new(big.Int), 250, 1)
					}
					return v
				default:
					v := new(big.Int).Mul(B, big.NewInt(rapid.Int64Range(1, 1_000_000).Draw(rt, label+"Ppm")))
					v.Quo(v, big.NewInt(1_000_000))
					if v.Sign() == 0 {
						v.SetInt64(1)
					}
					return v
				}
			}
			switch kind {
			case 0: // swap exact in
				if di == do {
					continue
				}
				in := amtOf(Bi, "amt")
				var out sdk.Coin
				err, pan := try(func() (e error) {
					out, e = b.p.SwapOutAmtGivenIn(ctx, sdk.NewCoins(sdk.NewCoin(di, osmomath.NewIntFromBigInt(in))), do, b.fee)
					return
				})
				if err != nil || pan != nil {
					c.Class("clean-failure")
					continue
				}
				inFee := ref.Fmul(fi(in), oneMinusF)
				val, tol, ok := solve(fi(Bi), ref.Fadd(fi(Bi), inFee), wi, wo, fi(Bo))
				if !ok {
					rt.Fatalf("swap succeeded outside the solver domain")
				}
				got := fi(out.Amount.BigInt())
				if ref.Fsub(got, val).Cmp(tol) > 0 {
					rt.Fatalf("SwapOutAmtGivenIn(%s%s -> %s) paid %s, the constant-product formula gives %s (+ tolerance %s): pool gave value away [pool %s]", in, di, do, out.Amount, val.Text('f', 3), tol.Text('g', 4), b.describe())
				}
				if ref.Fsub(val, got).Cmp(ref.Fadd(tol, ref.F(2))) > 0 {
					rt.Fatalf("SwapOutAmtGivenIn(%s%s -> %s) paid %s, formula %s: disagrees beyond tolerance %s [pool %s]", in, di, do, out.Amount, val.Text('f', 3), tol.Text('g', 4), b.describe())
				}
				tau = ref.Fmul(ref.Fquo(wo, W()), ref.Fquo(ref.Fadd(tol, ref.F(2)), fi(b.bal(do))))
				hist = append(hist, fmt.Sprintf("swapIn %s%s->%s%s", in, di, out.Amount, do))
				if out.Amount.BigInt().Cmp(big.NewInt(1)) > 0 {
					nt = true
				}
			case 1: // swap exact out
				if di == do {
					continue
				}
				out := amtOf(Bo, "amt")
				var in sdk.Coin
				err, pan := try(func() (e error) {
					in, e = b.p.SwapInAmtGivenOut(ctx, sdk.NewCoins(sdk.NewCoin(do, osmomath.NewIntFromBigInt(out))), di, b.fee)
					return
				})
				if err != nil || pan != nil {
					c.Class("clean-failure")
					continue
				}
				// in = -Bi*(1-(Bo/(Bo-out))^(wo/wi)) / (1-f)
				val, tol, ok := solve(fi(Bo), ref.Fsub(fi(Bo), fi(out)), wo, wi, fi(Bi))
				if !ok {
					rt.Fatalf("swap succeeded outside the solver domain")
				}
				want := ref.Fquo(ref.Fsub(ref.F(0), val), oneMinusF)
				tolIn := ref.Fquo(tol, oneMinusF)
				got := fi(in.Amount.BigInt())
				if ref.Fsub(want, got).Cmp(tolIn) > 0 {
					rt.Fatalf("SwapInAmtGivenOut(%s%s for %s) charged %s, the formula requires %s (tolerance %s): pool gave value away [pool %s]", out, do, di, in.Amount, want.Text('f', 3), tolIn.Text('g', 4), b.describe())
				}
				if ref.Fsub(got, want).Cmp(ref.Fadd(tolIn, ref.F(2))) > 0 {
					rt.Fatalf("SwapInAmtGivenOut(%s%s for %s) charged %s, formula %s: disagrees beyond tolerance %s [pool %s]", out, do, di, in.Amount, want.Text('f', 3), tolIn.Text('g', 4), b.describe())
				}
				tau = ref.Fmul(ref.Fquo(wi, W()), ref.Fquo(ref.Fadd(tolIn, ref.F(2)), fi(b.bal(di))))
				hist = append(hist, fmt.Sprintf("swapOut %s%s<-%s%s", in.Amount, di, out, do))
				nt = true
			case 2: // single-asset join
				in := amtOf(Bi, "amt")
				var sh osmomath.Int
				err, pan := try(func() (e error) {
					sh, e = b.p.JoinPool(ctx, sdk.NewCoins(sdk.NewCoin(di, osmomath.NewIntFromBigInt(in))), b.fee)
					return
				})
				if err != nil || pan != nil {
					c.Class("clean-failure")
					continue
				}
				wn := ref.Fquo(wi, W())
				feeRatio := ref.Fsub(ref.F(1), ref.Fmul(ref.Fsub(ref.F(1), wn), decF(b.fee)))
				inFee := ref.Fmul(fi(in), feeRatio)
				val, tol, ok := solve(ref.Fadd(fi(Bi), inFee), fi(Bi), wn, ref.F(1), fi(S0))
				if !ok {
					rt.Fatalf("join succeeded outside the solver domain")
				}
				want := ref.Fsub(ref.F(0), val)
				got := fi(sh.BigInt())
				if ref.Fsub(got, want).Cmp(tol) > 0 {
					rt.Fatalf("single-asset JoinPool(%s%s) minted %s shares, formula %s (tolerance %s): pool gave value away [pool %s]", in, di, sh, want.Text('f', 3), tol.Text('g', 4), b.describe())
				}
				if ref.Fsub(want, got).Cmp(ref.Fadd(tol, ref.F(2))) > 0 {
					rt.Fatalf("single-asset JoinPool(%s%s) minted %s shares, formula %s: disagrees beyond tolerance %s [pool %s]", in, di, sh, want.Text('f', 3), tol.Text('g', 4), b.describe())
				}
				tau = ref.Fquo(ref.Fadd(tol, ref.F(2)), fi(b.shares()))
				hist = append(hist, fmt.Sprintf("join1 %s%s->%s", in, di, sh))
				nt = true
			case 3: // multi-asset uneven join (all assets, arbitrary ratios)
				var coins sdk.Coins
				ins := map[string]*big.Int{}
				for _, d := range b.denoms {
					a := amtOf(b.bal(d), "amt"+d)
					ins[d] = a
					coins = coins.Add(sdk.NewCoin(d, osmomath.NewIntFromBigInt(a)))
				}
				var sh osmomath.Int
				err, pan := try(func() (e error) { sh, e = b.p.JoinPool(ctx, coins, b.fee); return })
				if err != nil || pan != nil {
					c.Class("clean-failure")
					continue
				}
				// upper bound on shares: proportional part r = min in_k/B_k, then single-asset joins of the
				// remainders against the updated pool, each with its own tolerance
				want, tolSum := multiJoinRef(b, ins, S0, W())
				got := fi(sh.BigInt())
				if ref.Fsub(got, want).Cmp(ref.Fadd(tolSum, ref.F(float64(len(b.denoms)+1)))) > 0 {
					rt.Fatalf("multi-asset JoinPool(%s) minted %s shares, proportional part + single-asset joins of the remainders give %s (tolerance %s): pool gave value away", coins, sh, want.Text('f', 3), tolSum.Text('g', 4))
				}
				tau = ref.Fquo(ref.Fadd(tolSum, ref.F(float64(2*len(b.denoms)+2))), fi(b.shares()))
				for _, d := range b.denoms {
					tau = ref.Fadd(tau, unit(b.bal(d)))
				}
				hist = append(hist, fmt.Sprintf("joinN %s->%s", coins, sh))
				c.Class("uneven-multi-join")
				nt = true
			case 4: // proportional join, no swap
				var coins sdk.Coins
				ins := map[string]*big.Int{}
				for _, d := range b.denoms {
					a := amtOf(b.bal(d), "amt"+d)
					ins[d] = a
					coins = coins.Add(sdk.NewCoin(d, osmomath.NewIntFromBigInt(a)))
				}
				bals := map[string]*big.Int{}
				for _, d := range b.denoms {
					bals[d] = b.bal(d)
				}
				var sh osmomath.Int
				err, pan := try(func() (e error) { sh, e = b.p.JoinPoolNoSwap(ctx, coins, b.fee); return })
				if err != nil || pan != nil {
					c.Class("clean-failure")
					continue
				}
				// shares <= floor(S * min_k in_k/B_k)
				var minR *big.Rat
				for _, d := range b.denoms {
					r := new(big.Rat).SetFrac(ins[d], bals[d])
					if minR == nil || r.Cmp(minR) < 0 {
						minR = r
					}
				}
				lim := new(big.Rat).Mul(minR, new(big.Rat).SetInt(S0))
				if new(big.Rat).SetInt(sh.BigInt()).Cmp(lim) > 0 {
					rt.Fatalf("JoinPoolNoSwap(%s) minted %s shares, more than the proportional share count %s", coins, sh, lim.FloatString(3))
				}
				tau = ref.Fadd(unit(b.shares()), ref.F(0))
				for _, d := range b.denoms {
					tau = ref.Fadd(tau, unit(b.bal(d)))
				}
				hist = append(hist, fmt.Sprintf("joinP %s->%s", coins, sh))
			case 5: // exit
				shIn := amtOf(S0, "shares")
				if shIn.Cmp(S0) >= 0 {
					shIn = new(big.Int).Sub(S0, big.NewInt(1))
				}
				bals := map[string]*big.Int{}
				for _, d := range b.denoms {
					bals[d] = b.bal(d)
				}
				var out sdk.Coins
				err, pan := try(func() (e error) {
					out, e = b.p.ExitPool(ctx, osmomath.NewIntFromBigInt(shIn), b.exit)
					return
				})
				if err != nil || pan != nil {
					c.Class("clean-failure")
					continue
				}
				exitR := new(big.Rat).SetFrac(b.exit.BigInt(), ref.Pow10(18))
				keep := new(big.Rat).Sub(big.NewRat(1, 1), exitR)
				for _, d := range b.denoms {
					lim := new(big.Rat).SetFrac(new(big.Int).Mul(bals[d], shIn), S0)
					lim.Mul(lim, keep)
					// refunded shares are rounded at 18 decimals: allow one unit
					lim.Add(lim, big.NewRat(1, 1))
					if new(big.Rat).SetInt(out.AmountOf(d).BigInt()).Cmp(lim) > 0 {
						rt.Fatalf("ExitPool(%s shares of %s, exit fee %s) paid %s%s, more than the proportional reserves %s", shIn, S0, b.exit, out.AmountOf(d), d, lim.FloatString(3))
					}
				}
				tau = unit(b.shares())
				for _, d := range b.denoms {
					tau = ref.Fadd(tau, unit(b.bal(d)))
				}
				hist = append(hist, fmt.Sprintf("exit %s->%s", shIn, out))
			case 6: // single asset in for exact shares out
				shOut := amtOf(S0, "shares")
				var in osmomath.Int
				err, pan := try(func() (e error) {
					// the keeper's JoinSwapShareAmountOut path: calculate, then apply the join
					in, e = b.p.CalcTokenInShareAmountOut(ctx, di, osmomath.NewIntFromBigInt(shOut), b.fee)
					if e == nil {
						b.p.IncreaseLiquidity(osmomath.NewIntFromBigInt(shOut), sdk.NewCoins(sdk.NewCoin(di, in)))
					}
					return
				})
				if err != nil || pan != nil {
					c.Class("clean-failure")
					continue
				}
				wn := ref.Fquo(wi, W())
				feeRatio := ref.Fsub(ref.F(1), ref.Fmul(ref.Fsub(ref.F(1), wn), decF(b.fee)))
				val, tol, ok := solve(ref.Fadd(fi(S0), fi(shOut)), fi(S0), ref.F(1), wn, fi(Bi))
				if !ok {
					rt.Fatalf("join succeeded outside the solver domain")
				}
				want := ref.Fquo(ref.Fsub(ref.F(0), val), feeRatio)
				tolIn := ref.Fquo(tol, feeRatio)
				got := fi(in.BigInt())
				if ref.Fsub(want, got).Cmp(tolIn) > 0 {
					rt.Fatalf("CalcTokenInShareAmountOut(%s shares for %s) charged %s, formula requires %s (tolerance %s): pool gave value away [pool %s]", shOut, di, in, want.Text('f', 3), tolIn.Text('g', 4), b.describe())
				}
				if ref.Fsub(got, want).Cmp(ref.Fadd(tolIn, ref.F(2))) > 0 {
					rt.Fatalf("CalcTokenInShareAmountOut(%s shares for %s) charged %s, formula %s: disagrees beyond tolerance %s", shOut, di, in, want.Text('f', 3), tolIn.Text('g', 4))
				}
				tau = ref.Fmul(wn, ref.Fquo(ref.Fadd(tolIn, ref.F(2)), fi(b.bal(di))))
				hist = append(hist, fmt.Sprintf("joinS %s shares<-%s%s", shOut, in, di))
				nt = true
			default: // exit swap: exact single asset out, shares in
				out := amtOf(Bo, "amt")
				var shIn osmomath.Int
				err, pan := try(func() (e error) {
					shIn, e = b.p.ExitSwapExactAmountOut(ctx, sdk.NewCoin(do, osmomath.NewIntFromBigInt(out)), osmomath.NewIntFromBigInt(S0))
					return
				})
				if err != nil || pan != nil {
					c.Class("clean-failure")
					continue
				}
				wn := ref.Fquo(wo, W())
				feeRatio := ref.Fsub(ref.F(1), ref.Fmul(ref.Fsub(ref.F(1), wn), decF(b.fee)))
				outFee := ref.Fquo(fi(out), feeRatio)
				val, tol, ok := solve(ref.Fsub(fi(Bo), outFee), fi(Bo), wn, ref.F(1), fi(S0))
				if !ok {
					rt.Fatalf("exit succeeded outside the solver domain")
				}
				keep := ref.Fsub(ref.F(1), decF(b.exit))
				want := ref.Fquo(val, keep)
				tolS := ref.Fquo(tol, keep)
				got := fi(shIn.BigInt())
				if ref.Fsub(want, got).Cmp(ref.Fadd(tolS, ref.F(1))) > 0 { // shares burned are truncated: one share unit (1e-18 share)
					rt.Fatalf("ExitSwapExactAmountOut(%s%s) burned %s shares, formula requires %s (tolerance %s): pool gave value away [pool %s]", out, do, shIn, want.Text('f', 3), tolS.Text('g', 4), b.describe())
				}
				if ref.Fsub(got, want).Cmp(ref.Fadd(tolS, ref.F(2))) > 0 {
					rt.Fatalf("ExitSwapExactAmountOut(%s%s) burned %s shares, formula %s: disagrees beyond tolerance %s", out, do, shIn, want.Text('f', 3), tolS.Text('g', 4))
				}
				tau = ref.Fquo(ref.Fadd(tolS, ref.F(2)), fi(b.shares()))
				tau = ref.Fadd(tau, ref.Fmul(wn, unit(b.bal(do))))
				hist = append(hist, fmt.Sprintf("exitS %s%s<-%s shares", out, do, shIn))
				nt = true
			}
			// weighted product per share must not fall beyond the precision
			if b.drained() {
				c.Class("pool-drained")
				break
			}
			after := b.lnV()
			drop := ref.Fsub(before, after)
			// tau is a relative bound on one quantity; ln(1-x) ~ -x(1+x): allow 1.5x for x < 1/3
			lim := ref.Fmul(tau, ref.F(1.5))
			if tau.Cmp(ref.F(0.3)) > 0 {
				lim = ref.F(1e9) // tolerance comparable to the reserve itself: nothing to assert
			}
			if drop.Cmp(lim) > 0 {
				rt.Fatalf("after %q the weighted product of reserves per share fell by a relative %s, allowed %s [history %s] [pool %s]", hist[len(hist)-1], drop.Text('g', 6), lim.Text('g', 6), strings.Join(hist, "; "), b.describe())
			}
		}
		c.Class(fmt.Sprintf("assets=%d", len(b.denoms)))
		if nt {
			c.NonTrivial(b.describe() + "|" + strings.Join(hist, ";"))
			c.Samplef("pool %s ; ops %s", b.describe(), strings.Join(hist, "; "))
		}
	})
}

func (b *bpool) describe() string {
	var s []string
	for _, d := range b.denoms {
		s = append(s, fmt.Sprintf("%s%s(w%s)", b.bal(d), d, new(big.Int).Rsh(b.weight(d), 30)))
	}
	return fmt.Sprintf("{%s fee=%s exit=%s S=%s}", strings.Join(s, " "), b.fee, b.exit, b.shares())
}

// multiJoinRef computes (an upper estimate of) the shares an all-asset join may mint: the exact-ratio part
// plus single-asset joins of each remainder against the progressively updated pool, and the summed tolerance.
func multiJoinRef(b *bpool, ins map[string]*big.Int, S0 *big.Int, W F) (F, F) {
	// pre-join balances: current balance minus what was added (the join already happened)
	pre := map[string]*big.Int{}
	for _, d := range b.denoms {
		pre[d] = new(big.Int).Sub(b.bal(d), ins[d])
	}
	var minR *big.Rat
	for _, d := range b.denoms {
		r := new(big.Rat).SetFrac(ins[d], pre[d])
		if minR == nil || r.Cmp(minR) < 0 {
			minR = r
		}
	}
	shares := ref.FR(new(big.Rat).Mul(minR, new(big.Rat).SetInt(S0)))
	S := ref.Fadd(fi(S0), shares)
	tolSum := ref.F(0)
	bal := map[string]F{}
	rem := map[string]F{}
	for _, d := range b.denoms {
		used := ref.FR(new(big.Rat).Mul(minR, new(big.Rat).SetInt(pre[d])))
		// the implementation rounds the used amount up to an integer: at most one unit more is used
		bal[d] = ref.Fadd(fi(pre[d]), used)
		rem[d] = ref.Fsub(fi(ins[d]), used)
	}
	for _, d := range b.denoms {
		if rem[d].Cmp(ref.F(0.5)) <= 0 {
			continue
		}
		wn := ref.Fquo(fi(b.weight(d)), W)
		feeRatio := ref.Fsub(ref.F(1), ref.Fmul(ref.Fsub(ref.F(1), wn), decF(b.fee)))
		val, tol, ok := solve(ref.Fadd(bal[d], ref.Fmul(rem[d], feeRatio)), bal[d], wn, ref.F(1), S)
		if !ok {
			return ref.F(1e300), ref.F(0)
		}
		add := ref.Fsub(ref.F(0), val)
		shares = ref.Fadd(shares, add)
		S = ref.Fadd(S, add)
		bal[d] = ref.Fadd(bal[d], rem[d])
		tolSum = ref.Fadd(tolSum, tol)
	}
	return shares, tolSum
}
