package c04

import (
	"fmt"
	"math/big"
	"strings"
	"testing"
	"time"

	sdk "github.com/cosmos/cosmos-sdk/types"
	"pgregory.net/rapid"

	"github.com/osmosis-labs/osmosis/osmomath"
	"github.com/osmosis-labs/osmosis/v31/x/gamm/pool-models/balancer"
	"github.com/osmosis-labs/osmosis/v31/x/gamm/pool-models/stableswap"
	gammtypes "github.com/osmosis-labs/osmosis/v31/x/gamm/types"
	pmtypes "github.com/osmosis-labs/osmosis/v31/x/poolmanager/types"

	"verif/harness/chain"
	"verif/harness/drv"
)

const keeperRule = "the pool math reaches users through the gamm keeper: on the real application (transaction semantics) one balancer pool (2-4 assets, a third of them weight-changing with the clock advancing) or stableswap pool (2-3 assets, generated scaling factors) and 1-8 messages (swap exact in / out, single-asset join by tokens / by shares, single-asset exit by shares / by tokens, proportional exit, all-asset join for exact shares - judged by the exact proportional bound minted x reserve <= paid x supply per asset) with amounts from one unit to 90% of a reserve or of the share supply; oracle (differential): whenever the message succeeds, the same operation applied to the pool object loaded from the store just before it (the in-memory model whose value properties the other C04 checks decide; the keeper's single-asset exit by shares is the proportional exit followed by swaps of the other assets on the exited pool) must succeed with exactly the same amount, the stored pool afterwards must equal the model (reserves, shares, weights), the pool account must hold exactly the recorded reserves and the share supply must equal the recorded total; non-trivial = at least one single-asset join or exit succeeded; distinct by (pool, operations) hash"

func TestPropKeeperMatchesModel(t *testing.T) {
	drv.Check(t, drv.Cfg{Name: "keeper-vs-model", Rule: keeperRule, Quick: 150, Thorough: 3000}, func(rt *rapid.T, cs *drv.Case) {
		c := chain.New(t)
		who := chain.Actor(0)
		huge := new(big.Int).Exp(big.NewInt(10), big.NewInt(30), nil)
		fund := sdk.NewCoins(sdk.NewCoin("uosmo", osmomath.NewIntFromBigInt(huge)))
		for _, d := range denomNames[:4] {
			fund = fund.Add(sdk.NewCoin(d, osmomath.NewIntFromBigInt(huge)))
		}
		c.Fund(who, fund)
		p := c.App.PoolManagerKeeper.GetParams(c.Ctx)
		p.TakerFeeParams.DefaultTakerFee = osmomath.ZeroDec()
		c.App.PoolManagerKeeper.SetParams(c.Ctx, p)
		amount := func(label string) osmomath.Int {
			m := rapid.Int64Range(1, 999).Draw(rt, label+"Mant")
			e := rapid.IntRange(4, 14).Draw(rt, label+"Exp")
			return osmomath.NewIntFromBigInt(new(big.Int).Mul(big.NewInt(m), new(big.Int).Exp(big.NewInt(10), big.NewInt(int64(e)), nil)))
		}
		var denoms []string
		stable := rapid.IntRange(0, 2).Draw(rt, "stableswap") == 0
		lbp := false
		fee := osmomath.NewDecWithPrec(rapid.Int64Range(0, 500).Draw(rt, "spreadBp"), 4)
		if stable {
			n := rapid.IntRange(2, 3).Draw(rt, "assets")
			var liq sdk.Coins
			var sfs []uint64
			base := amount("stable")
			for i := 0; i < n; i++ {
				sf := uint64(rapid.SampledFrom([]int64{1, 1, 10, 1000}).Draw(rt, "sf"))
				liq = liq.Add(sdk.NewCoin(denomNames[i], base.MulRaw(int64(sf)).AddRaw(rapid.Int64Range(0, 1_000_000).Draw(rt, "skew"))))
				sfs = append(sfs, sf)
				denoms = append(denoms, denomNames[i])
			}
			msg := stableswap.NewMsgCreateStableswapPool(who, stableswap.PoolParams{SwapFee: fee, ExitFee: osmomath.ZeroDec()}, liq, sfs, "")
			if r := c.Exec(&msg); !r.OK() {
				rt.Skip("stableswap pool rejected: " + r.Err.Error())
			}
		} else {
			n := rapid.IntRange(2, 4).Draw(rt, "assets")
			var assets, target []balancer.PoolAsset
			for i := 0; i < n; i++ {
				assets = append(assets, balancer.PoolAsset{Weight: osmomath.NewInt(rapid.Int64Range(1, 1000).Draw(rt, "w")), Token: sdk.NewCoin(denomNames[i], amount("bal"))})
				target = append(target, balancer.PoolAsset{Weight: osmomath.NewInt(rapid.Int64Range(1, 1000).Draw(rt, "tw")), Token: assets[i].Token})
				denoms = append(denoms, denomNames[i])
			}
			params := balancer.PoolParams{SwapFee: fee, ExitFee: osmomath.ZeroDec()}
			if rapid.IntRange(0, 2).Draw(rt, "weightChanging") == 0 {
				lbp = true
				params.SmoothWeightChangeParams = &balancer.SmoothWeightChangeParams{StartTime: c.Ctx.BlockTime(), Duration: time.Hour, TargetPoolWeights: target}
			}
			msg := balancer.NewMsgCreateBalancerPool(who, params, assets, "")
			if r := c.Exec(&msg); !r.OK() {
				rt.Skip("balancer pool rejected: " + r.Err.Error())
			}
		}
		id := c.App.PoolManagerKeeper.GetNextPoolId(c.Ctx) - 1
		shareDenom := gammtypes.GetPoolShareDenom(id)
		load := func() gammtypes.CFMMPoolI {
			pl, err := c.App.GAMMKeeper.GetCFMMPool(c.Ctx, id)
			if err != nil {
				rt.Fatalf("harness: load pool: %v", err)
			}
			return pl
		}
		var hist []string
		nt := false
		frac := func(of osmomath.Int, label string) osmomath.Int {
			var v osmomath.Int
			switch rapid.IntRange(0, 3).Draw(rt, label+"Shape") {
			case 0:
				v = osmomath.OneInt()
			case 1:
				v = of.MulRaw(rapid.Int64Range(10, 90).Draw(rt, label+"Pct")).QuoRaw(100)
			default:
				v = of.MulRaw(rapid.Int64Range(1, 100_000).Draw(rt, label+"Ppm")).QuoRaw(1_000_000)
			}
			if !v.IsPositive() {
				v = osmomath.OneInt()
			}
			return v
		}
		nops := rapid.IntRange(1, 8).Draw(rt, "nops")
		for step := 0; step < nops; step++ {
			if lbp && rapid.Bool().Draw(rt, "tick") {
				c.Advance(time.Duration(rapid.Int64Range(1, 40).Draw(rt, "minutes")) * time.Minute)
			}
			model := load()
			spread := model.GetSpreadFactor(c.Ctx)
			a := denoms[rapid.IntRange(0, len(denoms)-1).Draw(rt, "denomA")]
			b := denoms[rapid.IntRange(0, len(denoms)-1).Draw(rt, "denomB")]
			if a == b {
				continue
			}
			liq := model.GetTotalPoolLiquidity(c.Ctx)
			shares := model.GetTotalShares()
			var what string
			var res chain.ExecResult
			var got, want osmomath.Int
			var merr error
			single := false
			max := osmomath.NewIntFromBigInt(huge)
			switch rapid.IntRange(0, 7).Draw(rt, "op") {
			case 0:
				in := sdk.NewCoin(a, frac(liq.AmountOf(a), "amt"))
				what = fmt.Sprintf("swapExactIn %s->%s", in, b)
				res = c.Exec(&gammtypes.MsgSwapExactAmountIn{Sender: who.String(), Routes: []pmtypes.SwapAmountInRoute{{PoolId: id, TokenOutDenom: b}}, TokenIn: in, TokenOutMinAmount: osmomath.OneInt()})
				if res.OK() {
					var r gammtypes.MsgSwapExactAmountInResponse
					_ = res.Unpack(&r)
					got = r.TokenOutAmount
					var out sdk.Coin
					out, merr = model.SwapOutAmtGivenIn(c.Ctx, sdk.NewCoins(in), b, spread)
					want = out.Amount
				}
			case 1:
				out := sdk.NewCoin(b, frac(liq.AmountOf(b), "amt"))
				what = fmt.Sprintf("swapExactOut %s<-%s", a, out)
				res = c.Exec(&gammtypes.MsgSwapExactAmountOut{Sender: who.String(), Routes: []pmtypes.SwapAmountOutRoute{{PoolId: id, TokenInDenom: a}}, TokenOut: out, TokenInMaxAmount: max})
				if res.OK() {
					var r gammtypes.MsgSwapExactAmountOutResponse
					_ = res.Unpack(&r)
					got = r.TokenInAmount
					var in sdk.Coin
					in, merr = model.SwapInAmtGivenOut(c.Ctx, sdk.NewCoins(out), a, spread)
					want = in.Amount
				}
			case 2:
				single = true
				in := sdk.NewCoin(a, frac(liq.AmountOf(a), "amt"))
				what = fmt.Sprintf("joinSwapExternAmountIn %s", in)
				res = c.Exec(&gammtypes.MsgJoinSwapExternAmountIn{Sender: who.String(), PoolId: id, TokenIn: in, ShareOutMinAmount: osmomath.OneInt()})
				if res.OK() {
					var r gammtypes.MsgJoinSwapExternAmountInResponse
					_ = res.Unpack(&r)
					got = r.ShareOutAmount
					want, merr = model.JoinPool(c.Ctx, sdk.NewCoins(in), spread)
				}
			case 3:
				single = true
				sh := frac(shares, "shares")
				what = fmt.Sprintf("joinSwapShareAmountOut %s shares for %s", sh, a)
				res = c.Exec(&gammtypes.MsgJoinSwapShareAmountOut{Sender: who.String(), PoolId: id, TokenInDenom: a, ShareOutAmount: sh, TokenInMaxAmount: max})
				if res.OK() {
					var r gammtypes.MsgJoinSwapShareAmountOutResponse
					_ = res.Unpack(&r)
					got = r.TokenInAmount
					ext, ok := model.(gammtypes.PoolAmountOutExtension)
					if !ok {
						rt.Fatalf("%s succeeded on a pool type without that kind of join", what)
					}
					// the keeper's construction: quote the tokens for exactly these shares, then book both
					want, merr = ext.CalcTokenInShareAmountOut(c.Ctx, a, sh, spread)
					if merr == nil {
						ext.IncreaseLiquidity(sh, sdk.NewCoins(sdk.NewCoin(a, want)))
					}
				}
			case 4:
				single = true
				sh := frac(shares, "shares")
				if sh.GTE(shares) {
					sh = shares.SubRaw(1)
				}
				what = fmt.Sprintf("exitSwapShareAmountIn %s shares for %s", sh, b)
				res = c.Exec(&gammtypes.MsgExitSwapShareAmountIn{Sender: who.String(), PoolId: id, TokenOutDenom: b, ShareInAmount: sh, TokenOutMinAmount: osmomath.OneInt()})
				if res.OK() {
					var r gammtypes.MsgExitSwapShareAmountInResponse
					_ = res.Unpack(&r)
					got = r.TokenOutAmount
					// the keeper's documented construction: proportional exit, then every other asset swapped into the
					// requested one on the pool as the exit left it
					var exit sdk.Coins
					exit, merr = model.ExitPool(c.Ctx, sh, model.GetExitFee(c.Ctx))
					want = exit.AmountOf(b)
					for _, co := range exit {
						if merr != nil || co.Denom == b {
							continue
						}
						var out sdk.Coin
						out, merr = model.SwapOutAmtGivenIn(c.Ctx, sdk.NewCoins(co), b, spread)
						if merr == nil {
							want = want.Add(out.Amount)
						}
					}
				}
			case 5:
				single = true
				out := sdk.NewCoin(b, frac(liq.AmountOf(b), "amt"))
				what = fmt.Sprintf("exitSwapExternAmountOut %s", out)
				res = c.Exec(&gammtypes.MsgExitSwapExternAmountOut{Sender: who.String(), PoolId: id, TokenOut: out, ShareInMaxAmount: shares})
				if res.OK() {
					var r gammtypes.MsgExitSwapExternAmountOutResponse
					_ = res.Unpack(&r)
					got = r.ShareInAmount
					ext, ok := model.(gammtypes.PoolAmountOutExtension)
					if !ok {
						rt.Fatalf("%s succeeded on a pool type without that kind of exit", what)
					}
					want, merr = ext.ExitSwapExactAmountOut(c.Ctx, out, shares)
				}
			case 7:
				// all-asset join for an exact share amount: the statement's bound is exact - the shares minted are at most
				// the proportional count for what was actually paid, asset by asset (minted x reserve_i <= paid_i x supply)
				sh := frac(shares, "shares")
				if rapid.Bool().Draw(rt, "raggedShares") {
					sh = sh.AddRaw(rapid.Int64Range(1, 99).Draw(rt, "ragged")) // ratios that 18 decimals cannot hold
				}
				what = fmt.Sprintf("joinPool %s shares", sh)
				bal0 := c.App.BankKeeper.GetAllBalances(c.Ctx, who)
				res = c.Exec(&gammtypes.MsgJoinPool{Sender: who.String(), PoolId: id, ShareOutAmount: sh})
				if res.OK() {
					bal1 := c.App.BankKeeper.GetAllBalances(c.Ctx, who)
					minted := bal1.AmountOf(shareDenom).Sub(bal0.AmountOf(shareDenom))
					for _, co := range liq {
						paid := bal0.AmountOf(co.Denom).Sub(bal1.AmountOf(co.Denom))
						if minted.Mul(co.Amount).GT(paid.Mul(shares)) {
							rt.Fatalf("%s minted %s of %s shares for %s of %s%s: more than the proportional share count [history %v]", what, minted, shares, paid, co.Amount, co.Denom, hist)
						}
					}
					// stored pool vs bank is judged below; the model is the stored pool itself for this operation
					model = load()
					got, want = osmomath.ZeroInt(), osmomath.ZeroInt()
				}
			default:
				sh := frac(shares, "shares")
				if sh.GTE(shares) {
					sh = shares.SubRaw(1)
				}
				what = fmt.Sprintf("exitPool %s shares", sh)
				res = c.Exec(&gammtypes.MsgExitPool{Sender: who.String(), PoolId: id, ShareInAmount: sh})
				if res.OK() {
					var r gammtypes.MsgExitPoolResponse
					_ = res.Unpack(&r)
					var exit sdk.Coins
					exit, merr = model.ExitPool(c.Ctx, sh, model.GetExitFee(c.Ctx))
					if merr == nil && sdk.Coins(r.TokenOut).String() != exit.String() {
						rt.Fatalf("%s paid %s, the pool model pays %s [history %v]", what, sdk.Coins(r.TokenOut), exit, hist)
					}
					got, want = osmomath.ZeroInt(), osmomath.ZeroInt()
				}
			}
			if !res.OK() {
				cs.Class("rejected:" + strings.SplitN(what, " ", 2)[0])
				continue
			}
			if merr != nil {
				rt.Fatalf("%s succeeded through the keeper (%s) but the same operation on the pool loaded before it fails: %v [history %v]", what, got, merr, hist)
			}
			if !got.Equal(want) {
				rt.Fatalf("%s: the keeper returned %s, the pool model (pool as stored before the message) gives %s [history %v]", what, got, want, hist)
			}
			post := load()
			if post.GetTotalPoolLiquidity(c.Ctx).String() != model.GetTotalPoolLiquidity(c.Ctx).String() || !post.GetTotalShares().Equal(model.GetTotalShares()) {
				rt.Fatalf("%s: stored pool afterwards has reserves %s and %s shares, the pool model %s and %s [history %v]", what, post.GetTotalPoolLiquidity(c.Ctx), post.GetTotalShares(), model.GetTotalPoolLiquidity(c.Ctx), model.GetTotalShares(), hist)
			}
			if ps, ms := post.String(), model.String(); ps != ms {
				rt.Fatalf("%s: stored pool afterwards differs from the pool model:\n stored %s\n model  %s", what, ps, ms)
			}
			if bal := c.App.BankKeeper.GetAllBalances(c.Ctx, post.GetAddress()); bal.String() != post.GetTotalPoolLiquidity(c.Ctx).String() {
				rt.Fatalf("%s: the pool account holds %s, the pool records %s [history %v]", what, bal, post.GetTotalPoolLiquidity(c.Ctx), hist)
			}
			if sup := c.App.BankKeeper.GetSupply(c.Ctx, shareDenom).Amount; !sup.Equal(post.GetTotalShares()) {
				rt.Fatalf("%s: share supply %s, the pool records %s [history %v]", what, sup, post.GetTotalShares(), hist)
			}
			hist = append(hist, what)
			cs.Class("ok:" + strings.SplitN(what, " ", 2)[0])
			if single {
				nt = true
			}
		}
		kind := "balancer"
		if stable {
			kind = "stableswap"
		} else if lbp {
			kind = "balancer-weight-changing"
		}
		cs.Class("pool=" + kind)
		if nt {
			cs.NonTrivial(kind + "|" + load().String() + "|" + strings.Join(hist, ";"))
			cs.Samplef("%s pool %d: %s", kind, id, strings.Join(hist, "; "))
		}
	})
}
