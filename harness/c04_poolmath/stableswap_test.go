package c04

import (
	"fmt"
	"math/big"
	"strings"
	"testing"

	sdk "github.com/cosmos/cosmos-sdk/types"
	"pgregory.net/rapid"

	"github.com/osmosis-labs/osmosis/osmomath"
	"github.com/osmosis-labs/osmosis/v31/x/gamm/pool-models/stableswap"

	"verif/harness/drv"
	"verif/harness/ref"
)

const stableRule = "stableswap.Pool objects built directly: 2-8 assets, scaling factors 1..1e9 (incl. factors differing by 1e6), reserves log-uniform within the scaled bounds incl. 1e9:1 imbalances, spread 0..10%; sequences of <= 10 operations (swap exact in/out from 1 unit to most of a reserve, there-and-back swaps, proportional join, exit); oracle in exact rationals on scaled reserves r_k = B_k/sf_k: the pairwise invariant x*y*(x^2+y^2+w) (w = sum of squares of the other reserves) must not decrease across any swap - exactly, no tolerance; a swap there and straight back never returns more than was put in; proportional joins/exits bounded by the proportional amounts; solver non-convergence / bound errors are clean failures; non-trivial = swap moved both reserves; distinct by history hash"

type spool struct {
	p      stableswap.Pool
	denoms []string
	sf     map[string]uint64
	fee    osmomath.Dec
}

func (s *spool) bal(d string) *big.Int {
	return s.p.GetTotalPoolLiquidity(testCtx()).AmountOf(d).BigInt()
}

func (s *spool) r(d string) *big.Rat {
	return new(big.Rat).SetFrac(s.bal(d), new(big.Int).SetUint64(s.sf[d]))
}

// k(x,y,w) for the pair (a,b)
func (s *spool) k(a, b string) *big.Rat {
	x, y := s.r(a), s.r(b)
	w := new(big.Rat)
	for _, d := range s.denoms {
		if d != a && d != b {
			rd := s.r(d)
			w.Add(w, new(big.Rat).Mul(rd, rd))
		}
	}
	sum := new(big.Rat).Add(new(big.Rat).Mul(x, x), new(big.Rat).Mul(y, y))
	sum.Add(sum, w)
	return new(big.Rat).Mul(new(big.Rat).Mul(x, y), sum)
}

func (s *spool) describe() string {
	var out []string
	for _, d := range s.denoms {
		out = append(out, fmt.Sprintf("%s%s/sf%d", s.bal(d), d, s.sf[d]))
	}
	return fmt.Sprintf("{%s fee=%s S=%s}", strings.Join(out, " "), s.fee, s.p.GetTotalShares())
}

var sfController = sdk.AccAddress([]byte("scaling-controller__")).String()

func TestPropStableswap(t *testing.T) {
	ctx := testCtx()
	drv.Check(t, drv.Cfg{Name: "stableswap-math", Rule: stableRule, Quick: 1200, Thorough: 40000}, func(rt *rapid.T, c *drv.Case) {
		n := rapid.IntRange(2, 8).Draw(rt, "assets")
		if rapid.IntRange(0, 1).Draw(rt, "two") == 0 {
			n = 2
		}
		s := &spool{sf: map[string]uint64{}, fee: genFee(rt, "spread", 1000)}
		var liq sdk.Coins
		var sfs []uint64
		for i := 0; i < n; i++ {
			d := denomNames[i]
			s.denoms = append(s.denoms, d)
			var f uint64
			switch rapid.IntRange(0, 3).Draw(rt, "sfShape"+d) {
			case 0:
				f = 1
			case 1:
				f = uint64(ref.Pow10(rapid.IntRange(0, 9).Draw(rt, "sfPow"+d)).Int64())
			default:
				f = uint64(rapid.Int64Range(1, 1_000_000_000).Draw(rt, "sf"+d))
			}
			s.sf[d] = f
			sfs = append(sfs, f)
			// scaled reserve log-uniform 1e2 .. 1e20 (well inside [1, 1e34]); raw = scaled * sf
			e := rapid.IntRange(2, 20).Draw(rt, "resExp"+d)
			m := rapid.Int64Range(1_000_000, 9_999_999).Draw(rt, "resMant"+d)
			raw := new(big.Int).Mul(big.NewInt(m), ref.Pow10(e))
			raw.Quo(raw, big.NewInt(1_000_000))
			raw.Mul(raw, new(big.Int).SetUint64(f))
			liq = append(liq, sdk.NewCoin(d, osmomath.NewIntFromBigInt(raw)))
		}
		p, err := stableswap.NewStableswapPool(1, stableswap.PoolParams{SwapFee: s.fee, ExitFee: osmomath.ZeroDec()}, liq, sfs, sfController, "")
		if err != nil {
			rt.Skip("pool rejected: " + err.Error())
		}
		s.p = p
		var hist []string
		nt := false
		nops := rapid.IntRange(1, 10).Draw(rt, "nops")
		for step := 0; step < nops; step++ {
			a := s.denoms[rapid.IntRange(0, n-1).Draw(rt, "in")]
			b := s.denoms[rapid.IntRange(0, n-1).Draw(rt, "out")]
			amt := func(B *big.Int, label string) *big.Int {
				switch rapid.IntRange(0, 4).Draw(rt, label+"Shape") {
				case 0:
					return big.NewInt(1)
				case 1:
					v := new(big.Int).Mul(B, big.NewInt(rapid.Int64Range(30, 99).Draw(rt, label+"Pct")))
					return v.Quo(v, big.NewInt(100)).Add(v, big.NewInt(1))
				default:
					v := new(big.Int).Mul(B, big.NewInt(rapid.Int64Range(1, 1_000_000).Draw(rt, label+"Ppm")))
					v.Quo(v, big.NewInt(1_000_000))
					if v.Sign() == 0 {
						v.SetInt64(1)
					}
					return v
				}
			}
			op := rapid.IntRange(0, 4).Draw(rt, "op")
			if rapid.IntRange(0, 7).Draw(rt, "rescale") == 0 {
				op = 5
			}
			switch op {
			case 5: // the controller re-scales the live pool: every later operation is judged on the new factors
				var nsf []uint64
				for _, d := range s.denoms {
					f := s.sf[d]
					switch rapid.IntRange(0, 3).Draw(rt, "nsfShape"+d) {
					case 0: // unchanged
					case 1:
						f = uint64(ref.Pow10(rapid.IntRange(0, 9).Draw(rt, "nsfPow"+d)).Int64())
					case 2:
						f = uint64(rapid.Int64Range(1, 1_000_000_000).Draw(rt, "nsf"+d))
					default:
						f = 1
					}
					nsf = append(nsf, f)
				}
				before := s.p.GetTotalPoolLiquidity(ctx).String() + "|" + s.p.GetTotalShares().String()
				if err := s.p.SetScalingFactors(ctx, nsf, "somebody-else"); err == nil {
					rt.Fatalf("SetScalingFactors by a sender who is not the controller succeeded")
				}
				err, pan := try(func() error { return s.p.SetScalingFactors(ctx, nsf, sfController) })
				if pan != nil {
					rt.Fatalf("SetScalingFactors(%v) panicked: %v", nsf, pan)
				}
				if after := s.p.GetTotalPoolLiquidity(ctx).String() + "|" + s.p.GetTotalShares().String(); after != before {
					rt.Fatalf("SetScalingFactors(%v) changed reserves or shares: %s -> %s", nsf, before, after)
				}
				if err != nil {
					c.Class("rescale-rejected")
					continue
				}
				for i, d := range s.denoms {
					s.sf[d] = nsf[i]
				}
				hist = append(hist, fmt.Sprintf("rescale %v", nsf))
				c.Class("rescaled")
			case 0, 1: // swap exact in (and possibly straight back)
				if a == b {
					continue
				}
				in := amt(s.bal(a), "amt")
				k0 := s.k(a, b)
				var out sdk.Coin
				err, pan := try(func() (e error) {
					out, e = s.p.SwapOutAmtGivenIn(ctx, sdk.NewCoins(sdk.NewCoin(a, osmomath.NewIntFromBigInt(in))), b, s.fee)
					return
				})
				if err != nil || pan != nil {
					c.Class("clean-failure")
					continue
				}
				if k1 := s.k(a, b); k1.Cmp(k0) < 0 {
					rt.Fatalf("SwapOutAmtGivenIn(%s%s -> %s%s) lowered the invariant x*y*(x^2+y^2+w): %s -> %s (relative %s) [pool after %s]", in, a, out.Amount, b, k0.FloatString(6), k1.FloatString(6), relDrop(k0, k1), s.describe())
				}
				hist = append(hist, fmt.Sprintf("swapIn %s%s->%s%s", in, a, out.Amount, b))
				if out.Amount.IsPositive() {
					nt = true
				}
				if out.Amount.IsPositive() && rapid.Bool().Draw(rt, "back") {
					var back sdk.Coin
					err, pan := try(func() (e error) {
						back, e = s.p.SwapOutAmtGivenIn(ctx, sdk.NewCoins(out), a, s.fee)
						return
					})
					if err == nil && pan == nil {
						if back.Amount.BigInt().Cmp(in) > 0 {
							rt.Fatalf("swapping %s%s for %s%s and straight back returned %s%s: more than was put in", in, a, out.Amount, b, back.Amount, a)
						}
						hist = append(hist, fmt.Sprintf("back %s%s->%s%s", out.Amount, b, back.Amount, a))
						c.Class("there-and-back")
					}
				}
			case 2: // swap exact out
				if a == b {
					continue
				}
				outAmt := amt(s.bal(b), "amt")
				k0 := s.k(a, b)
				var in sdk.Coin
				err, pan := try(func() (e error) {
					in, e = s.p.SwapInAmtGivenOut(ctx, sdk.NewCoins(sdk.NewCoin(b, osmomath.NewIntFromBigInt(outAmt))), a, s.fee)
					return
				})
				if err != nil || pan != nil {
					c.Class("clean-failure")
					continue
				}
				if k1 := s.k(a, b); k1.Cmp(k0) < 0 {
					rt.Fatalf("SwapInAmtGivenOut(%s%s <- %s%s) lowered the invariant: %s -> %s (relative %s) [pool after %s]", in.Amount, a, outAmt, b, k0.FloatString(6), k1.FloatString(6), relDrop(k0, k1), s.describe())
				}
				hist = append(hist, fmt.Sprintf("swapOut %s%s<-%s%s", in.Amount, a, outAmt, b))
				nt = true
			case 3: // proportional join
				var coins sdk.Coins
				ins, bals := map[string]*big.Int{}, map[string]*big.Int{}
				for _, d := range s.denoms {
					bals[d] = s.bal(d)
					ins[d] = amt(bals[d], "j"+d)
					coins = coins.Add(sdk.NewCoin(d, osmomath.NewIntFromBigInt(ins[d])))
				}
				S0 := s.p.GetTotalShares().BigInt()
				var sh osmomath.Int
				err, pan := try(func() (e error) { sh, e = s.p.JoinPoolNoSwap(ctx, coins, s.fee); return })
				if err != nil || pan != nil {
					c.Class("clean-failure")
					continue
				}
				var minR *big.Rat
				for _, d := range s.denoms {
					r := new(big.Rat).SetFrac(ins[d], bals[d])
					if minR == nil || r.Cmp(minR) < 0 {
						minR = r
					}
				}
				if lim := new(big.Rat).Mul(minR, new(big.Rat).SetInt(S0)); new(big.Rat).SetInt(sh.BigInt()).Cmp(lim) > 0 {
					rt.Fatalf("stableswap JoinPoolNoSwap(%s) minted %s shares > proportional %s", coins, sh, lim.FloatString(3))
				}
				hist = append(hist, fmt.Sprintf("joinP %s->%s", coins, sh))
			default: // exit
				S0 := s.p.GetTotalShares().BigInt()
				shIn := amt(S0, "shares")
				if shIn.Cmp(S0) >= 0 {
					shIn = new(big.Int).Sub(S0, big.NewInt(1))
				}
				bals := map[string]*big.Int{}
				for _, d := range s.denoms {
					bals[d] = s.bal(d)
				}
				var out sdk.Coins
				err, pan := try(func() (e error) {
					out, e = s.p.ExitPool(ctx, osmomath.NewIntFromBigInt(shIn), osmomath.ZeroDec())
					return
				})
				if err != nil || pan != nil {
					c.Class("clean-failure")
					continue
				}
				for _, d := range s.denoms {
					lim := new(big.Rat).SetFrac(new(big.Int).Mul(bals[d], shIn), S0)
					lim.Add(lim, big.NewRat(1, 1))
					if new(big.Rat).SetInt(out.AmountOf(d).BigInt()).Cmp(lim) > 0 {
						rt.Fatalf("stableswap ExitPool(%s of %s shares) paid %s%s > proportional %s", shIn, S0, out.AmountOf(d), d, lim.FloatString(3))
					}
				}
				hist = append(hist, fmt.Sprintf("exit %s->%s", shIn, out))
			}
		}
		c.Class(fmt.Sprintf("assets=%d", n))
		if nt {
			c.NonTrivial(s.describe() + "|" + strings.Join(hist, ";"))
			c.Samplef("pool %s ; ops %s", s.describe(), strings.Join(hist, "; "))
		}
	})
}

func relDrop(k0, k1 *big.Rat) string {
	d := new(big.Rat).Sub(k0, k1)
	d.Quo(d, k0)
	return d.FloatString(40)
}
