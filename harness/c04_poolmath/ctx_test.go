package c04

import (
	"time"

	"cosmossdk.io/log"
	cmtproto "github.com/cometbft/cometbft/proto/tendermint/types"
	sdk "github.com/cosmos/cosmos-sdk/types"
)

// testCtx is a store-less context carrying only a block time (pool objects read nothing else).
func testCtx() sdk.Context {
	return sdk.NewContext(nil, cmtproto.Header{Time: time.Unix(1_900_000_100, 0).UTC(), Height: 10}, false, log.NewNopLogger())
}
