package c16

import (
	"bytes"
	"encoding/binary"
	"fmt"
	"math/big"
	"sort"
	"strings"
	"testing"

	"cosmossdk.io/store/cachekv"
	"cosmossdk.io/store/dbadapter"
	storetypes "cosmossdk.io/store/types"
	dbm "github.com/cosmos/cosmos-db"
	"github.com/cosmos/gogoproto/proto"
	"pgregory.net/rapid"

	"github.com/osmosis-labs/osmosis/osmomath"
	"github.com/osmosis-labs/osmosis/osmoutils/sumtree"

	"verif/harness/drv"
)

func TestMain(m *testing.M) { drv.Main(m) }

const rule = "state machine over Set/Increase/Decrease (amounts of either sign)/Remove/Clear on keys from alphabet {00,'a','b',ff} len 0..4 (shared prefixes, empty key), plus bulk loads of m/2..3m+1 distinct two-byte keys (arithmetic progressions modulo 65536, so that every fan-out up to 255 overflows and splits its nodes, several levels for the small ones), fan-out in {2,3,4,5,7,8,10,16,32,128,254,255}; oracle: map[string]big.Int + raw-store structural audit after every step; non-trivial = some node split AND some removal of a present key (or a removal that emptied a node); distinct by (fan-out, op history) hash"

type model struct {
	m map[string]*big.Int
}

func (md *model) keys() []string {
	ks := make([]string, 0, len(md.m))
	for k := range md.m {
		ks = append(ks, k)
	}
	sort.Strings(ks)
	return ks
}

func (md *model) sum(pred func(k string) bool) *big.Int {
	s := new(big.Int)
	for k, v := range md.m {
		if pred(k) {
			s.Add(s, v)
		}
	}
	return s
}

var alphabet = []byte{0x00, 'a', 'b', 0xff}

func genKey(rt *rapid.T, md *model, label string) []byte {
	switch rapid.IntRange(0, 9).Draw(rt, label+"Kind") {
	case 0, 1, 2:
		ks := md.keys()
		if len(ks) > 0 {
			return []byte(ks[rapid.IntRange(0, len(ks)-1).Draw(rt, label+"Idx")])
		}
	case 3:
		return []byte{}
	case 4: // a neighbour of an existing key (last byte +-1 or one byte appended): probes between bulk-loaded keys
		ks := md.keys()
		if len(ks) > 0 {
			k := []byte(ks[rapid.IntRange(0, len(ks)-1).Draw(rt, label+"NIdx")])
			switch rapid.IntRange(0, 2).Draw(rt, label+"NKind") {
			case 0:
				return append(k, alphabet[rapid.IntRange(0, len(alphabet)-1).Draw(rt, label+"NB")])
			case 1:
				if len(k) > 0 {
					k[len(k)-1]++
				}
			default:
				if len(k) > 0 {
					k[len(k)-1]--
				}
			}
			return k
		}
	}
	n := rapid.IntRange(0, 4).Draw(rt, label+"Len")
	k := make([]byte, n)
	for i := range k {
		k[i] = alphabet[rapid.IntRange(0, len(alphabet)-1).Draw(rt, label+"B")]
	}
	return k
}

func genAmt(rt *rapid.T, label string) *big.Int {
	switch rapid.IntRange(0, 5).Draw(rt, label+"Kind") {
	case 0:
		return big.NewInt(0)
	case 1:
		return big.NewInt(1)
	case 2:
		e := rapid.IntRange(0, 30).Draw(rt, label+"Exp")
		return new(big.Int).Exp(big.NewInt(10), big.NewInt(int64(e)), nil)
	default:
		return big.NewInt(rapid.Int64Range(0, 1_000_000_000_000).Draw(rt, label))
	}
}

// newStore: a cachekv store over an in-memory DB - the store flavour module code runs on inside a
// transaction (and, unlike the bare MemDB, one that tolerates deletes while an iterator is open).
func newStore() storetypes.KVStore {
	return cachekv.NewStore(dbadapter.Store{DB: dbm.NewMemDB()})
}

func toInt(b *big.Int) osmomath.Int { return osmomath.NewIntFromBigInt(new(big.Int).Set(b)) }

type rawNode struct {
	level uint16
	key   string
}

// audit reads the raw store and checks that every inner node's stored child accumulations equal the
// sums below them, children are sorted and exist one level down, and every entry below the top level
// is referenced exactly once.
func audit(store storetypes.KVStore) (levels map[uint16]int, err error) {
	levels = map[uint16]int{}
	type ent struct {
		children []*sumtree.Child
		leaf     *big.Int
	}
	all := map[rawNode]*ent{}
	it := store.Iterator(nil, nil)
	defer it.Close()
	for ; it.Valid(); it.Next() {
		k := it.Key()
		if !bytes.HasPrefix(k, []byte("node/")) || len(k) < 7 {
			return nil, fmt.Errorf("foreign key in store: %x", k)
		}
		lvl := binary.BigEndian.Uint16(k[5:7])
		key := string(k[7:])
		levels[lvl]++
		e := &ent{}
		if lvl == 0 {
			var l sumtree.Leaf
			if err := proto.Unmarshal(it.Value(), &l); err != nil {
				return nil, err
			}
			if l.Leaf == nil {
				return nil, fmt.Errorf("leaf %q without child record", key)
			}
			if string(l.Leaf.Index) != key {
				return nil, fmt.Errorf("leaf stored at %q has index %q", key, l.Leaf.Index)
			}
			e.leaf = l.Leaf.Accumulation.BigInt()
		} else {
			var n sumtree.Node
			if err := proto.Unmarshal(it.Value(), &n); err != nil {
				return nil, err
			}
			e.children = n.Children
		}
		all[rawNode{lvl, key}] = e
	}
	if len(all) == 0 {
		return levels, nil
	}
	var top uint16
	for l := range levels {
		if l > top {
			top = l
		}
	}
	if top > 0 && levels[top] != 1 {
		return nil, fmt.Errorf("top level %d has %d nodes", top, levels[top])
	}
	var total func(n rawNode) (*big.Int, error)
	total = func(n rawNode) (*big.Int, error) {
		e := all[n]
		if n.level == 0 {
			return e.leaf, nil
		}
		s := new(big.Int)
		for _, c := range e.children {
			s.Add(s, c.Accumulation.BigInt())
		}
		return s, nil
	}
	refs := map[rawNode]int{}
	for n, e := range all {
		if n.level == 0 {
			continue
		}
		if len(e.children) == 0 {
			return nil, fmt.Errorf("empty inner node L%d %q", n.level, n.key)
		}
		for i, c := range e.children {
			if i > 0 && bytes.Compare(e.children[i-1].Index, c.Index) >= 0 {
				return nil, fmt.Errorf("node L%d %q children not strictly sorted", n.level, n.key)
			}
			ch := rawNode{n.level - 1, string(c.Index)}
			if all[ch] == nil {
				return nil, fmt.Errorf("node L%d %q references missing child %q", n.level, n.key, c.Index)
			}
			refs[ch]++
			t, _ := total(ch)
			if t.Cmp(c.Accumulation.BigInt()) != 0 {
				return nil, fmt.Errorf("node L%d %q child %q stored accumulation %s but subtree sums to %s", n.level, n.key, c.Index, c.Accumulation, t)
			}
		}
	}
	for n := range all {
		if n.level == top {
			continue
		}
		if refs[n] != 1 {
			return nil, fmt.Errorf("entry L%d %q referenced %d times", n.level, n.key, refs[n])
		}
	}
	return levels, nil
}

// isIndexKey reports whether k is the key of a level-1 node, i.e. the first child that node was created with.
func isIndexKey(store storetypes.KVStore, k []byte) bool {
	bz := make([]byte, 7+len(k))
	copy(bz, "node/")
	binary.BigEndian.PutUint16(bz[5:], 1)
	copy(bz[7:], k)
	return store.Has(bz)
}

func cmpInt(rt *rapid.T, what string, got osmomath.Int, want *big.Int) {
	if got.BigInt().Cmp(want) != 0 {
		rt.Fatalf("%s: tree says %s, sorted map says %s", what, got, want)
	}
}

func checkQueries(rt *rapid.T, tree sumtree.Tree, md *model, nq int) {
	for q := 0; q < nq; q++ {
		k := genKey(rt, md, "q")
		ks := string(k)
		want := md.m[ks]
		if want == nil {
			want = new(big.Int)
		}
		cmpInt(rt, fmt.Sprintf("Get(%q)", k), tree.Get(k), want)
		cmpInt(rt, fmt.Sprintf("PrefixSum(%q)", k), tree.PrefixSum(k), md.sum(func(x string) bool { return x <= ks }))
		l, e, r := tree.SplitAcc(k)
		cmpInt(rt, fmt.Sprintf("SplitAcc(%q).left", k), l, md.sum(func(x string) bool { return x < ks }))
		cmpInt(rt, fmt.Sprintf("SplitAcc(%q).exact", k), e, want)
		cmpInt(rt, fmt.Sprintf("SplitAcc(%q).right", k), r, md.sum(func(x string) bool { return x > ks }))
		cmpInt(rt, fmt.Sprintf("SubsetAccumulation(%q,nil)", k), tree.SubsetAccumulation(k, nil), md.sum(func(x string) bool { return x >= ks }))
		cmpInt(rt, fmt.Sprintf("SubsetAccumulation(nil,%q)", k), tree.SubsetAccumulation(nil, k), md.sum(func(x string) bool { return x <= ks }))
		k2 := genKey(rt, md, "q2")
		lo, hi := ks, string(k2)
		if lo > hi {
			lo, hi = hi, lo
		}
		cmpInt(rt, fmt.Sprintf("SubsetAccumulation(%q,%q)", lo, hi), tree.SubsetAccumulation([]byte(lo), []byte(hi)), md.sum(func(x string) bool { return x >= lo && x <= hi }))
		// iteration over [lo,hi) and full, both directions
		checkIter(rt, tree, md, []byte(lo), []byte(hi))
	}
	cmpInt(rt, "TotalAccumulatedValue()", tree.TotalAccumulatedValue(), md.sum(func(string) bool { return true }))
	cmpInt(rt, "SubsetAccumulation(nil,nil)", tree.SubsetAccumulation(nil, nil), md.sum(func(string) bool { return true }))
	checkIter(rt, tree, md, nil, nil)
}

type kv struct {
	k string
	v string
}

func checkIter(rt *rapid.T, tree sumtree.Tree, md *model, lo, hi []byte) {
	var want []kv
	for _, k := range md.keys() {
		if (lo == nil || k >= string(lo)) && (hi == nil || k < string(hi)) {
			want = append(want, kv{k, md.m[k].String()})
		}
	}
	read := func(rev bool) []kv {
		var got []kv
		it := tree.Iterator(lo, hi)
		if rev {
			it = tree.ReverseIterator(lo, hi)
		}
		defer it.Close()
		for ; it.Valid(); it.Next() {
			var l sumtree.Leaf
			if err := proto.Unmarshal(it.Value(), &l); err != nil {
				rt.Fatalf("iterator value: %v", err)
			}
			got = append(got, kv{string(it.Key()[7:]), l.Leaf.Accumulation.String()})
		}
		return got
	}
	// the zero-valued empty key that NewTree seeds is not "contents"; ignore it on both sides
	strip := func(in []kv) []kv {
		out := in[:0:0]
		for _, e := range in {
			if e.k == "" && e.v == "0" {
				continue
			}
			out = append(out, e)
		}
		return out
	}
	fw := strip(read(false))
	w := strip(want)
	if fmt.Sprint(fw) != fmt.Sprint(w) {
		rt.Fatalf("Iterator(%q,%q): got %v want %v", lo, hi, fw, w)
	}
	bw := strip(read(true))
	for i, j := 0, len(bw)-1; i < j; i, j = i+1, j-1 {
		bw[i], bw[j] = bw[j], bw[i]
	}
	if fmt.Sprint(bw) != fmt.Sprint(w) {
		rt.Fatalf("ReverseIterator(%q,%q): got (reversed) %v want %v", lo, hi, bw, w)
	}
}

var fanouts = []uint8{2, 3, 4, 5, 8, 10, 16, 255, 254, 128, 32, 7}

func TestPropSumtree(t *testing.T) {
	drv.Check(t, drv.Cfg{Name: "sumtree-vs-sorted-map", Rule: rule, Quick: 1500, Thorough: 60000, Steps: 40, TSteps: 80}, func(rt *rapid.T, c *drv.Case) {
		m := fanouts[rapid.IntRange(0, len(fanouts)-1).Draw(rt, "fanoutIdx")]
		fresh := rapid.Bool().Draw(rt, "freshHandlePerOp")
		store := newStore()
		tree := sumtree.NewTree(store, m)
		md := &model{m: map[string]*big.Int{"": new(big.Int)}}
		var hist []string
		indexRemovalsSkipped := 0
		split, emptied, removed, bulk := false, false, false, false
		nodes := func() int {
			lv, err := audit(store)
			if err != nil {
				rt.Fatalf("structural audit: %v", err)
			}
			n := 0
			for l, cnt := range lv {
				if l >= 1 {
					n += cnt
				}
			}
			return n
		}
		before := nodes()
		step := func(name string) {
			hist = append(hist, name)
			after := nodes()
			if after > before {
				split = true
			}
			if after < before && strings.HasPrefix(name, "rm") {
				emptied = true
			}
			before = after
			checkQueries(rt, tree, md, 2)
		}
		handle := func() {
			// every production caller builds the handle anew (which re-seeds the empty key if absent)
			if fresh {
				tree = sumtree.NewTree(store, m)
				if _, ok := md.m[""]; !ok {
					md.m[""] = new(big.Int)
				}
			}
		}
		rt.Repeat(map[string]func(*rapid.T){
			"set": func(rt *rapid.T) {
				handle()
				k, v := genKey(rt, md, "k"), genAmt(rt, "v")
				if rapid.Bool().Draw(rt, "neg") {
					v = new(big.Int).Neg(v)
				}
				rt.Logf("OP set %q %s", k, v)
				tree.Set(k, toInt(v))
				md.m[string(k)] = v
				step(fmt.Sprintf("set %q %s", k, v))
			},
			"increase": func(rt *rapid.T) {
				handle()
				k, v := genKey(rt, md, "k"), genAmt(rt, "v")
				// signed amounts: the operations are defined as leaf += amt / leaf -= amt for an Int of either sign
				if rapid.IntRange(0, 2).Draw(rt, "negAmt") == 0 {
					v = new(big.Int).Neg(v)
				}
				rt.Logf("OP inc %q %s", k, v)
				tree.Increase(k, toInt(v))
				old := md.m[string(k)]
				if old == nil {
					old = new(big.Int)
				}
				md.m[string(k)] = new(big.Int).Add(old, v)
				step(fmt.Sprintf("inc %q %s", k, v))
			},
			"decrease": func(rt *rapid.T) {
				handle()
				k, v := genKey(rt, md, "k"), genAmt(rt, "v")
				// signed amounts: the operations are defined as leaf += amt / leaf -= amt for an Int of either sign
				if rapid.IntRange(0, 2).Draw(rt, "negAmt") == 0 {
					v = new(big.Int).Neg(v)
				}
				rt.Logf("OP dec %q %s", k, v)
				tree.Decrease(k, toInt(v))
				old := md.m[string(k)]
				if old == nil {
					old = new(big.Int)
				}
				md.m[string(k)] = new(big.Int).Sub(old, v)
				step(fmt.Sprintf("dec %q %s", k, v))
			},
			"remove": func(rt *rapid.T) {
				handle()
				k := genKey(rt, md, "k")
				if len(k) == 0 && !fresh {
					// a long-lived handle whose seeded empty key was removed is a handle no caller can hold
					// (every caller goes through NewTree, which re-seeds it)
					rt.Skip("remove of the anchor key on a long-lived handle")
				}
				if isIndexKey(store, k) && drv.Known("C16-remove-index-key") {
					// listed known finding: steer around exactly this removal, counted.
					indexRemovalsSkipped++
					rt.Skip("remove of a node's index key (known finding)")
				}
				rt.Logf("OP rm %q", k)
				tree.Remove(k)
				if _, ok := md.m[string(k)]; ok {
					removed = true
				}
				delete(md.m, string(k))
				if len(k) == 0 {
					// next handle() re-seeds; do it now so queries run on a handle a caller could hold
					tree = sumtree.NewTree(store, m)
					md.m[""] = new(big.Int)
				}
				step(fmt.Sprintf("rm %q", k))
			},
			// bulk load: enough distinct keys to overflow nodes of the large fan-outs (255 needs 255 distinct keys before its
			// first split; the four-letter alphabet above offers 341 keys in total and a history of tens of steps never gets there)
			"bulk": func(rt *rapid.T) {
				if rapid.IntRange(0, 3).Draw(rt, "bulkGate") != 0 {
					rt.Skip("bulk loads in a quarter of the draws")
				}
				handle()
				n := []int{int(m) / 2, int(m), int(m) + 1, 2 * int(m), 3*int(m) + 1}[rapid.IntRange(0, 4).Draw(rt, "bulkSize")]
				if n < 2 {
					n = 2
				}
				if n > 700 {
					n = 700
				}
				start := rapid.IntRange(0, 65535).Draw(rt, "bulkStart")
				stride := 2*rapid.IntRange(0, 5000).Draw(rt, "bulkStride") + 1
				if rapid.Bool().Draw(rt, "bulkDescending") {
					stride = 65536 - stride
				}
				useInc := rapid.Bool().Draw(rt, "bulkIncrease")
				v := genAmt(rt, "bulkV")
				for i := 0; i < n; i++ {
					x := (start + i*stride) % 65536
					k := []byte{byte(x >> 8), byte(x)}
					amt := new(big.Int).Add(v, big.NewInt(int64(i)))
					if useInc {
						tree.Increase(k, toInt(amt))
						old := md.m[string(k)]
						if old == nil {
							old = new(big.Int)
						}
						md.m[string(k)] = new(big.Int).Add(old, amt)
					} else {
						tree.Set(k, toInt(amt))
						md.m[string(k)] = amt
					}
				}
				bulk = true
				step(fmt.Sprintf("bulk n=%d start=%d stride=%d inc=%v v=%s", n, start, stride, useInc, v))
			},
			"clear": func(rt *rapid.T) {
				if rapid.IntRange(0, 9).Draw(rt, "clearGate") != 0 {
					rt.Skip("rare")
				}
				rt.Logf("OP clear")
				tree.Clear()
				md.m = map[string]*big.Int{}
				tree = sumtree.NewTree(store, m)
				md.m[""] = new(big.Int)
				before = nodes()
				step("clear")
			},
		})
		c.Class(fmt.Sprintf("fanout=%d", m))
		for i := 0; i < indexRemovalsSkipped; i++ {
			c.Exclude("C16-remove-index-key")
		}
		if split {
			c.Class("split")
			if m >= 128 {
				c.Class("split-at-fanout>=128")
			}
		}
		if bulk {
			c.Class("bulk-load")
		}
		if emptied {
			c.Class("node-emptied")
		}
		if split && (emptied || removed) {
			c.NonTrivial(fmt.Sprintf("m=%d|%s", m, strings.Join(hist, ";")))
			c.Samplef("fanout=%d fresh=%v ops=[%s]", m, fresh, strings.Join(hist, "; "))
		}
	})
}

// TestKnown_C16_remove_index_key reproduces the listed finding on the smallest tree: with fan-out 2,
// set a, b, ba (b becomes the index key of the second node), remove b, then split at b.
func TestKnown_C16_remove_index_key(t *testing.T) {
	bad := func() (bad bool) {
		defer func() {
			if r := recover(); r != nil {
				bad = true
			}
		}()
		store := newStore()
		tr := sumtree.NewTree(store, 2)
		tr.Set([]byte("a"), osmomath.NewInt(1))
		tr.Set([]byte("b"), osmomath.NewInt(2))
		tr.Set([]byte("ba"), osmomath.NewInt(4))
		tr.Remove([]byte("b"))
		l, e, r := tr.SplitAcc([]byte("b"))
		return !(l.Int64() == 1 && e.Int64() == 0 && r.Int64() == 4)
	}()
	if bad {
		drv.Reproduced(t, "C16-remove-index-key")
	}
}

// TestRegress_C16_total: fixed finding C16-total must stay fixed.
func TestRegress_C16_total(t *testing.T) {
	store := newStore()
	tr := sumtree.NewTree(store, 10)
	tr.Set([]byte("a"), osmomath.NewInt(5))
	tr.Set([]byte{}, osmomath.NewInt(2))
	if got := tr.TotalAccumulatedValue(); got.Int64() != 7 {
		t.Fatalf("TotalAccumulatedValue = %s, want 7", got)
	}
	if got := tr.SubsetAccumulation(nil, nil); got.Int64() != 7 {
		t.Fatalf("SubsetAccumulation(nil,nil) = %s, want 7", got)
	}
}

const rmRule = "load phase (distinct keys - two-byte arithmetic progressions, or word families over a 2-3 letter alphabet in which keys are proper prefixes of one another, loaded ascending or in a generated order; fan-out in {2..8,10,16,32}) followed by a removal phase in a generated order that includes the index keys of nodes (nodes empty, siblings merge, levels collapse); no insertion after the first removal and queries only at keys that are present, which is the part of the behaviour the listed finding C16-remove-index-key does not touch; oracle after every removal: total, Get / PrefixSum / SplitAcc at every present key, SubsetAccumulation between present keys and ordered iteration equal the sorted map; non-trivial = a removal emptied a node; distinct by (fan-out, keys, order) hash"

// TestPropSumtreeRemovals covers what TestPropSumtree steers around while C16-remove-index-key is listed: removals of
// index keys. After such a removal the tree routes ABSENT keys wrongly (the listed finding); sums over PRESENT keys must
// still be right, through every node that empties and every sibling merge.
func TestPropSumtreeRemovals(t *testing.T) {
	drv.Check(t, drv.Cfg{Name: "sumtree-removal-phase", Rule: rmRule, Quick: 600, Thorough: 30000}, func(rt *rapid.T, c *drv.Case) {
		m := []uint8{2, 3, 4, 5, 6, 7, 8, 10, 16, 32}[rapid.IntRange(0, 9).Draw(rt, "fanoutIdx")]
		store := newStore()
		tree := sumtree.NewTree(store, m)
		md := &model{m: map[string]*big.Int{"": new(big.Int)}}
		n := rapid.IntRange(4, 6*int(m)+8).Draw(rt, "keys")
		stride := 2*rapid.IntRange(0, 400).Draw(rt, "stride") + 1
		start := rapid.IntRange(0, 65535).Draw(rt, "start")
		var keys []string
		load := func(k []byte) {
			v := big.NewInt(rapid.Int64Range(-1000, 1_000_000).Draw(rt, "v"))
			tree.Set(k, toInt(v))
			if _, dup := md.m[string(k)]; !dup {
				keys = append(keys, string(k))
			}
			md.m[string(k)] = v
		}
		if rapid.Bool().Draw(rt, "prefixFamilyKeys") {
			// variable-length keys that are prefixes of one another (all words over a two- or three-letter alphabet up to a
			// length): node keys then are proper prefixes of their right neighbours' keys
			alpha := []byte("ab")
			if rapid.Bool().Draw(rt, "threeLetters") {
				alpha = []byte("abc")
			}
			var words [][]byte
			var grow func(prefix []byte, depth int)
			grow = func(prefix []byte, depth int) {
				if depth == 0 || len(words) >= n {
					return
				}
				for _, ch := range alpha {
					w := append(append([]byte{}, prefix...), ch)
					words = append(words, w)
					grow(w, depth-1)
				}
			}
			grow(nil, rapid.IntRange(2, 6).Draw(rt, "maxLen"))
			if rapid.Bool().Draw(rt, "ascendingLoad") {
				sort.Slice(words, func(i, j int) bool { return bytes.Compare(words[i], words[j]) < 0 })
			} else {
				words = rapid.Permutation(words).Draw(rt, "loadOrder")
			}
			for _, w := range words {
				load(w)
			}
			c.Class("prefix-family-keys")
		} else {
			for i := 0; i < n; i++ {
				x := (start + i*stride) % 65536
				load([]byte{byte(x >> 8), byte(x)})
			}
		}
		nodesBefore := func() int {
			lv, err := audit(store)
			if err != nil {
				rt.Fatalf("structural audit after the load phase: %v", err)
			}
			s := 0
			for l, cnt := range lv {
				if l >= 1 {
					s += cnt
				}
			}
			return s
		}()
		order := rapid.Permutation(keys).Draw(rt, "removalOrder")
		nrm := rapid.IntRange(1, len(order)).Draw(rt, "removals")
		emptied := false
		var hist []string
		for _, k := range order[:nrm] {
			tree.Remove([]byte(k))
			delete(md.m, k)
			hist = append(hist, fmt.Sprintf("%x", k))
			present := md.keys()
			cmpInt(rt, fmt.Sprintf("after removing %x: TotalAccumulatedValue()", k), tree.TotalAccumulatedValue(), md.sum(func(string) bool { return true }))
			for i, p := range present {
				pb := []byte(p)
				cmpInt(rt, fmt.Sprintf("after removing %x: Get(%x)", k, p), tree.Get(pb), md.m[p])
				cmpInt(rt, fmt.Sprintf("after removing %x: PrefixSum(%x)", k, p), tree.PrefixSum(pb), md.sum(func(x string) bool { return x <= p }))
				l, e, r := tree.SplitAcc(pb)
				cmpInt(rt, fmt.Sprintf("after removing %x: SplitAcc(%x).left", k, p), l, md.sum(func(x string) bool { return x < p }))
				cmpInt(rt, fmt.Sprintf("after removing %x: SplitAcc(%x).exact", k, p), e, md.m[p])
				cmpInt(rt, fmt.Sprintf("after removing %x: SplitAcc(%x).right", k, p), r, md.sum(func(x string) bool { return x > p }))
				if i%3 == 0 {
					q := present[(i*7+3)%len(present)]
					lo, hi := p, q
					if lo > hi {
						lo, hi = hi, lo
					}
					cmpInt(rt, fmt.Sprintf("after removing %x: SubsetAccumulation(%x,%x)", k, lo, hi), tree.SubsetAccumulation([]byte(lo), []byte(hi)), md.sum(func(x string) bool { return x >= lo && x <= hi }))
				}
			}
			checkIter(rt, tree, md, nil, nil)
		}
		it := store.Iterator(nil, nil)
		nodesAfter := 0
		for ; it.Valid(); it.Next() {
			if k := it.Key(); len(k) >= 7 && binary.BigEndian.Uint16(k[5:7]) >= 1 {
				nodesAfter++
			}
		}
		it.Close()
		if nodesAfter < nodesBefore {
			emptied = true
			c.Class("node-emptied")
		}
		c.Class(fmt.Sprintf("fanout=%d", m))
		if emptied {
			c.NonTrivial(fmt.Sprintf("m=%d|%d|%d|%d|%s", m, n, start, stride, strings.Join(hist, ",")))
			c.Samplef("fanout=%d keys=%d removed=[%s]", m, n, strings.Join(hist, " "))
		}
	})
}

// TestRegress_C16_merge_sum: fixed finding C16-merge-drops-right-sum must stay fixed (fan-out 4, 16 keys, the removal
// that empties a node whose two siblings are then merged).
func TestRegress_C16_merge_sum(t *testing.T) {
	for _, m := range []uint8{3, 4, 5, 6} {
		store := newStore()
		tr := sumtree.NewTree(store, m)
		want := int64(0)
		var keys [][]byte
		for i := 0; i < 30; i++ {
			k := []byte(fmt.Sprintf("k%02d", i))
			keys = append(keys, k)
			tr.Set(k, osmomath.NewInt(int64(i+1)))
			want += int64(i + 1)
		}
		// remove every second block of keys so that inner nodes empty between surviving siblings
		for i := 0; i < 30; i++ {
			if (i/int(m))%2 == 1 {
				tr.Remove(keys[i])
				want -= int64(i + 1)
				if got := tr.TotalAccumulatedValue(); got.Int64() != want {
					t.Fatalf("fan-out %d: after removing %s TotalAccumulatedValue = %s, the remaining leaves sum to %d", m, keys[i], got, want)
				}
			}
		}
	}
}
