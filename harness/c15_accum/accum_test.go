package c15

import (
	"fmt"
	"math/big"
	"sort"
	"strings"
	"testing"

	"cosmossdk.io/store/cachekv"
	"cosmossdk.io/store/dbadapter"
	storetypes "cosmossdk.io/store/types"
	dbm "github.com/cosmos/cosmos-db"
	sdk "github.com/cosmos/cosmos-sdk/types"
	"pgregory.net/rapid"

	"github.com/osmosis-labs/osmosis/osmomath"
	"github.com/osmosis-labs/osmosis/osmoutils/accum"

	"verif/harness/drv"
)

func TestMain(m *testing.M) { drv.Main(m) }

const rule = "state machine on one accumulator (fresh handle per op or one long-lived handle): grow (1-3 denoms, 18-decimal, boundary amounts), new/add/remove/update position (plain and interval-snapshot forms), set interval, add unclaimed, claim, delete, and the documented error cases; oracle: exact big.Rat model {value, total, positions{shares, snapshot, unclaimed}} plus - when only the plain API is used - an independent ledger summing growth x shares held; checked after every step; non-trivial = some position changed shares >= 2 times with growth in between and was claimed afterwards; distinct by op-history hash"

var denoms = []string{"aaa", "bbb", "ccc"}

var e18 = new(big.Int).Exp(big.NewInt(10), big.NewInt(18), nil)

type coinsR map[string]*big.Rat

func (c coinsR) get(d string) *big.Rat {
	if v, ok := c[d]; ok {
		return v
	}
	return new(big.Rat)
}

func (c coinsR) clone() coinsR {
	o := coinsR{}
	for k, v := range c {
		o[k] = new(big.Rat).Set(v)
	}
	return o
}

type mpos struct {
	shares    *big.Rat
	snap      coinsR
	unclaimed coinsR
	nround    int // multiplications whose rounding was persisted into unclaimed
	ledger    coinsR
	changes   int // share changes with growth in between
	grewSince bool
}

type model struct {
	value coinsR
	total *big.Rat
	pos   map[string]*mpos
}

func decRat(d osmomath.Dec) *big.Rat { return new(big.Rat).SetFrac(d.BigInt(), e18) }

func decCoinsR(dc sdk.DecCoins) coinsR {
	o := coinsR{}
	for _, c := range dc {
		o[c.Denom] = decRat(c.Amount)
	}
	return o
}

func ratDec(r *big.Rat) osmomath.Dec {
	n := new(big.Int).Mul(r.Num(), e18)
	if new(big.Int).Rem(n, r.Denom()).Sign() != 0 {
		panic("not an 18-decimal value")
	}
	return osmomath.NewDecFromBigIntWithPrec(n.Quo(n, r.Denom()), 18)
}

// rawDecCoins builds sorted DecCoins without validation (negative interval snapshots are documented as allowed).
func rawDecCoins(c coinsR) sdk.DecCoins {
	out := sdk.DecCoins{}
	ks := make([]string, 0, len(c))
	for k := range c {
		ks = append(ks, k)
	}
	sort.Strings(ks)
	for _, k := range ks {
		if c[k].Sign() != 0 {
			out = append(out, sdk.DecCoin{Denom: k, Amount: ratDec(c[k])})
		}
	}
	return out
}

func genDec(rt *rapid.T, label string, allowZero bool) *big.Rat {
	var n *big.Int
	switch rapid.IntRange(0, 6).Draw(rt, label+"Shape") {
	case 0:
		n = big.NewInt(1) // one ulp
	case 1:
		n = new(big.Int).Set(e18)
	case 2:
		n = new(big.Int).Exp(big.NewInt(10), big.NewInt(int64(rapid.IntRange(0, 45).Draw(rt, label+"Exp"))), nil)
	case 3:
		n = big.NewInt(rapid.Int64Range(1, 999_999_999_999_999_999).Draw(rt, label+"Frac"))
	case 4:
		n = new(big.Int).Mul(big.NewInt(rapid.Int64Range(1, 1_000_000).Draw(rt, label+"Whole")), e18)
	default:
		n = new(big.Int).Mul(big.NewInt(rapid.Int64Range(1, 1<<62).Draw(rt, label+"A")), big.NewInt(rapid.Int64Range(1, 1<<40).Draw(rt, label+"B")))
	}
	if allowZero && rapid.IntRange(0, 9).Draw(rt, label+"Zero") == 0 {
		n = new(big.Int)
	}
	return new(big.Rat).SetFrac(n, e18)
}

func storeDigest(s storetypes.KVStore, skipKey []byte) string {
	var sb strings.Builder
	it := s.Iterator(nil, nil)
	defer it.Close()
	for ; it.Valid(); it.Next() {
		if skipKey != nil && string(it.Key()) == string(skipKey) {
			continue
		}
		fmt.Fprintf(&sb, "%x=%x;", it.Key(), it.Value())
	}
	return sb.String()
}

func floorRat(r *big.Rat) *big.Int {
	q := new(big.Int)
	m := new(big.Int)
	q.DivMod(r.Num(), r.Denom(), m)
	return q
}

var ulp = big.NewRat(1, 1_000_000_000_000_000_000)

func TestPropAccum(t *testing.T) {
	drv.Check(t, drv.Cfg{Name: "accum-vs-exact-model", Rule: rule, Quick: 2500, Thorough: 150000, Steps: 40, TSteps: 80}, func(rt *rapid.T, c *drv.Case) {
		store := storetypes.KVStore(cachekv.NewStore(dbadapter.Store{DB: dbm.NewMemDB()}))
		const accName = "acc"
		if err := accum.MakeAccumulator(store, accName); err != nil {
			rt.Fatalf("MakeAccumulator: %v", err)
		}
		fresh := rapid.Bool().Draw(rt, "freshHandlePerOp")
		plainOnly := rapid.Bool().Draw(rt, "plainApiOnly")
		acc, _ := accum.GetAccumulator(store, accName)
		md := &model{value: coinsR{}, total: new(big.Rat), pos: map[string]*mpos{}}
		// names that are prefixes of one another, as the decimal position ids the concentrated-liquidity module uses are
		// ("1" vs "10", "12", "100"): a record must be addressed by its exact name
		names := []string{"1", "10", "12", "100", "2", "p", "p0"}
		var hist []string
		nontrivial := false
		handle := func() {
			if fresh {
				var err error
				acc, err = accum.GetAccumulator(store, accName)
				if err != nil {
					rt.Fatalf("GetAccumulator: %v", err)
				}
			}
		}
		live := func() []string {
			var l []string
			for _, n := range names {
				if md.pos[n] != nil {
					l = append(l, n)
				}
			}
			return l
		}
		pick := func(rt *rapid.T, wantLive bool) string {
			var l []string
			if wantLive {
				l = live()
			} else {
				for _, n := range names {
					if md.pos[n] == nil {
						l = append(l, n)
					}
				}
			}
			if len(l) == 0 {
				rt.Skip("no such position")
			}
			return l[rapid.IntRange(0, len(l)-1).Draw(rt, "posIdx")]
		}
		// model: settle p's accrued rewards into unclaimed (exactly), then set snapshot
		settle := func(p *mpos, snap coinsR) {
			for _, d := range denoms {
				g := new(big.Rat).Sub(md.value.get(d), p.snap.get(d))
				g.Mul(g, p.shares)
				if g.Sign() != 0 {
					p.unclaimed[d] = new(big.Rat).Add(p.unclaimed.get(d), g)
				}
			}
			p.nround++
			p.snap = snap.clone()
		}
		claimable := func(p *mpos) coinsR {
			o := coinsR{}
			for _, d := range denoms {
				g := new(big.Rat).Sub(md.value.get(d), p.snap.get(d))
				g.Mul(g, p.shares)
				o[d] = g.Add(g, p.unclaimed.get(d))
			}
			return o
		}
		// snapshot generator for the interval forms: between the position's old snapshot and the value
		genSnap := func(rt *rapid.T, old coinsR, allowNeg bool) coinsR {
			o := coinsR{}
			for _, d := range denoms {
				lo, hi := old.get(d), md.value.get(d)
				switch rapid.IntRange(0, 3).Draw(rt, "snapKind"+d) {
				case 0:
					o[d] = new(big.Rat).Set(hi)
				case 1:
					o[d] = new(big.Rat).Set(lo)
				default:
					// lo + k/16*(hi-lo), kept on the 18-decimal grid by flooring
					k := int64(rapid.IntRange(0, 16).Draw(rt, "snapK"+d))
					x := new(big.Rat).Sub(hi, lo)
					x.Mul(x, big.NewRat(k, 16))
					x.Add(x, lo)
					fl := floorRat(new(big.Rat).Mul(x, new(big.Rat).SetInt(e18)))
					o[d] = new(big.Rat).SetFrac(fl, e18)
					if o[d].Cmp(lo) < 0 {
						o[d] = new(big.Rat).Set(lo)
					}
				}
				if allowNeg && rapid.IntRange(0, 7).Draw(rt, "snapNeg"+d) == 0 {
					o[d] = new(big.Rat).Neg(genDec(rt, "snapNegAmt"+d, false))
				}
			}
			return o
		}
		expectErrNoEffect := func(what string, f func() error) {
			before := storeDigest(store, nil)
			err := f()
			if err == nil {
				rt.Fatalf("%s: expected an error, got success", what)
			}
			if storeDigest(store, nil) != before {
				rt.Fatalf("%s: failed (%v) but changed the store", what, err)
			}
		}
		check := func() {
			fr, err := accum.GetAccumulator(store, accName)
			if err != nil {
				rt.Fatalf("GetAccumulator: %v", err)
			}
			sum := new(big.Rat)
			for _, p := range md.pos {
				sum.Add(sum, p.shares)
			}
			if decRat(fr.GetTotalShares()).Cmp(sum) != 0 {
				rt.Fatalf("total shares: accumulator says %s, sum of position shares is %s", fr.GetTotalShares(), sum.FloatString(18))
			}
			if sum.Cmp(md.total) != 0 {
				rt.Fatalf("harness model inconsistent")
			}
			gv := decCoinsR(fr.GetValue())
			for _, d := range denoms {
				if gv.get(d).Cmp(md.value.get(d)) != 0 {
					rt.Fatalf("accumulator value[%s] = %s, model %s", d, gv.get(d).FloatString(18), md.value.get(d).FloatString(18))
				}
			}
			for _, n := range names {
				p := md.pos[n]
				if p == nil {
					if fr.HasPosition(n) {
						rt.Fatalf("position %s should not exist", n)
					}
					if _, err := fr.GetPosition(n); err == nil {
						rt.Fatalf("GetPosition(%s) of a removed/never created position succeeded", n)
					}
					continue
				}
				if !fr.HasPosition(n) {
					rt.Fatalf("position %s vanished", n)
				}
				sz, err := fr.GetPositionSize(n)
				if err != nil || decRat(sz).Cmp(p.shares) != 0 {
					rt.Fatalf("position %s size %v (err %v), model %s", n, sz, err, p.shares.FloatString(18))
				}
				rec, _ := fr.GetPosition(n)
				got := decCoinsR(accum.GetTotalRewards(fr, rec))
				want := claimable(p)
				tol := new(big.Rat).Mul(ulp, big.NewRat(int64(p.nround+1), 1))
				for _, d := range denoms {
					diff := new(big.Rat).Sub(got.get(d), want[d])
					if diff.Abs(diff).Cmp(tol) > 0 {
						rt.Fatalf("position %s claimable[%s]: implementation %s, exact model %s (tolerance %s after %d persisted roundings)", n, d, got.get(d).FloatString(18), want[d].FloatString(24), tol.FloatString(18), p.nround)
					}
					if plainOnly && want[d].Cmp(p.ledger.get(d)) != 0 {
						rt.Fatalf("harness self-check: model %s != growth x shares ledger %s for %s/%s", want[d].FloatString(24), p.ledger.get(d).FloatString(24), n, d)
					}
				}
			}
		}
		noteChange := func(p *mpos) {
			if p.grewSince {
				p.changes++
				p.grewSince = false
			}
		}
		rt.Repeat(map[string]func(*rapid.T){
			"grow": func(rt *rapid.T) {
				handle()
				amt := coinsR{}
				nd := rapid.IntRange(1, 3).Draw(rt, "nDenoms")
				for i := 0; i < nd; i++ {
					d := denoms[rapid.IntRange(0, 2).Draw(rt, "denom")]
					amt[d] = genDec(rt, "amt", true)
				}
				acc.AddToAccumulator(rawDecCoins(amt))
				for d, a := range amt {
					md.value[d] = new(big.Rat).Add(md.value.get(d), a)
					for _, p := range md.pos {
						if a.Sign() > 0 && p.shares.Sign() > 0 {
							p.ledger[d] = new(big.Rat).Add(p.ledger.get(d), new(big.Rat).Mul(a, p.shares))
							p.grewSince = true
						}
					}
				}
				hist = append(hist, fmt.Sprintf("grow %v", rawDecCoins(amt)))
			},
			"new": func(rt *rapid.T) {
				handle()
				n := pick(rt, false)
				sh := genDec(rt, "shares", false)
				p := &mpos{shares: sh, unclaimed: coinsR{}, ledger: coinsR{}}
				if plainOnly || rapid.Bool().Draw(rt, "plainNew") {
					if err := acc.NewPosition(n, ratDec(sh), nil); err != nil {
						rt.Fatalf("NewPosition: %v", err)
					}
					p.snap = md.value.clone()
					hist = append(hist, fmt.Sprintf("new %s %s", n, sh.FloatString(18)))
				} else {
					snap := genSnap(rt, coinsR{}, true)
					if err := acc.NewPositionIntervalAccumulation(n, ratDec(sh), rawDecCoins(snap), nil); err != nil {
						rt.Fatalf("NewPositionIntervalAccumulation: %v", err)
					}
					p.snap = snap
					hist = append(hist, fmt.Sprintf("newI %s %s snap=%v", n, sh.FloatString(18), rawDecCoins(snap)))
				}
				md.pos[n] = p
				md.total = new(big.Rat).Add(md.total, sh)
			},
			"add": func(rt *rapid.T) {
				handle()
				n := pick(rt, true)
				p := md.pos[n]
				sh := genDec(rt, "shares", false)
				form := rapid.IntRange(0, 3).Draw(rt, "form")
				snap := md.value
				var err error
				switch {
				case plainOnly || form == 0:
					err = acc.AddToPosition(n, ratDec(sh))
				case form == 1:
					err = acc.UpdatePosition(n, ratDec(sh))
				case form == 2:
					snap = genSnap(rt, p.snap, false)
					err = acc.AddToPositionIntervalAccumulation(n, ratDec(sh), rawDecCoins(snap))
				default:
					snap = genSnap(rt, p.snap, false)
					err = acc.UpdatePositionIntervalAccumulation(n, ratDec(sh), rawDecCoins(snap))
				}
				if err != nil {
					rt.Fatalf("add to %s: %v", n, err)
				}
				settle(p, snap)
				p.shares = new(big.Rat).Add(p.shares, sh)
				md.total = new(big.Rat).Add(md.total, sh)
				noteChange(p)
				hist = append(hist, fmt.Sprintf("add/%d %s %s", form, n, sh.FloatString(18)))
			},
			"remove": func(rt *rapid.T) {
				handle()
				n := pick(rt, true)
				p := md.pos[n]
				if p.shares.Sign() == 0 {
					rt.Skip("no shares")
				}
				var sh *big.Rat
				switch rapid.IntRange(0, 3).Draw(rt, "rmKind") {
				case 0:
					sh = new(big.Rat).Set(p.shares) // everything
				case 1:
					sh = new(big.Rat).Sub(p.shares, ulp) // all but one ulp
					if sh.Sign() <= 0 {
						sh = new(big.Rat).Set(p.shares)
					}
				default:
					k := int64(rapid.IntRange(1, 15).Draw(rt, "rmK"))
					x := new(big.Rat).Mul(p.shares, big.NewRat(k, 16))
					fl := floorRat(new(big.Rat).Mul(x, new(big.Rat).SetInt(e18)))
					sh = new(big.Rat).SetFrac(fl, e18)
					if sh.Sign() <= 0 {
						sh = new(big.Rat).Set(p.shares)
					}
				}
				form := rapid.IntRange(0, 3).Draw(rt, "form")
				snap := md.value
				var err error
				switch {
				case plainOnly || form == 0:
					err = acc.RemoveFromPosition(n, ratDec(sh))
				case form == 1:
					err = acc.UpdatePosition(n, ratDec(sh).Neg())
				case form == 2:
					snap = genSnap(rt, p.snap, false)
					err = acc.RemoveFromPositionIntervalAccumulation(n, ratDec(sh), rawDecCoins(snap))
				default:
					snap = genSnap(rt, p.snap, false)
					err = acc.UpdatePositionIntervalAccumulation(n, ratDec(sh).Neg(), rawDecCoins(snap))
				}
				if err != nil {
					rt.Fatalf("remove from %s: %v", n, err)
				}
				settle(p, snap)
				p.shares = new(big.Rat).Sub(p.shares, sh)
				md.total = new(big.Rat).Sub(md.total, sh)
				noteChange(p)
				hist = append(hist, fmt.Sprintf("rm/%d %s %s", form, n, sh.FloatString(18)))
			},
			"setInterval": func(rt *rapid.T) {
				if plainOnly {
					rt.Skip("plain API only")
				}
				handle()
				n := pick(rt, true)
				p := md.pos[n]
				snap := genSnap(rt, p.snap, false)
				if err := acc.SetPositionIntervalAccumulation(n, rawDecCoins(snap)); err != nil {
					rt.Fatalf("SetPositionIntervalAccumulation: %v", err)
				}
				p.snap = snap
				hist = append(hist, fmt.Sprintf("setI %s %v", n, rawDecCoins(snap)))
			},
			"addUnclaimed": func(rt *rapid.T) {
				if plainOnly {
					rt.Skip("plain API only")
				}
				handle()
				n := pick(rt, true)
				p := md.pos[n]
				amt := coinsR{denoms[rapid.IntRange(0, 2).Draw(rt, "denom")]: genDec(rt, "amt", true)}
				if err := acc.AddToUnclaimedRewards(n, rawDecCoins(amt)); err != nil {
					rt.Fatalf("AddToUnclaimedRewards: %v", err)
				}
				for d, a := range amt {
					p.unclaimed[d] = new(big.Rat).Add(p.unclaimed.get(d), a)
				}
				hist = append(hist, fmt.Sprintf("addU %s %v", n, rawDecCoins(amt)))
			},
			"claim": func(rt *rapid.T) {
				handle()
				n := pick(rt, true)
				p := md.pos[n]
				rec, _ := acc.GetPosition(n)
				implTotal := decCoinsR(accum.GetTotalRewards(acc, rec))
				others := storeDigest(store, accum.FormatPositionPrefixKey(accName, n))
				coins, dust, err := acc.ClaimRewards(n)
				if err != nil {
					rt.Fatalf("ClaimRewards(%s): %v", n, err)
				}
				if storeDigest(store, accum.FormatPositionPrefixKey(accName, n)) != others {
					rt.Fatalf("ClaimRewards(%s) changed a record other than the claimer's", n)
				}
				want := claimable(p)
				tol := new(big.Rat).Mul(ulp, big.NewRat(int64(p.nround+1), 1))
				dustR := decCoinsR(dust)
				for _, d := range denoms {
					got := coins.AmountOf(d).BigInt()
					if got.Cmp(floorRat(implTotal.get(d))) != 0 {
						rt.Fatalf("claim %s[%s]: paid %s, integer part of %s expected", n, d, got, implTotal.get(d).FloatString(18))
					}
					back := new(big.Rat).Add(new(big.Rat).SetInt(got), dustR.get(d))
					if back.Cmp(implTotal.get(d)) != 0 {
						rt.Fatalf("claim %s[%s]: coins %s + dust %s != total %s", n, d, got, dustR.get(d).FloatString(18), implTotal.get(d).FloatString(18))
					}
					lo, hi := floorRat(new(big.Rat).Sub(want[d], tol)), floorRat(new(big.Rat).Add(want[d], tol))
					if got.Cmp(lo) < 0 || got.Cmp(hi) > 0 {
						rt.Fatalf("claim %s[%s]: paid %s but growth x shares held is %s (tolerance %s)", n, d, got, want[d].FloatString(24), tol.FloatString(18))
					}
				}
				if p.changes >= 2 {
					nontrivial = true
				}
				if p.shares.Sign() == 0 {
					delete(md.pos, n) // claimed with no shares: disappears
				} else {
					p.unclaimed = coinsR{}
					p.ledger = coinsR{}
					p.snap = md.value.clone()
					p.nround = 0
				}
				hist = append(hist, fmt.Sprintf("claim %s -> %s", n, coins))
			},
			"delete": func(rt *rapid.T) {
				handle()
				n := pick(rt, true)
				p := md.pos[n]
				rec, _ := acc.GetPosition(n)
				implTotal := decCoinsR(accum.GetTotalRewards(acc, rec))
				got, err := acc.DeletePosition(n)
				if err != nil {
					rt.Fatalf("DeletePosition(%s): %v", n, err)
				}
				gr := decCoinsR(got)
				for _, d := range denoms {
					if gr.get(d).Cmp(implTotal.get(d)) != 0 {
						rt.Fatalf("DeletePosition(%s)[%s] returned %s, position held %s", n, d, gr.get(d).FloatString(18), implTotal.get(d).FloatString(18))
					}
				}
				md.total = new(big.Rat).Sub(md.total, p.shares)
				delete(md.pos, n)
				hist = append(hist, "delete "+n)
			},
			"errors": func(rt *rapid.T) {
				handle()
				unknown := "nobody"
				zero, neg := osmomath.ZeroDec(), osmomath.NewDec(-1)
				one := osmomath.OneDec()
				switch rapid.IntRange(0, 9).Draw(rt, "errKind") {
				case 0:
					expectErrNoEffect("AddToPosition(unknown)", func() error { return acc.AddToPosition(unknown, one) })
				case 1:
					expectErrNoEffect("RemoveFromPosition(unknown)", func() error { return acc.RemoveFromPosition(unknown, one) })
				case 2:
					expectErrNoEffect("UpdatePosition(unknown)", func() error { return acc.UpdatePosition(unknown, one) })
				case 3:
					expectErrNoEffect("ClaimRewards(unknown)", func() error { _, _, err := acc.ClaimRewards(unknown); return err })
				case 4:
					expectErrNoEffect("DeletePosition(unknown)", func() error { _, err := acc.DeletePosition(unknown); return err })
				case 5:
					expectErrNoEffect("SetPositionIntervalAccumulation(unknown)", func() error { return acc.SetPositionIntervalAccumulation(unknown, rawDecCoins(md.value)) })
				case 6:
					expectErrNoEffect("AddToUnclaimedRewards(unknown)", func() error { return acc.AddToUnclaimedRewards(unknown, sdk.DecCoins{}) })
				default:
					n := pick(rt, true)
					p := md.pos[n]
					switch rapid.IntRange(0, 6).Draw(rt, "errKind2") {
					case 0:
						expectErrNoEffect("AddToPosition(zero)", func() error { return acc.AddToPosition(n, zero) })
					case 1:
						expectErrNoEffect("AddToPosition(negative)", func() error { return acc.AddToPosition(n, neg) })
					case 2:
						expectErrNoEffect("RemoveFromPosition(zero)", func() error { return acc.RemoveFromPosition(n, zero) })
					case 3:
						expectErrNoEffect("RemoveFromPosition(negative)", func() error { return acc.RemoveFromPosition(n, neg) })
					case 4:
						expectErrNoEffect("UpdatePosition(zero)", func() error { return acc.UpdatePosition(n, zero) })
					case 5:
						more := ratDec(new(big.Rat).Add(p.shares, ulp))
						expectErrNoEffect("RemoveFromPosition(more than held)", func() error { return acc.RemoveFromPosition(n, more) })
					default:
						bad := sdk.DecCoins{sdk.DecCoin{Denom: "aaa", Amount: neg}}
						expectErrNoEffect("AddToUnclaimedRewards(negative)", func() error { return acc.AddToUnclaimedRewards(n, bad) })
					}
				}
				c.Class("error-case")
			},
			"": func(rt *rapid.T) { check() },
		})
		if fresh {
			c.Class("fresh-handle")
		} else {
			c.Class("long-lived-handle")
		}
		if plainOnly {
			c.Class("plain-api")
		} else {
			c.Class("interval-api")
		}
		if nontrivial {
			c.NonTrivial(strings.Join(hist, ";"))
			s := strings.Join(hist, "; ")
			c.Sample(s)
		}
	})
}

const twoHandleRule = "two accumulator handles on one accumulator, both obtained before the history and used in a generated interleaving for position creation, share increases and decreases (plain and interval forms) in a history WITHOUT accumulator growth (with zero growth a handle's in-memory value per share cannot be stale, so every operation of the unchanged code is exact; what can be stale is the in-memory share total, which every share operation is documented to re-read); oracle after every step, through a fresh handle: recorded total shares == sum of position shares == model, every position's share count == model; non-trivial = both handles changed shares and a decrease followed an operation of the other handle; distinct by history hash"

// TestPropAccumTwoHandles: the share total must be re-read from the store by every operation that changes it - two
// handles that interleave must not lose each other's changes.
func TestPropAccumTwoHandles(t *testing.T) {
	drv.Check(t, drv.Cfg{Name: "accum-two-handles", Rule: twoHandleRule, Quick: 800, Thorough: 40000, Steps: 25, TSteps: 50}, func(rt *rapid.T, c *drv.Case) {
		store := storetypes.KVStore(cachekv.NewStore(dbadapter.Store{DB: dbm.NewMemDB()}))
		const accName = "acc"
		if err := accum.MakeAccumulator(store, accName); err != nil {
			rt.Fatalf("MakeAccumulator: %v", err)
		}
		hs := [2]*accum.AccumulatorObject{}
		for i := range hs {
			h, err := accum.GetAccumulator(store, accName)
			if err != nil {
				rt.Fatalf("GetAccumulator: %v", err)
			}
			hs[i] = h
		}
		shares := map[string]osmomath.Dec{}
		names := []string{"1", "10", "2", "3", "p"}
		zero := sdk.NewDecCoins()
		var hist []string
		used := [2]bool{}
		last := -1
		crossRemove := false
		genShares := func(rt *rapid.T) osmomath.Dec {
			return osmomath.NewDecWithPrec(rapid.Int64Range(1, 1_000_000_000).Draw(rt, "shares"), int64(rapid.IntRange(0, 6).Draw(rt, "prec")))
		}
		check := func() {
			fr, err := accum.GetAccumulator(store, accName)
			if err != nil {
				rt.Fatalf("GetAccumulator: %v", err)
			}
			sum := osmomath.ZeroDec()
			for _, n := range names {
				want, ok := shares[n]
				got, err := fr.GetPositionSize(n)
				if !ok {
					if err == nil {
						rt.Fatalf("position %q exists with %s shares, the history never created it [%v]", n, got, hist)
					}
					continue
				}
				if err != nil || !got.Equal(want) {
					rt.Fatalf("position %q holds %v shares (err %v), the history says %s [%v]", n, got, err, want, hist)
				}
				sum = sum.Add(want)
			}
			if !fr.GetTotalShares().Equal(sum) {
				rt.Fatalf("recorded total shares %s != sum of position shares %s [%v]", fr.GetTotalShares(), sum, hist)
			}
		}
		rt.Repeat(map[string]func(*rapid.T){
			"new": func(rt *rapid.T) {
				hi := rapid.IntRange(0, 1).Draw(rt, "handle")
				n := names[rapid.IntRange(0, len(names)-1).Draw(rt, "name")]
				if _, ok := shares[n]; ok {
					rt.Skip("exists")
				}
				s := genShares(rt)
				var err error
				if rapid.Bool().Draw(rt, "interval") {
					err = hs[hi].NewPositionIntervalAccumulation(n, s, zero, nil)
				} else {
					err = hs[hi].NewPosition(n, s, nil)
				}
				if err != nil {
					rt.Fatalf("NewPosition(%s,%s) through handle %d: %v", n, s, hi, err)
				}
				shares[n] = s
				used[hi], last = true, hi
				hist = append(hist, fmt.Sprintf("h%d new %s %s", hi, n, s))
			},
			"add": func(rt *rapid.T) {
				hi := rapid.IntRange(0, 1).Draw(rt, "handle")
				n := names[rapid.IntRange(0, len(names)-1).Draw(rt, "name")]
				cur, ok := shares[n]
				if !ok {
					rt.Skip("no such position")
				}
				s := genShares(rt)
				var err error
				switch rapid.IntRange(0, 2).Draw(rt, "form") {
				case 0:
					err = hs[hi].AddToPosition(n, s)
				case 1:
					err = hs[hi].AddToPositionIntervalAccumulation(n, s, zero)
				default:
					err = hs[hi].UpdatePositionIntervalAccumulation(n, s, zero)
				}
				if err != nil {
					rt.Fatalf("add %s to %s through handle %d: %v", s, n, hi, err)
				}
				shares[n] = cur.Add(s)
				used[hi], last = true, hi
				hist = append(hist, fmt.Sprintf("h%d add %s %s", hi, n, s))
			},
			"remove": func(rt *rapid.T) {
				hi := rapid.IntRange(0, 1).Draw(rt, "handle")
				n := names[rapid.IntRange(0, len(names)-1).Draw(rt, "name")]
				cur, ok := shares[n]
				if !ok || !cur.IsPositive() {
					rt.Skip("nothing to remove")
				}
				s := cur.MulInt64(rapid.Int64Range(1, 1000).Draw(rt, "permille")).QuoInt64(1000)
				if !s.IsPositive() {
					s = cur
				}
				var err error
				switch rapid.IntRange(0, 2).Draw(rt, "form") {
				case 0:
					err = hs[hi].RemoveFromPosition(n, s)
				case 1:
					err = hs[hi].RemoveFromPositionIntervalAccumulation(n, s, zero)
				default:
					err = hs[hi].UpdatePositionIntervalAccumulation(n, s.Neg(), zero)
				}
				if err != nil {
					rt.Fatalf("remove %s from %s through handle %d: %v", s, n, hi, err)
				}
				shares[n] = cur.Sub(s)
				if last >= 0 && last != hi {
					crossRemove = true
				}
				used[hi], last = true, hi
				hist = append(hist, fmt.Sprintf("h%d remove %s %s", hi, n, s))
			},
			"": func(rt *rapid.T) { check() },
		})
		if used[0] && used[1] && crossRemove {
			c.NonTrivial(strings.Join(hist, ";"))
			c.Samplef("%s", strings.Join(hist, "; "))
		}
	})
}
