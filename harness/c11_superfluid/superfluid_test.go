package c11

import (
	"fmt"
	"os"
	"sort"
	"strconv"
	"strings"
	"testing"
	"time"

	sdk "github.com/cosmos/cosmos-sdk/types"
	stakingkeeper "github.com/cosmos/cosmos-sdk/x/staking/keeper"
	stakingtypes "github.com/cosmos/cosmos-sdk/x/staking/types"
	"pgregory.net/rapid"

	"github.com/osmosis-labs/osmosis/osmomath"
	clmodel "github.com/osmosis-labs/osmosis/v31/x/concentrated-liquidity/model"
	cltypes "github.com/osmosis-labs/osmosis/v31/x/concentrated-liquidity/types"
	"github.com/osmosis-labs/osmosis/v31/x/gamm/pool-models/balancer"
	gammtypes "github.com/osmosis-labs/osmosis/v31/x/gamm/types"
	"github.com/osmosis-labs/osmosis/v31/x/lockup"
	lockuptypes "github.com/osmosis-labs/osmosis/v31/x/lockup/types"
	minttypes "github.com/osmosis-labs/osmosis/v31/x/mint/types"
	pmtypes "github.com/osmosis-labs/osmosis/v31/x/poolmanager/types"
	"github.com/osmosis-labs/osmosis/v31/x/superfluid"
	sftypes "github.com/osmosis-labs/osmosis/v31/x/superfluid/types"

	"verif/harness/chain"
	"verif/harness/drv"
)

func TestMain(m *testing.M) { drv.Main(m) }

const rule = "state machine on the real application: 2-3 validators, 3 owners, a superfluid-enabled balancer share (bond denom / token0) and, in two thirds of the cases, a superfluid-enabled concentrated share (bond denom / usdc, full-range positions through MsgCreateFullRangePositionAndSuperfluidDelegate and MsgAddToConcentratedLiquiditySuperfluidPosition, swaps on the concentrated pool); MsgLockAndSuperfluidDelegate, MsgLockTokens (1-3 unbonding periods) + MsgSuperfluidDelegate - in a quarter of the cases after the fresh lock has started unlocking, which must be refused -, lock top-ups of delegated locks, MsgSuperfluidUndelegate, MsgSuperfluidUnbondLock, MsgSuperfluidUndelegateAndUnbondLock (partial), forbidden MsgBeginUnlocking on delegated locks, price moves by swaps against the pool, superfluid epochs through the real x/epochs BeginBlocker followed by the superfluid BeginBlocker, time advances past the unbonding period with the lockup EndBlocker; mint provisions set to 0 so that any change of the reported bond-denom supply is superfluid's; oracle after every step: for each intermediary account delegated tokens vs E = risk-adjusted OSMO value (module's GetSuperfluidOSMOTokens) of the sum of the locks connected to it - exactly equal right after an epoch refresh, within 2 units per delegation-changing operation since the refresh otherwise; the staking-marker accumulation the refresh reads == sum of the connected locks for every intermediary account (slashed validators included); connected locks <=> locks carrying exactly one staking marker (superbonding synthetic lock) of the matching validator; every undelegated lock carries an unstaking marker ending exactly undelegation time + unbonding time and still exists before that; supply with offset unchanged; non-trivial = >= 2 locks through one intermediary account, a price move followed by an epoch, and an undelegation; distinct by history hash"

type lk struct {
	den       string // lock denom: the gamm share or the concentrated share
	pos       uint64 // concentrated position backing the lock (0 for gamm share locks)
	owner     int
	val       string
	delegated bool
	undelegAt time.Time // zero: never undelegated
	unbonding bool
}

func coin(d string, a osmomath.Int) sdk.Coin { return sdk.NewCoin(d, a) }

func TestPropSuperfluid(t *testing.T) {
	drv.Check(t, drv.Cfg{Name: "superfluid", Rule: rule, Quick: 350, Thorough: 5000, Steps: 30, TSteps: 60}, func(rt *rapid.T, cs *drv.Case) {
		c := chain.New(t)
		sk, sfk, lkk := c.App.StakingKeeper, c.App.SuperfluidKeeper, c.App.LockupKeeper
		bond, _ := sk.BondDenom(c.Ctx)
		unbonding := c.EnableSuperfluidDurations()
		c.App.MintKeeper.SetMinter(c.Ctx, minttypes.NewMinter(osmomath.ZeroDec()))
		// validators: the genesis one plus 1-2 more
		c.H.Ctx = c.Ctx
		// (the test helper gives validators random keys: they are listed by role - genesis validator first, then the extra
		// ones in creation order - so that a saved history addresses the same validators when it is replayed)
		var valAddrs []string
		vals, _ := sk.GetAllValidators(c.Ctx)
		for _, v := range vals {
			valAddrs = append(valAddrs, v.GetOperator())
		}
		sort.Strings(valAddrs)
		nv := rapid.IntRange(1, 2).Draw(rt, "extraValidators")
		for i := 0; i < nv; i++ {
			valAddrs = append(valAddrs, c.H.SetupValidator(stakingtypes.Bonded).String())
			// the helper creates the validator unbonded (self-bond in the not-bonded pool) and then only flips its status:
			// move the self-bond to the bonded pool, as the staking end blocker does when a validator enters the set, so
			// that every bonded token is backed (otherwise a later undelegation can find the bonded pool short)
			if err := c.App.BankKeeper.SendCoinsFromModuleToModule(c.Ctx, stakingtypes.NotBondedPoolName, stakingtypes.BondedPoolName, sdk.NewCoins(sdk.NewCoin(bond, sdk.DefaultPowerReduction))); err != nil {
				rt.Fatalf("harness: %v", err)
			}
		}
		if msg, broken := stakingkeeper.ModuleAccountInvariants(sk)(c.Ctx); broken {
			rt.Fatalf("harness: staking pools are not backed after the validator set-up: %s", msg)
		}
		if perm := os.Getenv("VERIF_VAL_PERM"); perm != "" { // debugging aid: replay a history saved before the roles were fixed
			var p []string
			for _, ix := range strings.Split(perm, ",") {
				i, _ := strconv.Atoi(ix)
				if i < len(valAddrs) {
					p = append(p, valAddrs[i])
				}
			}
			if len(p) == len(valAddrs) {
				valAddrs = p
			}
		}
		big := osmomath.NewIntWithDecimal(1, 24)
		for a := 0; a < 4; a++ {
			c.Fund(chain.Actor(a), sdk.NewCoins(coin(bond, big), coin("token0", big), coin("uosmo", big), coin("usdc", big)))
		}
		msg := balancer.NewMsgCreateBalancerPool(chain.Actor(3), balancer.PoolParams{SwapFee: osmomath.NewDecWithPrec(1, 3), ExitFee: osmomath.ZeroDec()},
			[]balancer.PoolAsset{{Weight: osmomath.NewInt(1), Token: coin(bond, osmomath.NewInt(rapid.Int64Range(1_000_000_000, 1_000_000_000_000_000).Draw(rt, "poolBond")))}, {Weight: osmomath.NewInt(1), Token: coin("token0", osmomath.NewInt(10_000_000_000))}}, "")
		if r := c.Exec(&msg); !r.OK() {
			rt.Fatalf("harness: create pool: %v", r.Err)
		}
		poolID := c.App.PoolManagerKeeper.GetNextPoolId(c.Ctx) - 1
		share := gammtypes.GetPoolShareDenom(poolID)
		if err := sfk.AddNewSuperfluidAsset(c.Ctx, sftypes.SuperfluidAsset{Denom: share, AssetType: sftypes.SuperfluidAssetTypeLPShare}); err != nil {
			rt.Fatalf("harness: AddNewSuperfluidAsset: %v", err)
		}
		for a := 0; a < 3; a++ {
			if r := c.Exec(&gammtypes.MsgJoinPool{Sender: chain.Actor(a).String(), PoolId: poolID, ShareOutAmount: osmomath.NewIntWithDecimal(50, 18), TokenInMaxs: sdk.NewCoins(coin(bond, big), coin("token0", big))}); !r.OK() {
				rt.Fatalf("harness: join pool: %v", r.Err)
			}
		}
		// concentrated pool bond/usdc with full-range liquidity; its share is the second superfluid asset
		clShare := ""
		var clPoolID uint64
		if rapid.IntRange(0, 2).Draw(rt, "withCL") > 0 {
			m := clmodel.NewMsgCreateConcentratedPool(chain.Actor(3), bond, "usdc", 100, osmomath.MustNewDecFromStr("0.002"))
			if r := c.Exec(&m); !r.OK() {
				rt.Fatalf("harness: create CL pool: %v", r.Err)
			}
			clPoolID = c.App.PoolManagerKeeper.GetNextPoolId(c.Ctx) - 1
			if r := c.Exec(&cltypes.MsgCreatePosition{PoolId: clPoolID, Sender: chain.Actor(3).String(), LowerTick: cltypes.MinInitializedTick, UpperTick: cltypes.MaxTick,
				TokensProvided:  sdk.NewCoins(coin(bond, osmomath.NewInt(rapid.Int64Range(1_000_000_000, 1_000_000_000_000).Draw(rt, "clBond"))), coin("usdc", osmomath.NewInt(rapid.Int64Range(1_000_000_000, 1_000_000_000_000).Draw(rt, "clUsdc")))),
				TokenMinAmount0: osmomath.ZeroInt(), TokenMinAmount1: osmomath.ZeroInt()}); !r.OK() {
				rt.Fatalf("harness: full-range position: %v", r.Err)
			}
			clShare = cltypes.GetConcentratedLockupDenomFromPoolId(clPoolID)
			if err := sfk.AddNewSuperfluidAsset(c.Ctx, sftypes.SuperfluidAsset{Denom: clShare, AssetType: sftypes.SuperfluidAssetTypeConcentratedShare}); err != nil {
				rt.Fatalf("harness: AddNewSuperfluidAsset(cl): %v", err)
			}
			cs.Class("with-concentrated-asset")
		}
		denoms := []string{share}
		if clShare != "" {
			denoms = append(denoms, clShare)
		}
		epochID := sfk.GetEpochIdentifier(c.Ctx)
		c.App.EpochsKeeper.BeginBlocker(c.Ctx) // start counting
		supply0 := c.App.BankKeeper.GetSupplyWithOffset(c.Ctx, bond).Amount

		locks := map[uint64]*lk{}
		opsSinceRefresh := map[string]int{} // intermediary account address -> ops
		justRefreshed := false
		slashed := map[string]int{} // validator -> number of slashes
		var hist []string
		priceMoved, epochAfterMove, undelegated := false, false, false

		accKeyD := func(den, val string) string { return den + "|" + val }
		accKey := func(val string) string { return accKeyD(share, val) }
		bump := func(val string) { opsSinceRefresh[accKey(val)]++; justRefreshed = false }
		bumpD := func(den, val string) { opsSinceRefresh[accKeyD(den, val)]++; justRefreshed = false }
		denOf := func(l *lk) string {
			if l.den == "" {
				return share
			}
			return l.den
		}
		sortedLocks := func(pred func(*lk) bool) []uint64 {
			var ids []uint64
			for id, l := range locks {
				if pred(l) {
					ids = append(ids, id)
				}
			}
			sort.Slice(ids, func(i, j int) bool { return ids[i] < ids[j] })
			return ids
		}
		pick := func(rt *rapid.T, pred func(*lk) bool) (uint64, *lk) {
			ids := sortedLocks(pred)
			if len(ids) == 0 {
				rt.Skip("no such lock")
			}
			id := ids[rapid.IntRange(0, len(ids)-1).Draw(rt, "lock")]
			return id, locks[id]
		}
		amt := func(rt *rapid.T) osmomath.Int {
			// share units: the pool has ~2.5e20 share units outstanding
			switch rapid.IntRange(0, 5).Draw(rt, "amtShape") {
			case 0:
				return osmomath.NewInt(rapid.Int64Range(1, 1000).Draw(rt, "amtTiny")) // worth zero OSMO: must be rejected
			case 1:
				// worth only a few base units of OSMO at the current multiplier: a price drop makes the whole stake of an
				// intermediary account round to zero, a recovery must bring it back
				mult := sfk.GetOsmoEquivalentMultiplier(c.Ctx, share)
				if mult.IsPositive() {
					k := rapid.Int64Range(1, 6).Draw(rt, "amtUnits")
					return osmomath.NewDec(2 * k).Quo(mult).Ceil().TruncateInt().AddRaw(1)
				}
				return osmomath.NewInt(rapid.Int64Range(1, 1_000_000).Draw(rt, "amtMant0")).Mul(osmomath.NewIntWithDecimal(1, 10))
			default:
				return osmomath.NewInt(rapid.Int64Range(1, 1_000_000).Draw(rt, "amtMant")).Mul(osmomath.NewIntWithDecimal(1, rapid.IntRange(10, 13).Draw(rt, "amtExp")))
			}
		}

		invariants := func() {
			ctx := c.Ctx
			if s := c.App.BankKeeper.GetSupplyWithOffset(ctx, bond).Amount; !s.Equal(supply0) {
				rt.Fatalf("reported supply of %s changed from %s to %s through superfluid minting/burning [history %v]", bond, supply0, s, hist)
			}
			// connections and markers
			conns := map[uint64]string{}
			for _, cn := range sfk.GetAllLockIdIntermediaryAccountConnections(ctx) {
				conns[cn.LockId] = cn.IntermediaryAccount
			}
			sums := map[string]osmomath.Int{}
			allSynth := lkk.GetAllSyntheticLockups(ctx)
			for id, l := range locks {
				lock, err := lkk.GetLockByID(ctx, id)
				if err != nil {
					if l.delegated {
						rt.Fatalf("delegated lock %d no longer exists [history %v]", id, hist)
					}
					if !l.undelegAt.IsZero() && ctx.BlockTime().Before(l.undelegAt.Add(unbonding)) {
						rt.Fatalf("lock %d undelegated at %s was withdrawn at %s, before its undelegation matured (%s) [history %v]", id, l.undelegAt.Sub(chain.Base), ctx.BlockTime().Sub(chain.Base), unbonding, hist)
					}
					delete(locks, id)
					continue
				}
				var synths []lockuptypes.SyntheticLock
				for _, sl := range allSynth {
					if sl.UnderlyingLockId == id {
						synths = append(synths, sl)
					}
				}
				acc, connected := conns[id]
				if l.delegated != connected {
					rt.Fatalf("lock %d: delegated=%v but connected to an intermediary account=%v [history %v]", id, l.delegated, connected, hist)
				}
				if l.delegated {
					ia := sfk.GetIntermediaryAccount(ctx, sdk.MustAccAddressFromBech32(acc))
					if ia.ValAddr != l.val || ia.Denom != denOf(l) {
						rt.Fatalf("lock %d is connected to intermediary account (%s,%s), delegated to %s", id, ia.Denom, ia.ValAddr, l.val)
					}
					want := fmt.Sprintf("%s/superbonding/%s", denOf(l), l.val)
					if len(synths) != 1 || synths[0].SynthDenom != want {
						rt.Fatalf("delegated lock %d must carry exactly one staking marker %s, has %v [history %v]", id, want, synths, hist)
					}
					if lock.IsUnlocking() {
						rt.Fatalf("delegated lock %d is unlocking [history %v]", id, hist)
					}
					k := accKeyD(denOf(l), l.val)
					if _, ok := sums[k]; !ok {
						sums[k] = osmomath.ZeroInt()
					}
					sums[k] = sums[k].Add(lock.Coins[0].Amount)
				} else if !l.undelegAt.IsZero() {
					end := l.undelegAt.Add(unbonding)
					if ctx.BlockTime().Before(end) {
						want := fmt.Sprintf("%s/superunbonding/%s", denOf(l), l.val)
						if len(synths) != 1 || synths[0].SynthDenom != want || !synths[0].EndTime.Equal(end) {
							rt.Fatalf("undelegated lock %d must carry the unstaking marker %s ending %s, has %v [history %v]", id, want, end, synths, hist)
						}
					}
				}
			}
			for id := range conns {
				if locks[id] == nil {
					rt.Fatalf("lock %d is connected to an intermediary account but was never delegated by the history", id)
				}
			}
			// stake vs locks
			for _, dv := range denoms {
				for _, val := range valAddrs {
					share := dv
					k := accKeyD(share, val)
					sum, ok := sums[k]
					if !ok {
						sum = osmomath.ZeroInt()
					}
					E, err := sfk.GetSuperfluidOSMOTokens(ctx, share, sum)
					if err != nil {
						rt.Fatalf("GetSuperfluidOSMOTokens: %v", err)
					}
					// what the module itself believes to be delegated through this account - the accumulated amount under the
					// staking marker, which every epoch refresh turns into the stake - must be the sum of the locks connected to
					// it. Slashed validators included: a slash takes the same amount off a lock and off its marker.
					if acc, aerr := sfk.GetTotalSyntheticAssetsLocked(ctx, fmt.Sprintf("%s/superbonding/%s", share, val)); aerr != nil || !acc.Equal(sum) {
						rt.Fatalf("intermediary account (%s, %s): the staking-marker accumulation the refresh reads is %s (%v), the locks connected to the account hold %s (validator slashed %d times) [history %v]", share, val[len(val)-4:], acc, aerr, sum, slashed[val], hist)
					}
					ia := sftypes.NewSuperfluidIntermediaryAccount(share, val, 0)
					valAddr, _ := sdk.ValAddressFromBech32(val)
					tokens := osmomath.ZeroInt()
					if del, err := sk.GetDelegation(ctx, ia.GetAccAddress(), valAddr); err == nil {
						v, _ := sk.GetValidator(ctx, valAddr)
						tokens = v.TokensFromShares(del.Shares).RoundInt()
					}
					diff := tokens.Sub(E).Abs()
					allowed := osmomath.NewInt(int64(2 * opsSinceRefresh[k]))
					if justRefreshed {
						allowed = osmomath.ZeroInt()
					}
					if slashed[val] > 0 {
						// The statement quantifies over delegations, undelegations, top-ups, unbondings, price changes and
						// epochs - not over validator slashes. After a slash the exchange rate of the validator is != 1 and
						// the staking module's tokens -> shares -> tokens truncations (SDK, outside the repository) move the
						// token value of an account's shares whenever ANY delegator of that validator acts; the refresh itself
						// can be refused by staking's share validation (RoundInt of the current amount asks for a fraction of a
						// share more than the account holds - observed on the unchanged tree: stake 17, expected 0, after a
						// 1e-6 slash). The stake equality is therefore judged for never-slashed validators only; supply
						// neutrality, markers and connections are judged for all.
						cs.Class("stake-check-skipped-slashed-validator")
						continue
					}
					if diff.GT(allowed) {
						exp, eerr := sfk.GetExpectedDelegationAmount(ctx, ia)
						// why did the module's own refresh not reach its own target? repeat its undelegation step on a branch
						why := ""
						if eerr == nil && tokens.GT(exp) {
							b := c.Branch()
							sh, verr := b.App.StakingKeeper.ValidateUnbondAmount(b.Ctx, ia.GetAccAddress(), valAddr, tokens.Sub(exp))
							if verr != nil {
								why = fmt.Sprintf("; staking refuses to unbond %s: %v", tokens.Sub(exp), verr)
							} else if _, uerr := b.App.StakingKeeper.InstantUndelegate(b.Ctx, ia.GetAccAddress(), valAddr, sh); uerr != nil {
								why = fmt.Sprintf("; InstantUndelegate(%s shares) fails: %v", sh, uerr)
							} else {
								why = "; the undelegation step succeeds when repeated now"
							}
							v, _ := b.App.StakingKeeper.GetValidator(b.Ctx, valAddr)
							why += fmt.Sprintf(" (validator status %s jailed=%v tokens %s shares %s)", v.Status, v.Jailed, v.Tokens, v.DelegatorShares)
						}
						rt.Fatalf("intermediary account (%s, %s): staked %s, risk-adjusted value of the %s shares locked through it is %s (allowed drift %s, %d operations since the refresh, justRefreshed=%v; the module's own expected amount %s (%v), multiplier %s%s) [history %v]", share, val[len(val)-6:], tokens, sum, E, allowed, opsSinceRefresh[k], justRefreshed, exp, eerr, sfk.GetOsmoEquivalentMultiplier(ctx, share), why, hist)
					}
				}
			}
		}

		actions := map[string]func(*rapid.T){
			"lockAndDelegate": func(rt *rapid.T) {
				o := rapid.IntRange(0, 2).Draw(rt, "owner")
				val := valAddrs[rapid.IntRange(0, len(valAddrs)-1).Draw(rt, "val")]
				a := amt(rt)
				v, _ := sdk.ValAddressFromBech32(val)
				r := c.Exec(sftypes.NewMsgLockAndSuperfluidDelegate(chain.Actor(o), sdk.NewCoins(coin(share, a)), v))
				if !r.OK() {
					cs.Class("delegate-rejected")
					return
				}
				var resp sftypes.MsgLockAndSuperfluidDelegateResponse
				_ = r.Unpack(&resp)
				if ex := locks[resp.ID]; ex != nil {
					// the tokens were added to an existing bonded lock of the same duration, which is now delegated
					if ex.delegated && ex.val != val {
						rt.Fatalf("MsgLockAndSuperfluidDelegate(%s) succeeded on lock %d which is delegated to %s", val, resp.ID, ex.val)
					}
					ex.delegated, ex.val, ex.undelegAt, ex.unbonding = true, val, time.Time{}, false
				} else {
					locks[resp.ID] = &lk{owner: o, val: val, delegated: true}
				}
				bump(val)
				hist = append(hist, fmt.Sprintf("lock+delegate o%d %s ->#%d %s", o, a, resp.ID, val[len(val)-4:]))
			},
			"lockThenDelegate": func(rt *rapid.T) {
				o := rapid.IntRange(0, 2).Draw(rt, "owner")
				val := valAddrs[rapid.IntRange(0, len(valAddrs)-1).Draw(rt, "val")]
				a := amt(rt)
				// durations of one to three unbonding periods: a long lock that has started unlocking still has more than an
				// unbonding period to go
				dur := unbonding*time.Duration(rapid.IntRange(1, 3).Draw(rt, "durationPeriods")) + time.Hour
				r := c.Exec(lockuptypes.NewMsgLockTokens(chain.Actor(o), dur, sdk.NewCoins(coin(share, a))))
				if !r.OK() {
					return
				}
				var lr lockuptypes.MsgLockTokensResponse
				_ = r.Unpack(&lr)
				if locks[lr.ID] == nil {
					locks[lr.ID] = &lk{owner: o}
				}
				if locks[lr.ID].delegated {
					bump(locks[lr.ID].val) // a top-up of a delegated lock
					hist = append(hist, fmt.Sprintf("topup #%d %s", lr.ID, a))
					return
				}
				// a lock that was never delegated may start unlocking like any lock; from then on it must not be accepted for
				// superfluid delegation (it would mature and leave while the intermediary account keeps its stake)
				if lock, err := lkk.GetLockByID(c.Ctx, lr.ID); err == nil && !lock.IsUnlocking() && rapid.IntRange(0, 3).Draw(rt, "unlockFirst") == 0 {
					if r := c.Exec(lockuptypes.NewMsgBeginUnlocking(chain.Actor(o), lr.ID, nil)); r.OK() {
						hist = append(hist, fmt.Sprintf("lock o%d %s #%d for %s; begin unlocking", o, a, lr.ID, dur))
						if rapid.Bool().Draw(rt, "waitBeforeDelegating") {
							c.Advance(time.Duration(rapid.Int64Range(1, int64(dur-unbonding)).Draw(rt, "wait")))
						}
						cs.Class("delegation-of-unlocking-lock-attempted")
					}
				}
				v, _ := sdk.ValAddressFromBech32(val)
				r = c.Exec(sftypes.NewMsgSuperfluidDelegate(chain.Actor(o), lr.ID, v))
				if r.OK() {
					locks[lr.ID].delegated, locks[lr.ID].val = true, val
					locks[lr.ID].undelegAt = time.Time{}
					bump(val)
					hist = append(hist, fmt.Sprintf("lock o%d %s #%d; delegate %s", o, a, lr.ID, val[len(val)-4:]))
				} else {
					cs.Class("delegate-rejected")
				}
			},
			"topUp": func(rt *rapid.T) {
				id, l := pick(rt, func(l *lk) bool { return l.delegated && l.den == "" })
				lock, _ := lkk.GetLockByID(c.Ctx, id)
				a := amt(rt)
				r := c.Exec(lockuptypes.NewMsgLockTokens(chain.Actor(l.owner), lock.Duration, sdk.NewCoins(coin(share, a))))
				if !r.OK() {
					return
				}
				var lr lockuptypes.MsgLockTokensResponse
				_ = r.Unpack(&lr)
				if tl := locks[lr.ID]; tl != nil && tl.delegated {
					bump(tl.val)
				} else if tl == nil {
					locks[lr.ID] = &lk{owner: l.owner}
				}
				cs.Class("top-up")
				hist = append(hist, fmt.Sprintf("topup #%d +%s (->#%d)", id, a, lr.ID))
			},
			"undelegate": func(rt *rapid.T) {
				id, l := pick(rt, func(l *lk) bool { return l.delegated })
				r := c.Exec(sftypes.NewMsgSuperfluidUndelegate(chain.Actor(l.owner), id))
				if !r.OK() {
					// not claimed by the property: e.g. after a top-up the account's stake can be a unit short of the
					// lock's value (sum of rounded parts < rounded sum) and staking rejects the unbond amount
					cs.Class("undelegate-rejected")
					return
				}
				l.delegated, l.undelegAt = false, c.Ctx.BlockTime()
				bumpD(denOf(l), l.val)
				undelegated = true
				hist = append(hist, fmt.Sprintf("undelegate #%d", id))
			},
			"unbondLock": func(rt *rapid.T) {
				id, l := pick(rt, func(l *lk) bool { return !l.delegated && !l.undelegAt.IsZero() && !l.unbonding })
				r := c.Exec(sftypes.NewMsgSuperfluidUnbondLock(chain.Actor(l.owner), id))
				if r.OK() {
					l.unbonding = true
					hist = append(hist, fmt.Sprintf("unbondLock #%d", id))
				}
			},
			"undelegateAndUnbond": func(rt *rapid.T) {
				id, l := pick(rt, func(l *lk) bool { return l.delegated && l.den == "" })
				lock, _ := lkk.GetLockByID(c.Ctx, id)
				total := lock.Coins[0].Amount
				part := total
				if rapid.Bool().Draw(rt, "partial") && total.GT(osmomath.OneInt()) {
					part = total.MulRaw(rapid.Int64Range(1, 99).Draw(rt, "pct")).QuoRaw(100)
					if !part.IsPositive() {
						part = osmomath.OneInt()
					}
				}
				r := c.Exec(sftypes.NewMsgSuperfluidUndelegateAndUnbondLock(chain.Actor(l.owner), id, coin(share, part)))
				if !r.OK() {
					cs.Class("undelegate-and-unbond-rejected") // e.g. the remainder would be worth zero OSMO, or the stake is a unit short
					return
				}
				var resp sftypes.MsgSuperfluidUndelegateAndUnbondLockResponse
				_ = r.Unpack(&resp)
				if part.Equal(total) {
					l.delegated, l.undelegAt, l.unbonding = false, c.Ctx.BlockTime(), true
				} else {
					locks[resp.LockId] = &lk{owner: l.owner, val: l.val, undelegAt: c.Ctx.BlockTime(), unbonding: true}
					cs.Class("partial-undelegate-and-unbond")
				}
				bump(l.val)
				undelegated = true
				hist = append(hist, fmt.Sprintf("undelegate+unbond #%d %s of %s (->#%d)", id, part, total, resp.LockId))
			},
			"forbiddenUnlock": func(rt *rapid.T) {
				id, l := pick(rt, func(l *lk) bool { return l.delegated })
				d0 := c.Digest()
				if r := c.Exec(lockuptypes.NewMsgBeginUnlocking(chain.Actor(l.owner), id, nil)); r.OK() {
					rt.Fatalf("MsgBeginUnlocking on superfluid-delegated lock %d succeeded [history %v]", id, hist)
				}
				if c.Digest() != d0 {
					rt.Fatalf("rejected MsgBeginUnlocking changed state")
				}
				cs.Class("forbidden-unlock-rejected")
			},
			// MsgBeginUnlockingAll by an owner who holds a delegated (or undelegating) lock, on a discarded branch: whatever it
			// does to the owner's plain locks, no lock that carries a staking marker may start unlocking
			"forbiddenUnlockAll": func(rt *rapid.T) {
				_, l := pick(rt, func(l *lk) bool { return l.delegated })
				b := c.Branch()
				r := b.Exec(lockuptypes.NewMsgBeginUnlockingAll(chain.Actor(l.owner)))
				for _, id := range sortedLocks(func(x *lk) bool { return x.delegated && x.owner == l.owner }) {
					lock, err := b.App.LockupKeeper.GetLockByID(b.Ctx, id)
					if err != nil {
						rt.Fatalf("delegated lock %d vanished through MsgBeginUnlockingAll (ok=%v) [history %v]", id, r.OK(), hist)
					}
					if lock.IsUnlocking() {
						rt.Fatalf("MsgBeginUnlockingAll by owner %d (ok=%v) started unlocking lock %d, which is superfluid-delegated [history %v]", l.owner, r.OK(), id, hist)
					}
				}
				cs.Class("forbidden-unlock-all-checked")
			},
			"clCreateAndDelegate": func(rt *rapid.T) {
				if clShare == "" {
					rt.Skip("no concentrated asset")
				}
				o := rapid.IntRange(0, 2).Draw(rt, "owner")
				val := valAddrs[rapid.IntRange(0, len(valAddrs)-1).Draw(rt, "val")]
				a0 := osmomath.NewInt(rapid.Int64Range(1, 1_000_000).Draw(rt, "clMant")).Mul(osmomath.NewIntWithDecimal(1, rapid.IntRange(0, 8).Draw(rt, "clExp")))
				a1 := osmomath.NewInt(rapid.Int64Range(1, 1_000_000).Draw(rt, "clMant1")).Mul(osmomath.NewIntWithDecimal(1, rapid.IntRange(0, 8).Draw(rt, "clExp1")))
				r := c.Exec(sftypes.NewMsgCreateFullRangePositionAndSuperfluidDelegate(chain.Actor(o), sdk.NewCoins(coin(bond, a0), coin("usdc", a1)), val, clPoolID))
				if !r.OK() {
					cs.Class("cl-delegate-rejected")
					return
				}
				var resp sftypes.MsgCreateFullRangePositionAndSuperfluidDelegateResponse
				_ = r.Unpack(&resp)
				locks[resp.LockID] = &lk{den: clShare, pos: resp.PositionID, owner: o, val: val, delegated: true}
				bumpD(clShare, val)
				cs.Class("cl-position-delegated")
				hist = append(hist, fmt.Sprintf("cl create+delegate o%d %s/%s ->#%d pos %d %s", o, a0, a1, resp.LockID, resp.PositionID, val[len(val)-4:]))
			},
			"clAddToPosition": func(rt *rapid.T) {
				if clShare == "" {
					rt.Skip("no concentrated asset")
				}
				id, l := pick(rt, func(l *lk) bool { return l.delegated && l.den != "" })
				a0 := osmomath.NewInt(rapid.Int64Range(1, 1_000_000_000).Draw(rt, "add0"))
				a1 := osmomath.NewInt(rapid.Int64Range(1, 1_000_000_000).Draw(rt, "add1"))
				r := c.Exec(&sftypes.MsgAddToConcentratedLiquiditySuperfluidPosition{PositionId: l.pos, Sender: chain.Actor(l.owner).String(), TokenDesired0: coin(bond, a0), TokenDesired1: coin("usdc", a1)})
				if !r.OK() {
					cs.Class("cl-add-rejected")
					return
				}
				var resp sftypes.MsgAddToConcentratedLiquiditySuperfluidPositionResponse
				_ = r.Unpack(&resp)
				// the old position and lock are replaced by new ones, still delegated to the same validator
				delete(locks, id)
				locks[resp.LockId] = &lk{den: clShare, pos: resp.PositionId, owner: l.owner, val: l.val, delegated: true}
				bumpD(clShare, l.val)
				bumpD(clShare, l.val)
				cs.Class("cl-position-increased")
				hist = append(hist, fmt.Sprintf("cl add #%d pos %d +%s/%s ->#%d pos %d", id, l.pos, a0, a1, resp.LockId, resp.PositionId))
			},
			"clPriceMove": func(rt *rapid.T) {
				if clShare == "" {
					rt.Skip("no concentrated asset")
				}
				in, out := bond, "usdc"
				if rapid.Bool().Draw(rt, "direction") {
					in, out = out, in
				}
				a := osmomath.NewInt(rapid.Int64Range(1, 1_000_000).Draw(rt, "mant")).Mul(osmomath.NewIntWithDecimal(1, rapid.IntRange(0, 7).Draw(rt, "exp")))
				if r := c.Exec(&pmtypes.MsgSwapExactAmountIn{Sender: chain.Actor(3).String(), Routes: []pmtypes.SwapAmountInRoute{{PoolId: clPoolID, TokenOutDenom: out}}, TokenIn: coin(in, a), TokenOutMinAmount: osmomath.OneInt()}); r.OK() {
					priceMoved = true
					hist = append(hist, fmt.Sprintf("cl swap %s%s", a, in))
				}
			},
			"priceMove": func(rt *rapid.T) {
				in, out := bond, "token0"
				if rapid.Bool().Draw(rt, "direction") {
					in, out = out, in
				}
				pi, _ := c.App.PoolManagerKeeper.GetPool(c.Ctx, poolID)
				res := c.Bal(pi.GetAddress(), in).Amount
				a := res.MulRaw(rapid.Int64Range(1, 300).Draw(rt, "pct")).QuoRaw(100)
				if !a.IsPositive() {
					return
				}
				if r := c.Exec(&pmtypes.MsgSwapExactAmountIn{Sender: chain.Actor(3).String(), Routes: []pmtypes.SwapAmountInRoute{{PoolId: poolID, TokenOutDenom: out}}, TokenIn: coin(in, a), TokenOutMinAmount: osmomath.OneInt()}); r.OK() {
					priceMoved = true
					hist = append(hist, fmt.Sprintf("swap %s%s", a, in))
				}
			},
			"epoch": func(rt *rapid.T) {
				ei := c.App.EpochsKeeper.GetEpochInfo(c.Ctx, epochID)
				end := ei.CurrentEpochStartTime.Add(ei.Duration).Add(time.Second)
				if end.Before(c.Ctx.BlockTime()) {
					end = c.Ctx.BlockTime().Add(time.Second)
				}
				c.Ctx = c.Ctx.WithBlockTime(end).WithBlockHeight(c.Ctx.BlockHeight() + 1)
				c.App.EpochsKeeper.BeginBlocker(c.Ctx)
				superfluid.BeginBlocker(c.Ctx, *sfk, c.App.EpochsKeeper)
				for k := range opsSinceRefresh {
					opsSinceRefresh[k] = 0
				}
				justRefreshed = true
				if priceMoved {
					epochAfterMove = true
				}
				hist = append(hist, "EPOCH")
			},
			// a validator is slashed (as the slashing / evidence modules do from BeginBlock): staking burns the fraction of every
			// delegation including the intermediary accounts', superfluid's hook slashes the locks behind them. The burn is
			// staking's, not superfluid's, so the supply baseline is re-read after it; everything superfluid does afterwards
			// (undelegations and refreshes at an exchange rate != 1) must again leave the reported supply alone.
			"slash": func(rt *rapid.T) {
				if rapid.IntRange(0, 3).Draw(rt, "slashGate") != 0 {
					rt.Skip("slashes are rare events")
				}
				val := valAddrs[rapid.IntRange(0, len(valAddrs)-1).Draw(rt, "val")]
				frac := rapid.SampledFrom([]string{"0.01", "0.05", "0.07", "0.000001", "0.5"}).Draw(rt, "fraction")
				if slashed[val] >= 2 {
					rt.Skip("validator slashed twice already")
				}
				va, _ := sdk.ValAddressFromBech32(val)
				v, err := sk.GetValidator(c.Ctx, va)
				if err != nil || !v.IsBonded() {
					rt.Skip("validator not bonded")
				}
				cons, _ := v.GetConsAddr()
				power := v.GetConsensusPower(sk.PowerReduction(c.Ctx))
				err = c.Try(func(ctx sdk.Context) error {
					_, err := sk.Slash(ctx, cons, ctx.BlockHeight(), power, osmomath.MustNewDecFromStr(frac))
					return err
				})
				if err != nil {
					cs.Class("slash-failed")
					return
				}
				slashed[val]++
				supply0 = c.App.BankKeeper.GetSupplyWithOffset(c.Ctx, bond).Amount
				justRefreshed = false
				cs.Class("validator-slashed")
				hist = append(hist, fmt.Sprintf("SLASH %s %s", val[len(val)-4:], frac))
			},
			// a validator is jailed (downtime) without a slash, or unjailed: the exchange rate stays 1, so everything the
			// property says about the stake of its intermediary accounts keeps holding - top-ups and upward refreshes included
			"jail": func(rt *rapid.T) {
				if rapid.IntRange(0, 2).Draw(rt, "jailGate") != 0 {
					rt.Skip("jailings are rare events")
				}
				val := valAddrs[rapid.IntRange(0, len(valAddrs)-1).Draw(rt, "val")]
				va, _ := sdk.ValAddressFromBech32(val)
				v, err := sk.GetValidator(c.Ctx, va)
				if err != nil {
					rt.Skip("no such validator")
				}
				cons, _ := v.GetConsAddr()
				applyNow := rapid.Bool().Draw(rt, "validatorSetUpdateNow")
				err = c.Try(func(ctx sdk.Context) error {
					if v.IsJailed() {
						if err := sk.Unjail(ctx, cons); err != nil {
							return err
						}
					} else {
						if err := sk.Jail(ctx, cons); err != nil {
							return err
						}
					}
					// in half of the cases the staking end blocker's validator-set update follows at once (a jailed validator
					// starts unbonding and its tokens move to the not-bonded pool, an unjailed one returns to the bonded set);
					// otherwise the validator keeps its status for now, as it does until the end of the block
					if applyNow {
						if _, err := sk.BlockValidatorUpdates(ctx); err != nil {
							return err
						}
					}
					return nil
				})
				if err != nil {
					cs.Class("jail-failed")
					return
				}
				cs.Class("validator-jailed-or-unjailed")
				if applyNow {
					cs.Class("validator-set-updated-after-jailing")
				}
				hist = append(hist, fmt.Sprintf("JAIL/UNJAIL %s (was jailed=%v)", val[len(val)-4:], v.IsJailed()))
			},
			"time": func(rt *rapid.T) {
				dt := time.Duration(rapid.Int64Range(1, int64(30*24*time.Hour)).Draw(rt, "dt"))
				if rapid.Bool().Draw(rt, "short") {
					dt = time.Duration(rapid.Int64Range(1, int64(time.Hour)).Draw(rt, "dtShort"))
				}
				c.Ctx = c.Ctx.WithBlockTime(c.Ctx.BlockTime().Add(dt)).WithBlockHeight((c.Ctx.BlockHeight()/120 + 1) * 120)
				lockup.EndBlocker(c.Ctx, *lkk)
				hist = append(hist, fmt.Sprintf("+%s", dt))
			},
			"": func(rt *rapid.T) { invariants() },
		}
		rt.Repeat(actions)
		twoThrough := false
		cnt := map[string]int{}
		for _, l := range locks {
			if l.delegated {
				cnt[l.val]++
				if cnt[l.val] >= 2 {
					twoThrough = true
				}
			}
		}
		if twoThrough && epochAfterMove && undelegated {
			cs.NonTrivial(strings.Join(hist, ";"))
			cs.Sample(strings.Join(hist, "; "))
		}
	})
}

// TestRegress_C11_scenario_stake_rounds_to_zero is a fixed history of the property (the shape of seed c11a, which the
// random search reaches only at some seeds): a lock worth a few base units of OSMO is delegated, the price of the share
// collapses so that the whole stake of the intermediary account is force-undelegated at the next epoch, the price
// recovers, and the following epoch must bring the stake back to the risk-adjusted value of the lock.
func TestRegress_C11_scenario_stake_rounds_to_zero(t *testing.T) {
	c := chain.New(t)
	sk, sfk := c.App.StakingKeeper, c.App.SuperfluidKeeper
	bond, _ := sk.BondDenom(c.Ctx)
	c.EnableSuperfluidDurations()
	c.App.MintKeeper.SetMinter(c.Ctx, minttypes.NewMinter(osmomath.ZeroDec()))
	vals, _ := sk.GetAllValidators(c.Ctx)
	val := vals[0].GetOperator()
	va, _ := sdk.ValAddressFromBech32(val)
	big := osmomath.NewIntWithDecimal(1, 24)
	for a := 0; a < 4; a++ {
		c.Fund(chain.Actor(a), sdk.NewCoins(coin(bond, big), coin("token0", big), coin("uosmo", big)))
	}
	msg := balancer.NewMsgCreateBalancerPool(chain.Actor(3), balancer.PoolParams{SwapFee: osmomath.NewDecWithPrec(1, 3), ExitFee: osmomath.ZeroDec()},
		[]balancer.PoolAsset{{Weight: osmomath.NewInt(1), Token: coin(bond, osmomath.NewInt(1_000_000_000))}, {Weight: osmomath.NewInt(1), Token: coin("token0", osmomath.NewInt(10_000_000_000))}}, "")
	if r := c.Exec(&msg); !r.OK() {
		t.Fatalf("create pool: %v", r.Err)
	}
	poolID := c.App.PoolManagerKeeper.GetNextPoolId(c.Ctx) - 1
	share := gammtypes.GetPoolShareDenom(poolID)
	if err := sfk.AddNewSuperfluidAsset(c.Ctx, sftypes.SuperfluidAsset{Denom: share, AssetType: sftypes.SuperfluidAssetTypeLPShare}); err != nil {
		t.Fatal(err)
	}
	if r := c.Exec(&gammtypes.MsgJoinPool{Sender: chain.Actor(0).String(), PoolId: poolID, ShareOutAmount: osmomath.NewIntWithDecimal(50, 18), TokenInMaxs: sdk.NewCoins(coin(bond, big), coin("token0", big))}); !r.OK() {
		t.Fatalf("join: %v", r.Err)
	}
	epochID := sfk.GetEpochIdentifier(c.Ctx)
	c.App.EpochsKeeper.BeginBlocker(c.Ctx)
	epoch := func() {
		ei := c.App.EpochsKeeper.GetEpochInfo(c.Ctx, epochID)
		end := ei.CurrentEpochStartTime.Add(ei.Duration).Add(time.Second)
		if end.Before(c.Ctx.BlockTime()) {
			end = c.Ctx.BlockTime().Add(time.Second)
		}
		c.Ctx = c.Ctx.WithBlockTime(end).WithBlockHeight(c.Ctx.BlockHeight() + 1)
		c.App.EpochsKeeper.BeginBlocker(c.Ctx)
		superfluid.BeginBlocker(c.Ctx, *sfk, c.App.EpochsKeeper)
	}
	epoch() // multiplier set
	mult := sfk.GetOsmoEquivalentMultiplier(c.Ctx, share)
	if !mult.IsPositive() {
		t.Fatalf("harness: multiplier %s", mult)
	}
	amt := osmomath.NewDec(2 * 3).Quo(mult).Ceil().TruncateInt().AddRaw(1) // worth about 3 base units after risk adjustment
	r := c.Exec(sftypes.NewMsgLockAndSuperfluidDelegate(chain.Actor(0), sdk.NewCoins(coin(share, amt)), va))
	if !r.OK() {
		t.Fatalf("lock and delegate %s: %v", amt, r.Err)
	}
	stake := func() osmomath.Int {
		ia := sftypes.NewSuperfluidIntermediaryAccount(share, val, 0)
		del, err := sk.GetDelegation(c.Ctx, ia.GetAccAddress(), va)
		if err != nil {
			return osmomath.ZeroInt()
		}
		v, _ := sk.GetValidator(c.Ctx, va)
		return v.TokensFromShares(del.Shares).RoundInt()
	}
	expected := func() osmomath.Int {
		e, err := sfk.GetSuperfluidOSMOTokens(c.Ctx, share, amt)
		if err != nil {
			t.Fatal(err)
		}
		return e
	}
	swap := func(in, out string, pct int64) {
		pi, _ := c.App.PoolManagerKeeper.GetPool(c.Ctx, poolID)
		a := c.Bal(pi.GetAddress(), in).Amount.MulRaw(pct).QuoRaw(100)
		if r := c.Exec(&pmtypes.MsgSwapExactAmountIn{Sender: chain.Actor(3).String(), Routes: []pmtypes.SwapAmountInRoute{{PoolId: poolID, TokenOutDenom: out}}, TokenIn: coin(in, a), TokenOutMinAmount: osmomath.OneInt()}); !r.OK() {
			t.Fatalf("swap: %v", r.Err)
		}
	}
	if s := stake(); !s.IsPositive() {
		t.Fatalf("harness: nothing staked after the delegation (stake %s, expected %s)", s, expected())
	}
	// the bond denom leaves the pool: a share is worth a hundredth of what it was
	for i := 0; i < 4; i++ {
		swap("token0", bond, 300)
	}
	epoch()
	if e := expected(); !e.IsZero() {
		t.Skipf("harness: the price drop did not round the lock's value to zero (%s)", e)
	}
	if s := stake(); !s.IsZero() {
		t.Fatalf("after the collapse the lock is worth 0 but %s is still staked", s)
	}
	// and comes back
	for i := 0; i < 6; i++ {
		swap(bond, "token0", 300)
	}
	epoch()
	if e, s := expected(), stake(); !e.Equal(s) {
		t.Fatalf("after the recovery and an epoch refresh the lock is worth %s but %s is staked by its intermediary account", e, s)
	}
	if !expected().IsPositive() {
		t.Fatalf("harness: the recovery did not make the lock worth something again")
	}
}
