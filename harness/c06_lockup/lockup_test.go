package c06

import (
	"fmt"
	"math/big"
	"sort"
	"strings"
	"testing"
	"time"

	sdk "github.com/cosmos/cosmos-sdk/types"
	authtypes "github.com/cosmos/cosmos-sdk/x/auth/types"
	"pgregory.net/rapid"

	"github.com/osmosis-labs/osmosis/osmomath"
	"github.com/osmosis-labs/osmosis/v31/x/lockup"
	"github.com/osmosis-labs/osmosis/v31/x/lockup/types"

	"verif/harness/chain"
	"verif/harness/drv"
)

func TestMain(m *testing.M) { drv.Main(m) }

const rule = "state machine on the real application (tx semantics): 3 owners x denoms {foo, foobar, fooz, cl/pool/7 (a concentrated share denom: burned, not returned, at withdrawal)} x durations reused from a small pool (1ns..14d, +-1ns neighbours, MaxInt64) so many locks share a key; MsgLockTokens (new / add-to-existing), MsgExtendLockup, MsgBeginUnlocking full and partial (split), MsgBeginUnlockingAll, MsgSetRewardReceiverAddress, failing variants (wrong owner, too much, already unlocking, unauthorised force unlock), time advances (0, 1ns, to an end time -1ns/0/+1ns, days) with the lockup EndBlocker on the 120-block cadence; oracle: in-memory lock list; after every step module balance == sum of locks, accumulation(denom, d) == sum over live locks with duration >= d for every d used +-1ns, every by-id/owner/denom/duration/time getter and gRPC query with generated arguments == the model's filter, owner balance + locked constant; non-trivial = history with a split, two locks sharing (denom,duration), an extend and a matured withdrawal; distinct by history hash"

// the last denom is a concentrated-liquidity share denom: the module burns such coins when the lock is withdrawn (the
// position they tokenise carries the value) instead of returning them
var denoms = []string{"foo", "foobar", "fooz", "cl/pool/7"}

type mlock struct {
	id       uint64
	owner    int
	denom    string
	amt      *big.Int
	dur      time.Duration
	end      time.Time // zero = not unlocking
	receiver string    // "" = owner
}

func (l *mlock) unlocking() bool { return !l.end.IsZero() }

type world struct {
	c      *chain.Chain
	locks  map[uint64]*mlock
	lastID uint64
	funded map[string]*big.Int // owner/denom -> faucet total
	burned map[string]*big.Int // owner/denom -> concentrated share coins burned at the withdrawal of matured locks
	durs   []time.Duration
}

func key(o int, d string) string { return fmt.Sprintf("%d/%s", o, d) }

func (w *world) ids(pred func(*mlock) bool) []uint64 {
	var out []uint64
	for id, l := range w.locks {
		if pred(l) {
			out = append(out, id)
		}
	}
	sort.Slice(out, func(i, j int) bool { return out[i] < out[j] })
	return out
}

func (w *world) sum(pred func(*mlock) bool) map[string]*big.Int {
	out := map[string]*big.Int{}
	for _, l := range w.locks {
		if pred(l) {
			if out[l.denom] == nil {
				out[l.denom] = new(big.Int)
			}
			out[l.denom].Add(out[l.denom], l.amt)
		}
	}
	return out
}

func coinsMap(cs sdk.Coins) map[string]*big.Int {
	out := map[string]*big.Int{}
	for _, c := range cs {
		out[c.Denom] = c.Amount.BigInt()
	}
	return out
}

func eqMap(a, b map[string]*big.Int) bool {
	for _, d := range denoms {
		x, y := a[d], b[d]
		if x == nil {
			x = new(big.Int)
		}
		if y == nil {
			y = new(big.Int)
		}
		if x.Cmp(y) != 0 {
			return false
		}
	}
	return true
}

func fmtMap(a map[string]*big.Int) string {
	var s []string
	for _, d := range denoms {
		if a[d] != nil && a[d].Sign() != 0 {
			s = append(s, a[d].String()+d)
		}
	}
	return "[" + strings.Join(s, ",") + "]"
}

// checkLocks compares a getter's result with the model filter: same id set and identical records.
func (w *world) checkLocks(rt *rapid.T, what string, got []types.PeriodLock, pred func(*mlock) bool) {
	want := w.ids(pred)
	gids := make([]uint64, 0, len(got))
	for _, g := range got {
		gids = append(gids, g.ID)
	}
	sort.Slice(gids, func(i, j int) bool { return gids[i] < gids[j] })
	if fmt.Sprint(gids) != fmt.Sprint(want) {
		rt.Fatalf("%s: returned lock ids %v, the matching locks are %v", what, gids, want)
	}
	for _, g := range got {
		w.checkRecord(rt, what, g)
	}
}

func (w *world) checkRecord(rt *rapid.T, what string, g types.PeriodLock) {
	l := w.locks[g.ID]
	if l == nil {
		rt.Fatalf("%s: lock %d does not exist in the model", what, g.ID)
	}
	if g.Owner != chain.Actor(l.owner).String() || g.Duration != l.dur || !g.EndTime.Equal(l.end) || g.IsUnlocking() != l.unlocking() ||
		len(g.Coins) != 1 || g.Coins[0].Denom != l.denom || g.Coins[0].Amount.BigInt().Cmp(l.amt) != 0 || g.RewardReceiverAddress != l.receiver {
		rt.Fatalf("%s: lock %d record %+v differs from model {owner %d %s%s dur %s end %s recv %q}", what, g.ID, g, l.owner, l.amt, l.denom, l.dur, l.end, l.receiver)
	}
}

func (w *world) invariants(rt *rapid.T) {
	c := w.c
	k := c.App.LockupKeeper
	ctx := c.Ctx
	now := ctx.BlockTime()
	all := func(*mlock) bool { return true }
	// module balance == sum of live locks
	modAddr := authtypes.NewModuleAddress(types.ModuleName)
	if got, want := coinsMap(c.App.BankKeeper.GetAllBalances(ctx, modAddr)), w.sum(all); !eqMap(got, want) {
		rt.Fatalf("lockup module holds %s, live locks sum to %s", fmtMap(got), fmtMap(want))
	}
	if got := coinsMap(k.GetModuleBalance(ctx)); !eqMap(got, w.sum(all)) {
		rt.Fatalf("GetModuleBalance %s != sum of locks %s", fmtMap(got), fmtMap(w.sum(all)))
	}
	if got, want := coinsMap(k.GetModuleLockedCoins(ctx)), w.sum(func(l *mlock) bool { return !l.unlocking() || l.end.After(now) }); !eqMap(got, want) {
		rt.Fatalf("GetModuleLockedCoins %s, model %s", fmtMap(got), fmtMap(want))
	}
	// accumulation for every duration used and its +-1ns neighbours
	ds := map[time.Duration]bool{0: true, 1: true}
	for _, d := range w.durs {
		ds[d] = true
		if d > 1 {
			ds[d-1] = true
		}
		if d < 1<<62 {
			ds[d+1] = true
		}
	}
	for _, dn := range denoms {
		for d := range ds {
			want := new(big.Int)
			for _, l := range w.locks {
				if l.denom == dn && l.dur >= d {
					want.Add(want, l.amt)
				}
			}
			got := k.GetPeriodLocksAccumulation(ctx, types.QueryCondition{LockQueryType: types.ByDuration, Denom: dn, Duration: d})
			if got.BigInt().Cmp(want) != 0 {
				rt.Fatalf("amount of %s locked for at least %s: accumulation store says %s, live locks sum to %s", dn, d, got, want)
			}
			if got2 := k.GetLockedDenom(ctx, dn, d); !got2.Equal(got) {
				rt.Fatalf("GetLockedDenom(%s,%s)=%s != accumulation %s", dn, d, got2, got)
			}
		}
	}
	// conservation per owner
	for o := 0; o < 3; o++ {
		for _, dn := range denoms {
			bal := c.Bal(chain.Actor(o), dn).Amount.BigInt()
			locked := new(big.Int)
			for _, l := range w.locks {
				if l.owner == o && l.denom == dn {
					locked.Add(locked, l.amt)
				}
			}
			f := w.funded[key(o, dn)]
			if f == nil {
				f = new(big.Int)
			}
			if b := w.burned[key(o, dn)]; b != nil {
				locked.Add(locked, b)
			}
			if new(big.Int).Add(bal, locked).Cmp(f) != 0 {
				rt.Fatalf("owner %d: balance %s + locked %s of %s != %s ever received (coins left the module early, late, or to someone else)", o, bal, locked, dn, f)
			}
		}
	}
	// by id, all, next id
	pl, _ := k.GetPeriodLocks(ctx)
	w.checkLocks(rt, "GetPeriodLocks", pl, all)
	if k.GetLastLockID(ctx) != w.lastID {
		rt.Fatalf("last lock id %d, model %d", k.GetLastLockID(ctx), w.lastID)
	}
	for id := uint64(1); id <= w.lastID+1; id++ {
		g, err := k.GetLockByID(ctx, id)
		if w.locks[id] == nil {
			if err == nil {
				rt.Fatalf("GetLockByID(%d) returned a withdrawn/nonexistent lock", id)
			}
			continue
		}
		if err != nil {
			rt.Fatalf("GetLockByID(%d): %v", id, err)
		}
		w.checkRecord(rt, "GetLockByID", *g)
		rr, _ := k.GetLockRewardReceiver(ctx, id)
		want := w.locks[id].receiver
		if want == "" {
			want = chain.Actor(w.locks[id].owner).String()
		}
		if rr != want {
			rt.Fatalf("GetLockRewardReceiver(%d) = %s want %s", id, rr, want)
		}
	}
}

func (w *world) genDur(rt *rapid.T, label string) time.Duration {
	if len(w.durs) > 0 && rapid.IntRange(0, 2).Draw(rt, label+"Reuse") > 0 {
		d := w.durs[rapid.IntRange(0, len(w.durs)-1).Draw(rt, label+"Idx")]
		switch rapid.IntRange(0, 5).Draw(rt, label+"Nb") {
		case 0:
			if d > 1 {
				d--
			}
		case 1:
			if d < 1<<62 {
				d++
			}
		}
		return d
	}
	return rapid.SampledFrom([]time.Duration{1, time.Second, time.Hour, 24 * time.Hour, 7 * 24 * time.Hour, 14 * 24 * time.Hour, 1<<63 - 1}).Draw(rt, label)
}

func (w *world) genTime(rt *rapid.T, label string) time.Time {
	now := w.c.Ctx.BlockTime()
	var ends []time.Time
	for _, l := range w.locks {
		if l.unlocking() {
			ends = append(ends, l.end)
		}
	}
	sort.Slice(ends, func(i, j int) bool { return ends[i].Before(ends[j]) })
	switch rapid.IntRange(0, 4).Draw(rt, label+"Kind") {
	case 0:
		return now
	case 1:
		if len(ends) > 0 {
			e := ends[rapid.IntRange(0, len(ends)-1).Draw(rt, label+"End")]
			return e.Add(time.Duration(rapid.IntRange(-1, 1).Draw(rt, label+"Off")))
		}
	case 2:
		if len(w.durs) > 0 {
			d := w.durs[rapid.IntRange(0, len(w.durs)-1).Draw(rt, label+"D")]
			if d < 1<<61 {
				return now.Add(d + time.Duration(rapid.IntRange(-1, 1).Draw(rt, label+"Off")))
			}
		}
	case 3:
		return now.Add(-time.Duration(rapid.Int64Range(0, int64(30*24*time.Hour)).Draw(rt, label+"Past")))
	}
	return now.Add(time.Duration(rapid.Int64Range(0, int64(30*24*time.Hour)).Draw(rt, label+"Fut")))
}

// queries runs a few generated getter / gRPC queries against the model.
func (w *world) queries(rt *rapid.T) {
	c := w.c
	k := c.App.LockupKeeper
	ctx := c.Ctx
	now := ctx.BlockTime()
	q := lockupQuerier(c)
	for i := 0; i < 3; i++ {
		o := rapid.IntRange(0, 3).Draw(rt, "qOwner") // owner 3 never locks anything
		addr := chain.Actor(o)
		dn := denoms[rapid.IntRange(0, len(denoms)-1).Draw(rt, "qDenom")]
		d := w.genDur(rt, "qDur")
		ts := w.genTime(rt, "qTime")
		rem := time.Duration(0)
		if ts.After(now) {
			rem = ts.Sub(now)
		}
		mine := func(l *mlock) bool { return l.owner == o }
		switch rapid.IntRange(0, 17).Draw(rt, "qKind") {
		case 0:
			if got, want := coinsMap(k.GetAccountUnlockableCoins(ctx, addr)), w.sum(func(l *mlock) bool { return mine(l) && l.unlocking() && !l.end.After(now) }); !eqMap(got, want) {
				rt.Fatalf("GetAccountUnlockableCoins(%d) %s, model %s", o, fmtMap(got), fmtMap(want))
			}
		case 1:
			if got, want := coinsMap(k.GetAccountUnlockingCoins(ctx, addr)), w.sum(func(l *mlock) bool { return mine(l) && l.unlocking() && l.end.After(now) }); !eqMap(got, want) {
				rt.Fatalf("GetAccountUnlockingCoins(%d) %s, model %s", o, fmtMap(got), fmtMap(want))
			}
		case 2:
			want := w.sum(func(l *mlock) bool { return mine(l) && (!l.unlocking() || l.end.After(now)) })
			if got := coinsMap(k.GetAccountLockedCoins(ctx, addr)); !eqMap(got, want) {
				rt.Fatalf("GetAccountLockedCoins(%d) %s, model %s", o, fmtMap(got), fmtMap(want))
			}
			res, err := q.AccountLockedCoins(ctx, &types.AccountLockedCoinsRequest{Owner: addr.String()})
			if err != nil || !eqMap(coinsMap(res.Coins), want) {
				rt.Fatalf("gRPC AccountLockedCoins(%d): %v", o, err)
			}
		case 3:
			pred := func(l *mlock) bool {
				return mine(l) && ((l.unlocking() && l.end.After(ts)) || (!l.unlocking() && l.dur >= rem))
			}
			w.checkLocks(rt, fmt.Sprintf("GetAccountLockedPastTime(%d,%s)", o, ts), k.GetAccountLockedPastTime(ctx, addr, ts), pred)
			res, err := q.AccountLockedPastTime(ctx, &types.AccountLockedPastTimeRequest{Owner: addr.String(), Timestamp: ts})
			if err != nil {
				rt.Fatalf("gRPC AccountLockedPastTime: %v", err)
			}
			w.checkLocks(rt, "gRPC AccountLockedPastTime", res.Locks, pred)
		case 4:
			w.checkLocks(rt, fmt.Sprintf("GetAccountLockedPastTimeNotUnlockingOnly(%d,%s)", o, ts), k.GetAccountLockedPastTimeNotUnlockingOnly(ctx, addr, ts),
				func(l *mlock) bool { return mine(l) && !l.unlocking() && l.dur >= rem })
		case 5:
			pred := func(l *mlock) bool {
				if !mine(l) {
					return false
				}
				if l.unlocking() {
					return !l.end.After(ts)
				}
				return !ts.Before(now) && l.dur < ts.Sub(now)
			}
			w.checkLocks(rt, fmt.Sprintf("GetAccountUnlockedBeforeTime(%d,%s)", o, ts), k.GetAccountUnlockedBeforeTime(ctx, addr, ts), pred)
		case 6:
			w.checkLocks(rt, fmt.Sprintf("GetAccountLockedPastTimeDenom(%d,%s,%s)", o, dn, ts), k.GetAccountLockedPastTimeDenom(ctx, addr, dn, ts),
				func(l *mlock) bool {
					return mine(l) && l.denom == dn && ((l.unlocking() && l.end.After(ts)) || (!l.unlocking() && l.dur >= rem))
				})
		case 7:
			w.checkLocks(rt, fmt.Sprintf("GetAccountLockedDurationNotUnlockingOnly(%d,%s,%s)", o, dn, d), k.GetAccountLockedDurationNotUnlockingOnly(ctx, addr, dn, d),
				func(l *mlock) bool { return mine(l) && l.denom == dn && !l.unlocking() && l.dur == d })
		case 8:
			pred := func(l *mlock) bool { return mine(l) && l.dur >= d }
			w.checkLocks(rt, fmt.Sprintf("GetAccountLockedLongerDuration(%d,%s)", o, d), k.GetAccountLockedLongerDuration(ctx, addr, d), pred)
			res, err := q.AccountLockedLongerDuration(ctx, &types.AccountLockedLongerDurationRequest{Owner: addr.String(), Duration: d})
			if err != nil {
				rt.Fatalf("gRPC AccountLockedLongerDuration: %v", err)
			}
			w.checkLocks(rt, "gRPC AccountLockedLongerDuration", res.Locks, pred)
		case 9:
			w.checkLocks(rt, fmt.Sprintf("GetAccountLockedDuration(%d,%s)", o, d), k.GetAccountLockedDuration(ctx, addr, d),
				func(l *mlock) bool { return mine(l) && l.dur == d })
		case 10:
			w.checkLocks(rt, fmt.Sprintf("GetAccountLockedLongerDurationNotUnlockingOnly(%d,%s)", o, d), k.GetAccountLockedLongerDurationNotUnlockingOnly(ctx, addr, d),
				func(l *mlock) bool { return mine(l) && !l.unlocking() && l.dur >= d })
		case 11:
			w.checkLocks(rt, fmt.Sprintf("GetAccountLockedLongerDurationDenom(%d,%s,%s)", o, dn, d), k.GetAccountLockedLongerDurationDenom(ctx, addr, dn, d),
				func(l *mlock) bool { return mine(l) && l.denom == dn && l.dur >= d })
		case 12:
			w.checkLocks(rt, fmt.Sprintf("GetAccountLockedLongerDurationDenomNotUnlockingOnly(%d,%s,%s)", o, dn, d), k.GetAccountLockedLongerDurationDenomNotUnlockingOnly(ctx, addr, dn, d),
				func(l *mlock) bool { return mine(l) && l.denom == dn && !l.unlocking() && l.dur >= d })
		case 13:
			w.checkLocks(rt, fmt.Sprintf("GetLocksPastTimeDenom(%s,%s)", dn, ts), k.GetLocksPastTimeDenom(ctx, dn, ts),
				func(l *mlock) bool {
					return l.denom == dn && ((l.unlocking() && l.end.After(ts)) || (!l.unlocking() && l.dur >= rem))
				})
		case 14:
			w.checkLocks(rt, fmt.Sprintf("GetLocksDenom(%s)", dn), k.GetLocksDenom(ctx, dn), func(l *mlock) bool { return l.denom == dn })
		case 15:
			w.checkLocks(rt, fmt.Sprintf("GetLocksLongerThanDurationDenom(%s,%s)", dn, d), k.GetLocksLongerThanDurationDenom(ctx, dn, d),
				func(l *mlock) bool { return l.denom == dn && l.dur >= d })
		case 16:
			w.checkLocks(rt, fmt.Sprintf("GetAccountPeriodLocks(%d)", o), k.GetAccountPeriodLocks(ctx, addr), mine)
		default:
			res, err := q.NextLockID(ctx, &types.NextLockIDRequest{})
			if err != nil || res.LockId != w.lastID+1 {
				rt.Fatalf("NextLockID = %v, %v; want %d", res, err, w.lastID+1)
			}
			res2, err := q.AccountUnlockedBeforeTime(ctx, &types.AccountUnlockedBeforeTimeRequest{Owner: addr.String(), Timestamp: ts})
			if err != nil {
				rt.Fatalf("gRPC AccountUnlockedBeforeTime: %v", err)
			}
			w.checkLocks(rt, "gRPC AccountUnlockedBeforeTime", res2.Locks, func(l *mlock) bool {
				if !mine(l) {
					return false
				}
				if l.unlocking() {
					return !l.end.After(ts)
				}
				return !ts.Before(now) && l.dur < ts.Sub(now)
			})
		}
	}
}

func (w *world) noteDur(d time.Duration) {
	for _, x := range w.durs {
		if x == d {
			return
		}
	}
	w.durs = append(w.durs, d)
}

func (w *world) pickLock(rt *rapid.T, pred func(*mlock) bool) *mlock {
	ids := w.ids(pred)
	if len(ids) == 0 {
		rt.Skip("no such lock")
	}
	return w.locks[ids[rapid.IntRange(0, len(ids)-1).Draw(rt, "lockIdx")]]
}

func genAmt(rt *rapid.T, label string, max *big.Int) *big.Int {
	switch rapid.IntRange(0, 4).Draw(rt, label+"Shape") {
	case 0:
		return big.NewInt(1)
	case 1:
		return new(big.Int).Set(max)
	case 2:
		if max.Cmp(big.NewInt(1)) > 0 {
			return new(big.Int).Sub(max, big.NewInt(1))
		}
		return big.NewInt(1)
	default:
		m := new(big.Int).Set(max)
		if !m.IsInt64() {
			m = big.NewInt(1 << 62)
		}
		return big.NewInt(rapid.Int64Range(1, m.Int64()).Draw(rt, label))
	}
}

func TestPropLockup(t *testing.T) {
	drv.Check(t, drv.Cfg{Name: "lockup-vs-model", Rule: rule, Quick: 300, Thorough: 5000, Steps: 35, TSteps: 70}, func(rt *rapid.T, cs *drv.Case) {
		c := chain.New(t)
		w := &world{c: c, locks: map[uint64]*mlock{}, funded: map[string]*big.Int{}, burned: map[string]*big.Int{}}
		w.lastID = c.App.LockupKeeper.GetLastLockID(c.Ctx)
		for o := 0; o < 3; o++ {
			for _, dn := range denoms {
				amt := big.NewInt(1_000_000_000_000)
				c.Fund(chain.Actor(o), sdk.NewCoins(sdk.NewCoin(dn, osmomath.NewIntFromBigInt(amt))))
				w.funded[key(o, dn)] = amt
			}
		}
		var hist []string
		didSplit, didShare, didExtend, didMature := false, false, false, false
		expectFail := func(what string, msg sdk.Msg) {
			before := c.Digest()
			if r := c.Exec(msg); r.OK() {
				rt.Fatalf("%s: expected the transaction to fail, it succeeded", what)
			}
			if c.Digest() != before {
				rt.Fatalf("%s: failed transaction changed state", what)
			}
		}
		var lockAction func(rt *rapid.T)
		actions := map[string]func(*rapid.T){
			"lock": func(rt *rapid.T) { lockAction(rt) },
			"lock2": func(rt *rapid.T) { lockAction(rt) },
			"lock3": func(rt *rapid.T) { lockAction(rt) },
		}
		lockAction = func(rt *rapid.T) {
			func(rt *rapid.T) {
				o := rapid.IntRange(0, 2).Draw(rt, "owner")
				dn := denoms[rapid.IntRange(0, len(denoms)-1).Draw(rt, "denom")]
				d := w.genDur(rt, "dur")
				bal := c.Bal(chain.Actor(o), dn).Amount.BigInt()
				if bal.Sign() == 0 {
					rt.Skip("broke")
				}
				amt := genAmt(rt, "amt", bal)
				if rapid.IntRange(0, 15).Draw(rt, "tooMuch") == 0 {
					amt = new(big.Int).Add(bal, big.NewInt(1))
					expectFail("lock more than the balance", types.NewMsgLockTokens(chain.Actor(o), d, sdk.NewCoins(sdk.NewCoin(dn, osmomath.NewIntFromBigInt(amt)))))
					return
				}
				existing := w.ids(func(l *mlock) bool { return l.owner == o && l.denom == dn && l.dur == d && !l.unlocking() })
				r := c.Exec(types.NewMsgLockTokens(chain.Actor(o), d, sdk.NewCoins(sdk.NewCoin(dn, osmomath.NewIntFromBigInt(amt)))))
				if !r.OK() {
					rt.Fatalf("MsgLockTokens(owner %d, %s%s, %s) failed: %v", o, amt, dn, d, r.Err)
				}
				var resp types.MsgLockTokensResponse
				mustUnpack(rt, r, &resp)
				if len(existing) > 0 {
					l := w.locks[resp.ID]
					if l == nil || l.owner != o || l.denom != dn || l.dur != d || l.unlocking() {
						rt.Fatalf("MsgLockTokens added to lock %d which is not a bonded lock of owner %d with %s/%s", resp.ID, o, dn, d)
					}
					l.amt = new(big.Int).Add(l.amt, amt)
					hist = append(hist, fmt.Sprintf("add o%d %s%s %s ->#%d", o, amt, dn, d, resp.ID))
				} else {
					w.lastID++
					if resp.ID != w.lastID {
						rt.Fatalf("new lock got id %d, expected %d", resp.ID, w.lastID)
					}
					w.locks[resp.ID] = &mlock{id: resp.ID, owner: o, denom: dn, amt: amt, dur: d}
					w.noteDur(d)
					if len(w.ids(func(l *mlock) bool { return l.denom == dn && l.dur == d })) >= 2 {
						didShare = true
					}
					hist = append(hist, fmt.Sprintf("lock o%d %s%s %s ->#%d", o, amt, dn, d, resp.ID))
				}
			}(rt)
		}
		more := map[string]func(*rapid.T){
			"extend": func(rt *rapid.T) {
				l := w.pickLock(rt, func(l *mlock) bool { return true })
				d := w.genDur(rt, "dur")
				sender := l.owner
				if rapid.IntRange(0, 9).Draw(rt, "wrongOwner") == 0 {
					sender = (l.owner + 1) % 3
				}
				msg := types.NewMsgExtendLockup(chain.Actor(sender), l.id, d)
				if sender != l.owner || l.unlocking() || d <= l.dur {
					expectFail(fmt.Sprintf("extend #%d to %s by %d (owner %d, unlocking %v, cur %s)", l.id, d, sender, l.owner, l.unlocking(), l.dur), msg)
					return
				}
				if r := c.Exec(msg); !r.OK() {
					rt.Fatalf("MsgExtendLockup(#%d,%s): %v", l.id, d, r.Err)
				}
				l.dur = d
				w.noteDur(d)
				didExtend = true
				if len(w.ids(func(x *mlock) bool { return x.denom == l.denom && x.dur == d })) >= 2 {
					didShare = true
				}
				hist = append(hist, fmt.Sprintf("extend #%d %s", l.id, d))
			},
			"beginUnlock": func(rt *rapid.T) {
				l := w.pickLock(rt, func(l *mlock) bool { return true })
				sender := l.owner
				if rapid.IntRange(0, 9).Draw(rt, "wrongOwner") == 0 {
					sender = (l.owner + 1) % 3
				}
				var coins sdk.Coins
				amt := new(big.Int).Set(l.amt)
				kind := rapid.IntRange(0, 3).Draw(rt, "unlockKind")
				switch kind {
				case 0: // empty coins = everything
				case 1:
					coins = sdk.NewCoins(sdk.NewCoin(l.denom, osmomath.NewIntFromBigInt(amt)))
				case 2:
					amt = genAmt(rt, "part", l.amt)
					coins = sdk.NewCoins(sdk.NewCoin(l.denom, osmomath.NewIntFromBigInt(amt)))
				default:
					amt = new(big.Int).Add(l.amt, big.NewInt(1))
					coins = sdk.NewCoins(sdk.NewCoin(l.denom, osmomath.NewIntFromBigInt(amt)))
				}
				msg := types.NewMsgBeginUnlocking(chain.Actor(sender), l.id, coins)
				if sender != l.owner || l.unlocking() || amt.Cmp(l.amt) > 0 {
					expectFail(fmt.Sprintf("begin unlocking #%d %s by %d", l.id, coins, sender), msg)
					return
				}
				r := c.Exec(msg)
				if !r.OK() {
					rt.Fatalf("MsgBeginUnlocking(#%d,%s): %v", l.id, coins, r.Err)
				}
				var resp types.MsgBeginUnlockingResponse
				mustUnpack(rt, r, &resp)
				end := c.Ctx.BlockTime().Add(l.dur)
				if amt.Cmp(l.amt) == 0 {
					if resp.UnlockingLockID != l.id {
						rt.Fatalf("full unlock of #%d reported unlocking lock %d", l.id, resp.UnlockingLockID)
					}
					l.end = end
				} else {
					w.lastID++
					if resp.UnlockingLockID != w.lastID {
						rt.Fatalf("partial unlock of #%d created lock %d, expected %d", l.id, resp.UnlockingLockID, w.lastID)
					}
					l.amt = new(big.Int).Sub(l.amt, amt)
					w.locks[w.lastID] = &mlock{id: w.lastID, owner: l.owner, denom: l.denom, amt: amt, dur: l.dur, end: end, receiver: l.receiver}
					didSplit = true
				}
				hist = append(hist, fmt.Sprintf("unlock #%d %s", l.id, coins))
			},
			"beginUnlockAll": func(rt *rapid.T) {
				o := rapid.IntRange(0, 2).Draw(rt, "owner")
				if r := c.Exec(types.NewMsgBeginUnlockingAll(chain.Actor(o))); !r.OK() {
					rt.Fatalf("MsgBeginUnlockingAll(%d): %v", o, r.Err)
				}
				for _, l := range w.locks {
					if l.owner == o && !l.unlocking() {
						l.end = c.Ctx.BlockTime().Add(l.dur)
					}
				}
				hist = append(hist, fmt.Sprintf("unlockAll o%d", o))
			},
			"setReceiver": func(rt *rapid.T) {
				l := w.pickLock(rt, func(l *mlock) bool { return true })
				sender := l.owner
				if rapid.IntRange(0, 9).Draw(rt, "wrongOwner") == 0 {
					sender = (l.owner + 1) % 3
				}
				recv := rapid.IntRange(0, 3).Draw(rt, "receiver")
				newRecv := chain.Actor(recv).String()
				stored := newRecv
				if recv == l.owner {
					stored = ""
				}
				msg := types.NewMsgSetRewardReceiverAddress(chain.Actor(sender), chain.Actor(recv), l.id)
				if sender != l.owner || stored == l.receiver {
					expectFail(fmt.Sprintf("set receiver of #%d to %d by %d", l.id, recv, sender), msg)
					return
				}
				if r := c.Exec(msg); !r.OK() {
					rt.Fatalf("MsgSetRewardReceiverAddress(#%d): %v", l.id, r.Err)
				}
				l.receiver = stored
				hist = append(hist, fmt.Sprintf("recv #%d ->%d", l.id, recv))
			},
			"forceUnlockDenied": func(rt *rapid.T) {
				l := w.pickLock(rt, func(l *mlock) bool { return true })
				sender := rapid.IntRange(0, 3).Draw(rt, "sender")
				expectFail("force unlock by a non-whitelisted address", types.NewMsgForceUnlock(chain.Actor(sender), l.id, sdk.Coins{}))
			},
			"time": func(rt *rapid.T) {
				var dt time.Duration
				now := c.Ctx.BlockTime()
				switch rapid.IntRange(0, 4).Draw(rt, "dtKind") {
				case 0:
					dt = 0
				case 1:
					dt = 1
				case 2:
					t := w.genTime(rt, "target")
					if t.After(now) {
						dt = t.Sub(now)
					}
				case 3:
					dt = time.Duration(rapid.Int64Range(0, int64(20*24*time.Hour)).Draw(rt, "days"))
				default:
					dt = time.Duration(rapid.Int64Range(0, int64(2*time.Hour)).Draw(rt, "hours"))
				}
				c.Ctx = c.Ctx.WithBlockTime(now.Add(dt))
				h := c.Ctx.BlockHeight() + 1
				cadence := rapid.IntRange(0, 2).Draw(rt, "cadence") > 0
				if cadence {
					h = (h/120 + 1) * 120
				} else if h%120 == 0 {
					h++
				}
				c.Ctx = c.Ctx.WithBlockHeight(h)
				lockup.EndBlocker(c.Ctx, *c.App.LockupKeeper)
				if cadence {
					for id, l := range w.locks {
						if l.unlocking() && !l.end.After(c.Ctx.BlockTime()) {
							if strings.HasPrefix(l.denom, "cl/pool") {
								if w.burned[key(l.owner, l.denom)] == nil {
									w.burned[key(l.owner, l.denom)] = new(big.Int)
								}
								w.burned[key(l.owner, l.denom)].Add(w.burned[key(l.owner, l.denom)], l.amt)
							}
							delete(w.locks, id)
							didMature = true
						}
					}
				}
				hist = append(hist, fmt.Sprintf("+%s h=%d", dt, h))
			},
			"": func(rt *rapid.T) {
				w.invariants(rt)
				w.queries(rt)
			},
		}
		for k, v := range more {
			actions[k] = v
		}
		rt.Repeat(actions)
		if didSplit {
			cs.Class("split")
		}
		if didShare {
			cs.Class("shared-key")
		}
		if didExtend {
			cs.Class("extend")
		}
		if didMature {
			cs.Class("matured-withdrawal")
		}
		if didSplit && didShare && didExtend && didMature {
			cs.NonTrivial(strings.Join(hist, ";"))
			cs.Sample(strings.Join(hist, "; "))
		}
	})
}
