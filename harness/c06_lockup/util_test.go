package c06

import (
	"pgregory.net/rapid"

	"github.com/osmosis-labs/osmosis/v31/x/lockup/keeper"

	"verif/harness/chain"
)

func mustUnpack(rt *rapid.T, r chain.ExecResult, out interface{ Unmarshal([]byte) error }) {
	if err := r.Unpack(out); err != nil {
		rt.Fatalf("cannot decode message response: %v", err)
	}
}

func lockupQuerier(c *chain.Chain) keeper.Querier { return keeper.NewQuerier(*c.App.LockupKeeper) }
