// Package ref holds reference arithmetic that shares no code with osmomath: exact big.Int/big.Rat
// rounding helpers and high-precision big.Float transcendental functions.
package ref

import "math/big"

var (
	One = big.NewInt(1)
	Two = big.NewInt(2)
	Ten = big.NewInt(10)
)

// Pow10 returns 10^n.
func Pow10(n int) *big.Int { return new(big.Int).Exp(Ten, big.NewInt(int64(n)), nil) }

// DivFloor returns floor(n/d), d != 0.
func DivFloor(n, d *big.Int) *big.Int {
	q, r := new(big.Int).QuoRem(n, d, new(big.Int))
	if r.Sign() != 0 && (r.Sign() < 0) != (d.Sign() < 0) {
		q.Sub(q, One)
	}
	return q
}

// DivCeil returns ceil(n/d), d != 0.
func DivCeil(n, d *big.Int) *big.Int {
	q, r := new(big.Int).QuoRem(n, d, new(big.Int))
	if r.Sign() != 0 && (r.Sign() < 0) == (d.Sign() < 0) {
		q.Add(q, One)
	}
	return q
}

// DivTrunc returns n/d rounded toward zero.
func DivTrunc(n, d *big.Int) *big.Int { return new(big.Int).Quo(n, d) }

// DivHalfEven returns n/d rounded to nearest, ties to even.
func DivHalfEven(n, d *big.Int) *big.Int {
	fl := DivFloor(n, d)
	// rem = n - fl*d, in [0,|d|) when d>0 ; compare 2*rem with d
	rem := new(big.Int).Sub(n, new(big.Int).Mul(fl, d))
	twice := new(big.Int).Mul(rem, Two)
	c := new(big.Int).Abs(twice).Cmp(new(big.Int).Abs(d))
	switch {
	case c < 0:
		return fl
	case c > 0:
		return fl.Add(fl, One)
	default:
		if fl.Bit(0) == 0 {
			return fl
		}
		return fl.Add(fl, One)
	}
}

// Exact reports whether d divides n.
func Exact(n, d *big.Int) bool {
	return new(big.Int).Rem(n, d).Sign() == 0
}
