package ref

import (
	"math/big"
)

// Prec is the working precision (bits) of the transcendental references: ~300 decimal digits.
const Prec = 1024

func F(x float64) *big.Float    { return new(big.Float).SetPrec(Prec).SetFloat64(x) }
func FI(i *big.Int) *big.Float  { return new(big.Float).SetPrec(Prec).SetInt(i) }
func FR(r *big.Rat) *big.Float  { return new(big.Float).SetPrec(Prec).SetRat(r) }
func nf() *big.Float            { return new(big.Float).SetPrec(Prec) }
func Fadd(a, b *big.Float) *big.Float { return nf().Add(a, b) }
func Fsub(a, b *big.Float) *big.Float { return nf().Sub(a, b) }
func Fmul(a, b *big.Float) *big.Float { return nf().Mul(a, b) }
func Fquo(a, b *big.Float) *big.Float { return nf().Quo(a, b) }
func Fabs(a *big.Float) *big.Float    { return nf().Abs(a) }

// FScaled returns i / 10^dec.
func FScaled(i *big.Int, dec int) *big.Float { return Fquo(FI(i), FI(Pow10(dec))) }

var ln2 *big.Float

func init() {
	// ln 2 = 2 atanh(1/3)
	ln2 = Fmul(F(2), atanh(Fquo(F(1), F(3))))
}

// atanh(z) for |z| <= 1/3 by its Maclaurin series.
func atanh(z *big.Float) *big.Float {
	z2 := Fmul(z, z)
	term := nf().Set(z)
	sum := nf().Set(z)
	eps := nf().SetMantExp(F(1), -(Prec + 8))
	for k := int64(3); ; k += 2 {
		term = Fmul(term, z2)
		t := Fquo(term, F(float64(k)))
		sum = Fadd(sum, t)
		if Fabs(t).Cmp(Fmul(eps, Fabs(sum))) < 0 || t.Sign() == 0 {
			break
		}
	}
	return sum
}

// Ln returns the natural logarithm of x > 0.
func Ln(x *big.Float) *big.Float {
	if x.Sign() <= 0 {
		panic("ref.Ln: non-positive argument")
	}
	m := nf()
	e := x.MantExp(m) // x = m * 2^e, m in [0.5,1)
	// move m to [sqrt(1/2), sqrt(2)) so that |z| <= 0.1716
	if m.Cmp(F(0.70710678118654752440)) < 0 {
		m = Fmul(m, F(2))
		e--
	}
	z := Fquo(Fsub(m, F(1)), Fadd(m, F(1)))
	lnm := Fmul(F(2), atanh(z))
	return Fadd(lnm, Fmul(F(float64(e)), ln2))
}

// Log2 returns log base 2 of x > 0.
func Log2(x *big.Float) *big.Float { return Fquo(Ln(x), ln2) }

// Exp returns e^y.
func Exp(y *big.Float) *big.Float {
	// argument reduction: y = k ln2 + r, |r| <= ln2/2 ; e^y = 2^k e^r
	kf := Fquo(y, ln2)
	k, _ := kf.Int64()
	r := Fsub(y, Fmul(F(float64(k)), ln2))
	// further halve r 16 times
	const h = 16
	r = nf().SetMantExp(r, -h)
	sum := F(1)
	term := F(1)
	eps := nf().SetMantExp(F(1), -(Prec + 8))
	for i := int64(1); i < 2000; i++ {
		term = Fquo(Fmul(term, r), F(float64(i)))
		sum = Fadd(sum, term)
		if Fabs(term).Cmp(eps) < 0 {
			break
		}
	}
	for i := 0; i < h; i++ {
		sum = Fmul(sum, sum)
	}
	return nf().SetMantExp(sum, int(k))
}

// Exp2 returns 2^y.
func Exp2(y *big.Float) *big.Float { return Exp(Fmul(y, ln2)) }

// Pow returns x^y for x > 0.
func Pow(x, y *big.Float) *big.Float {
	if y.Sign() == 0 {
		return F(1)
	}
	return Exp(Fmul(y, Ln(x)))
}

// RelErr returns |got/want - 1|.
func RelErr(got, want *big.Float) *big.Float {
	return Fabs(Fsub(Fquo(got, want), F(1)))
}

// PowTol is the absolute error bound of osmomath.Pow(base, exp) for base in (0,2): the series behind
// the fractional part stops when a term drops below 1e-8; for base<1 all later terms share a sign, so
// the tail is bounded by 1e-8*|x|/(1-|x|) (x = base-1), for base>=1 it alternates (tail <= 1e-8);
// the integer part multiplies it; (1e-15 + 2e-18*floor(exp))*(1+result) covers 18-decimal rounding of the series and of the square-and-multiply integer power. Integer exponents have
// no series error. (Checked against the implementation over the whole domain by the C13 harness.)
// ForceSeriesTerm makes PowTol include the series term even for integer exponents (callers whose
// implementation-side exponent is a rounded quotient and therefore not exactly the integer).
var ForceSeriesTerm = false

func PowTol(base, exp *big.Float) *big.Float {
	want := Pow(base, exp)
	ip, _ := exp.Int(nil)
	// 18-decimal rounding: 1e-15 flat, plus the square-and-multiply integer power whose relative error
	// doubles per squaring, i.e. grows linearly with the exponent (2e-18 per unit of exponent)
	rel := Fadd(Fquo(F(1), FI(Pow10(15))), Fmul(FI(ip), Fquo(F(2), FI(Pow10(18)))))
	round := Fmul(rel, Fadd(F(1), want))
	if nf().SetInt(ip).Cmp(exp) == 0 && !ForceSeriesTerm {
		return round
	}
	x := Fabs(Fsub(base, F(1)))
	amp := F(1)
	if base.Cmp(F(1)) < 0 {
		if a := Fquo(x, Fsub(F(1), x)); a.Cmp(amp) > 0 {
			amp = a
		}
	}
	ipow := Pow(base, FI(ip))
	return Fadd(Fmul(ipow, Fmul(Fquo(F(1), FI(Pow10(8))), amp)), round)
}
