package c10

import (
	"fmt"
	"math/big"
	"os"
	"sort"
	"strings"
	"testing"
	"time"

	sdk "github.com/cosmos/cosmos-sdk/types"
	"pgregory.net/rapid"

	"github.com/osmosis-labs/osmosis/osmomath"
	clmodel "github.com/osmosis-labs/osmosis/v31/x/concentrated-liquidity/model"
	cltypes "github.com/osmosis-labs/osmosis/v31/x/concentrated-liquidity/types"
	"github.com/osmosis-labs/osmosis/v31/x/gamm/pool-models/balancer"
	"github.com/osmosis-labs/osmosis/v31/x/gamm/pool-models/stableswap"
	gammtypes "github.com/osmosis-labs/osmosis/v31/x/gamm/types"
	pmtypes "github.com/osmosis-labs/osmosis/v31/x/poolmanager/types"
	twaptypes "github.com/osmosis-labs/osmosis/v31/x/twap/types"

	"verif/harness/chain"
	"verif/harness/drv"
	"verif/harness/ref"
)

func TestMain(m *testing.M) { drv.Main(m) }

const rule = "state machine on the real application: a 3-asset balancer pool and optionally a second pool that is a balancer or a stableswap pool (2-3 assets, generated scaling factors); balancer pools (2 assets, and 3 assets whose denoms share prefixes aaa/bbb/bbb2; reserves 5..2e4 units in a third of the assets, else 1e6..1e12; all-asset joins and exits, whose per-asset rounding moves the price of a small pool, and single-asset joins) and optionally one concentrated pool that is created empty or funded, drained (every position withdrawn: no spot price) and refilled, blocks with irregular spacing (1 ms .. days; in half of the cases with nanosecond parts, as real block times have, and queries at nanosecond offsets - the reference weights each segment by the difference of the millisecond-floored timestamps, the module's canonical time), price-moving swaps / joins / exits in some blocks and idle blocks, the twap module's EndBlock after every block (transient changed-pool set cleared as a commit would), pruning passes (twap epoch hook + EndBlock batches run to completion) and queries: every ordered pair of a pool, start/end on, between, before and after record times, ...ToNow variants; oracle: the harness records the end-of-block spot price it obtains itself from the pool manager after every block; arithmetic TWAP == trunc18(sum p_i dt_i / dt) exactly; geometric TWAP == 2^(sum log2(p_i) dt_i / dt) over the recorded prices of asset 0 in asset 1 - the one series the module accumulates - and its reciprocal for the other direction, within relative 3e-7 plus 2e-18 (8-significant-figure rounding of the result, 18-decimal grid); an interval of zero canonical length returns the spot price of the last record at or before its end; both within [min,max] of the prices in force; the two geometric quote directions multiply to 1 within 4e-7; a start before the first record fails cleanly; an interval in which a drained pool's missing price is in force must return an error flag (intervals touching only the creation block of a pool funded in that block may or may not be flagged); answers for intervals inside the retention window are identical before and after a complete pruning pass; non-trivial = interval spans >= 2 records with different prices and does not start on a record; distinct by history+query hash"

type obs struct {
	t time.Time
	p map[string]*big.Int // "quote/base" -> spot price * 1e18 (truncated), as the module stores it
	// mustErr: the pool had no spot price at the end of the block (drained): every interval in which this observation
	// is in force must be flagged. mayErr: the pool was created without liquidity in this block and funded before its
	// end: the module flags it (creation-time error), the end-of-block price is valid - either answer is accepted.
	mustErr, mayErr bool
}

type pool struct {
	id      uint64
	denoms  []string
	obs     []obs
	cl      bool
	created time.Time
}

// errorsIn reports whether an observation with a spot-price error is in force somewhere in [s,e].
func (p *pool) errorsIn(s, e time.Time) (must, may bool) {
	for i, o := range p.obs {
		if o.t.After(e) {
			break
		}
		if i+1 < len(p.obs) && !p.obs[i+1].t.After(s) {
			continue // replaced at or before s
		}
		must = must || o.mustErr
		may = may || o.mayErr
	}
	return
}

var e18 = new(big.Int).Exp(big.NewInt(10), big.NewInt(18), nil)

func coin(d string, a int64) sdk.Coin { return sdk.NewInt64Coin(d, a) }

func (p *pool) pairs() [][2]string {
	var out [][2]string
	for _, a := range p.denoms {
		for _, b := range p.denoms {
			if a != b {
				out = append(out, [2]string{a, b})
			}
		}
	}
	return out
}

// priceAt returns the spot price (quote/base) in force at time t: the last observation at or before t.
func (p *pool) priceAt(t time.Time, key string) (*big.Int, bool) {
	var cur *big.Int
	for _, o := range p.obs {
		if o.t.After(t) {
			break
		}
		cur = o.p[key]
	}
	return cur, cur != nil
}

// segments returns the (price, duration ms) pieces of [s,e].
func (p *pool) segments(s, e time.Time, key string) (prices []*big.Int, ms []int64, ok bool) {
	if len(p.obs) == 0 || p.obs[0].t.After(s) {
		return nil, nil, false
	}
	curT := s
	cur, _ := p.priceAt(s, key)
	for _, o := range p.obs {
		if !o.t.After(s) {
			continue
		}
		if !o.t.Before(e) {
			break
		}
		// the module weights every segment by the difference of the millisecond-floored timestamps of its ends, so
		// that the weights of an interval always add up to floorMs(e) - floorMs(s)
		prices, ms = append(prices, cur), append(ms, o.t.UnixMilli()-curT.UnixMilli())
		curT, cur = o.t, o.p[key]
	}
	prices, ms = append(prices, cur), append(ms, e.UnixMilli()-curT.UnixMilli())
	return prices, ms, true
}

func TestPropTwap(t *testing.T) {
	drv.Check(t, drv.Cfg{Name: "twap", Rule: rule, Quick: 200, Thorough: 4000, Steps: 35, TSteps: 70}, func(rt *rapid.T, cs *drv.Case) {
		c := chain.New(t)
		tk := c.App.TwapKeeper
		huge := int64(1 << 60)
		for a := 0; a < 2; a++ {
			c.Fund(chain.Actor(a), sdk.NewCoins(coin("uosmo", huge), coin("aaa", huge), coin("bbb", huge), coin("bbb2", huge), coin("eth", huge), coin("usdc", huge)))
		}
		tkey := c.App.GetTKey(twaptypes.TransientStoreKey)
		clearTransient := func() {
			st := c.Ctx.TransientStore(tkey)
			it := st.Iterator(nil, nil)
			var keys [][]byte
			for ; it.Valid(); it.Next() {
				keys = append(keys, append([]byte{}, it.Key()...))
			}
			it.Close()
			for _, k := range keys {
				st.Delete(k)
			}
		}
		var pools []*pool
		var hist []string
		mkPool := func(denoms []string) {
			var assets []balancer.PoolAsset
			for _, d := range denoms {
				// reserves from a handful of units (every rounding of a join or exit moves the price) to 1e12
				liq := rapid.Int64Range(1_000_000, 1_000_000_000_000).Draw(rt, "liq"+d)
				if rapid.IntRange(0, 2).Draw(rt, "smallReserve"+d) == 0 {
					liq = rapid.Int64Range(5, 20_000).Draw(rt, "liqSmall"+d)
				}
				assets = append(assets, balancer.PoolAsset{Weight: osmomath.NewInt(rapid.Int64Range(1, 10).Draw(rt, "w"+d)), Token: coin(d, liq)})
			}
			msg := balancer.NewMsgCreateBalancerPool(chain.Actor(0), balancer.PoolParams{SwapFee: osmomath.NewDecWithPrec(rapid.Int64Range(0, 100).Draw(rt, "feeBp"), 4), ExitFee: osmomath.ZeroDec()}, assets, "")
			if r := c.Exec(&msg); !r.OK() {
				rt.Fatalf("harness: create pool: %v", r.Err)
			}
			pools = append(pools, &pool{id: c.App.PoolManagerKeeper.GetNextPoolId(c.Ctx) - 1, denoms: denoms})
		}
		// a stableswap pool (2 or 3 assets, generated scaling factors): another spot-price formula behind the same records
		mkStable := func(denoms []string) {
			var liq sdk.Coins
			var sf []uint64
			for _, d := range denoms {
				liq = liq.Add(coin(d, rapid.Int64Range(1_000_000, 1_000_000_000_000).Draw(rt, "stableLiq"+d)))
				sf = append(sf, []uint64{1, 1, 10, 1000}[rapid.IntRange(0, 3).Draw(rt, "scaling"+d)])
			}
			msg := stableswap.NewMsgCreateStableswapPool(chain.Actor(0), stableswap.PoolParams{SwapFee: osmomath.NewDecWithPrec(rapid.Int64Range(0, 100).Draw(rt, "stableFeeBp"), 4), ExitFee: osmomath.ZeroDec()}, liq, sf, "")
			if r := c.Exec(&msg); !r.OK() {
				rt.Fatalf("harness: create stableswap pool: %v", r.Err)
			}
			sorted := append([]string{}, denoms...)
			sort.Strings(sorted)
			pools = append(pools, &pool{id: c.App.PoolManagerKeeper.GetNextPoolId(c.Ctx) - 1, denoms: sorted})
			cs.Class("stableswap-pool")
		}
		mkPool([]string{"aaa", "bbb", "bbb2"})
		switch rapid.IntRange(0, 3).Draw(rt, "secondPool") {
		case 1:
			mkPool([]string{"aaa", "uosmo"})
		case 2:
			mkStable([]string{"aaa", "uosmo"})
		case 3:
			mkStable([]string{"bbb", "bbb2", "uosmo"})
		}
		var clPool *pool
		clChanged := false
		mkPosition := func(rt *rapid.T, a int) bool {
			pl, err := c.App.ConcentratedLiquidityKeeper.GetConcentratedPoolById(c.Ctx, clPool.id)
			if err != nil {
				rt.Fatalf("harness: %v", err)
			}
			lo, hi := int64(cltypes.MinInitializedTick), cltypes.MaxTick
			if pl.GetLiquidity().IsPositive() && rapid.Bool().Draw(rt, "narrow") {
				cur := pl.GetCurrentTick() / 100
				lo, hi = (cur-rapid.Int64Range(1, 500).Draw(rt, "below"))*100, (cur+rapid.Int64Range(1, 500).Draw(rt, "above"))*100
			}
			ethAmt, usdcAmt := rapid.Int64Range(1_000_000, 1_000_000_000_000).Draw(rt, "eth"), rapid.Int64Range(1_000_000, 1_000_000_000_000).Draw(rt, "usdc")
			if !pl.GetLiquidity().IsPositive() && rapid.IntRange(0, 3).Draw(rt, "extremePrice") == 0 {
				// a price beyond 1e12 (or below 1e-12) in one quote direction: that direction's spot price is outside the
				// quotable band and errors while the other direction still quotes
				small, large := rapid.Int64Range(1, 1000).Draw(rt, "smallSide"), rapid.Int64Range(1_000_000_000_000_000, 1_000_000_000_000_000_000).Draw(rt, "largeSide")
				if rapid.Bool().Draw(rt, "extremeHigh") {
					ethAmt, usdcAmt = small, large
				} else {
					ethAmt, usdcAmt = large, small
				}
				cs.Class("cl-first-position-at-extreme-price")
			}
			r := c.Exec(&cltypes.MsgCreatePosition{PoolId: clPool.id, Sender: chain.Actor(a).String(), LowerTick: lo, UpperTick: hi,
				TokensProvided:  sdk.NewCoins(coin("eth", ethAmt), coin("usdc", usdcAmt)),
				TokenMinAmount0: osmomath.ZeroInt(), TokenMinAmount1: osmomath.ZeroInt()})
			// adding liquidity to a funded CL pool does not move its price and is not a price change for the twap module
			if r.OK() && !pl.GetLiquidity().IsPositive() && pl.GetCurrentSqrtPrice().IsZero() {
				clChanged = true
			}
			return r.OK()
		}
		if rapid.IntRange(0, 2).Draw(rt, "clPool") > 0 {
			// token0/token1 in either lexicographic order: a concentrated pool reports its denoms as given at creation, the
			// records are keyed by the sorted pair
			d0, d1 := "eth", "usdc"
			if rapid.Bool().Draw(rt, "clDenomsDescending") {
				d0, d1 = d1, d0
				cs.Class("cl-pool-denoms-descending")
			}
			msg := clmodel.NewMsgCreateConcentratedPool(chain.Actor(0), d0, d1, 100, osmomath.NewDecWithPrec(rapid.Int64Range(0, 3).Draw(rt, "clSpread"), 3))
			if r := c.Exec(&msg); !r.OK() {
				rt.Fatalf("harness: create CL pool: %v", r.Err)
			}
			clPool = &pool{id: c.App.PoolManagerKeeper.GetNextPoolId(c.Ctx) - 1, denoms: []string{"eth", "usdc"}, cl: true, created: c.Ctx.BlockTime()}
			pools = append(pools, clPool)
			// sometimes funded in its creation block, sometimes left empty for a while
			if rapid.Bool().Draw(rt, "fundAtCreation") {
				mkPosition(rt, 0)
			}
		}
		observe := func() {
			for _, p := range pools {
				o := obs{t: c.Ctx.BlockTime(), p: map[string]*big.Int{}}
				for _, pr := range p.pairs() {
					sp, err := c.App.PoolManagerKeeper.RouteCalculateSpotPrice(c.Ctx, p.id, pr[0], pr[1])
					if err != nil {
						if !p.cl {
							rt.Skip("spot price error of a balancer pool (not generated on purpose)")
						}
						o.mustErr = true
						continue
					}
					o.p[pr[0]+"/"+pr[1]] = sp.Dec().BigInt()
				}
				// the module keeps flagging a record that was written in a block in which the pool had no price at some
				// point (created empty and funded in the same block, or refilled after a drain) for as long as that
				// record stays the latest one, i.e. until the pool changes again
				if p.cl && !o.mustErr {
					n := len(p.obs)
					var prev *obs
					if n > 0 && p.obs[n-1].t.Equal(o.t) && n > 1 {
						prev = &p.obs[n-2]
					} else if n > 0 && !p.obs[n-1].t.Equal(o.t) {
						prev = &p.obs[n-1]
					}
					switch {
					case o.t.Equal(p.created):
						o.mayErr = true
					case prev != nil && prev.mustErr && clChanged:
						o.mayErr = true
					case prev != nil && prev.mayErr && !clChanged:
						o.mayErr = true
					}
				}
				if n := len(p.obs); n > 0 && p.obs[n-1].t.Equal(o.t) {
					p.obs[n-1] = o
				} else {
					p.obs = append(p.obs, o)
				}
			}
		}
		endBlock := func(dt time.Duration) {
			tk.EndBlock(c.Ctx)
			observe()
			clChanged = false
			clearTransient()
			c.Advance(dt)
		}
		// creation block
		endBlock(time.Duration(rapid.Int64Range(1, 5000).Draw(rt, "firstGapMs")) * time.Millisecond)
		subMs := rapid.Bool().Draw(rt, "subMillisecondTimes")
		if subMs {
			cs.Class("sub-millisecond-block-times")
		}
		pruned := false
		nontrivial := false
		errChecked := false
		keep := tk.RecordHistoryKeepPeriod(c.Ctx)

		query := func(rt *rapid.T) {
			p := pools[rapid.IntRange(0, len(pools)-1).Draw(rt, "qPool")]
			prs := p.pairs()
			pr := prs[rapid.IntRange(0, len(prs)-1).Draw(rt, "qPair")]
			base, quote := pr[1], pr[0]
			key := quote + "/" + base
			now := c.Ctx.BlockTime()
			pick := func(label string) time.Time {
				switch rapid.IntRange(0, 4).Draw(rt, label+"Kind") {
				case 0:
					o := p.obs[rapid.IntRange(0, len(p.obs)-1).Draw(rt, label+"Rec")]
					return o.t
				case 1:
					o := p.obs[rapid.IntRange(0, len(p.obs)-1).Draw(rt, label+"Rec")]
					return o.t.Add(time.Duration(rapid.Int64Range(-5, 5).Draw(rt, label+"Off")) * time.Millisecond)
				case 2:
					return now
				default:
					span := now.Sub(p.obs[0].t).Milliseconds()
					return p.obs[0].t.Add(time.Duration(rapid.Int64Range(-10, span).Draw(rt, label+"Ms")) * time.Millisecond)
				}
			}
			s, e := pick("start"), pick("end")
			if subMs && rapid.Bool().Draw(rt, "nsOffsets") {
				s = s.Add(time.Duration(rapid.Int64Range(-999_999, 999_999).Draw(rt, "startNs")))
				e = e.Add(time.Duration(rapid.Int64Range(-999_999, 999_999).Draw(rt, "endNs")))
			}
			if s.After(e) {
				s, e = e, s
			}
			if e.After(now) {
				e = now
			}
			if s.After(e) {
				s = e
			}
			ar, aerr := tk.GetArithmeticTwap(c.Ctx, p.id, base, quote, s, e)
			ge, gerr := tk.GetGeometricTwap(c.Ctx, p.id, base, quote, s, e)
			prices, ms, ok := p.segments(s, e, key)
			// retention: after a pruning pass only intervals starting inside the window are guaranteed
			if pruned && s.Before(now.Add(-keep)) {
				cs.Class("query-older-than-retention")
				return
			}
			if !ok {
				if aerr == nil || gerr == nil {
					rt.Fatalf("TWAP query starting before the first record (start %s, first record %s) returned a value", s, p.obs[0].t)
				}
				cs.Class("start-before-first-record")
				return
			}
			if must, may := p.errorsIn(s, e); must || may {
				if must && (aerr == nil || gerr == nil) {
					rt.Fatalf("TWAP(%d %s/%s, %s .. %s): the pool had no spot price during the interval but the answer is not flagged (arithmetic %v err=%v, geometric %v err=%v) [history %v]", p.id, base, quote, s.Sub(chain.Base), e.Sub(chain.Base), ar, aerr, ge, gerr, hist)
				}
				if must {
					cs.Class("error-interval-flagged")
					errChecked = true
				} else {
					cs.Class("creation-block-interval")
				}
				return
			}
			if aerr != nil || gerr != nil {
				var fl []string
				for _, o := range p.obs {
					fl = append(fl, fmt.Sprintf("%s must=%v may=%v", o.t.Sub(chain.Base), o.mustErr, o.mayErr))
				}
				recs, _ := tk.GetAllHistoricalPoolIndexedTWAPsForPoolId(c.Ctx, p.id)
				for _, r := range recs {
					if r.PoolId == p.id {
						fl = append(fl, fmt.Sprintf("REC t=%s lastErr=%s p0=%s p1=%s", r.Time.Sub(chain.Base), r.LastErrorTime.Sub(chain.Base), r.P0LastSpotPrice, r.P1LastSpotPrice))
					}
				}
				rt.Fatalf("TWAP(%d %s/%s, %s .. %s) failed: %v / %v [history %v] [observations %v]", p.id, base, quote, s.Sub(chain.Base), e.Sub(chain.Base), aerr, gerr, hist, fl)
			}
			// reference
			total := int64(0)
			sum := new(big.Int)
			min, max := prices[0], prices[0]
			logSum := ref.F(0)
			for i := range prices {
				total += ms[i]
				sum.Add(sum, new(big.Int).Mul(prices[i], big.NewInt(ms[i])))
				if prices[i].Cmp(min) < 0 {
					min = prices[i]
				}
				if prices[i].Cmp(max) > 0 {
					max = prices[i]
				}
			}
			// The module keeps ONE geometric accumulator per pair, that of the price of asset 0 (the lexicographically smaller
			// denom) quoted in asset 1, and answers the other direction with its reciprocal ("the geometric mean of
			// reciprocals is the reciprocal of the geometric mean"). The reference does the same with the spot prices it
			// recorded for that direction; the two directions' spot prices of a pool are each computed and rounded on their
			// own and are not exact reciprocals of one another.
			a0, a1 := base, quote
			if a1 < a0 {
				a0, a1 = a1, a0
			}
			key0 := a0 + "/" + a1
			inverted := key != key0
			prices0, ms0, ok0 := p.segments(s, e, key0)
			if !ok0 || len(prices0) != len(prices) {
				rt.Fatalf("harness: observation series of the two directions differ in shape")
			}
			gmin, gmax := ref.FScaled(prices0[0], 18), ref.FScaled(prices0[0], 18)
			for i := range prices0 {
				x := ref.FScaled(prices0[i], 18)
				logSum = ref.Fadd(logSum, ref.Fmul(ref.Log2(x), ref.F(float64(ms0[i]))))
				if x.Cmp(gmin) < 0 {
					gmin = x
				}
				if x.Cmp(gmax) > 0 {
					gmax = x
				}
			}
			if inverted {
				gmin, gmax = ref.Fquo(ref.F(1), gmax), ref.Fquo(ref.F(1), gmin)
			}
			var wantA *big.Int
			var wantG *big.Float
			if total == 0 {
				// an interval of zero canonical (millisecond) length has no mean: the module answers with the spot price of
				// the last record at or before its end - a record lying exactly on the end included
				wantA, _ = p.priceAt(e, key)
				wantG = ref.FScaled(wantA, 18)
				if wantA.Cmp(min) < 0 {
					min = wantA
				}
				if wantA.Cmp(max) > 0 {
					max = wantA
				}
			} else {
				wantA = new(big.Int).Quo(sum, big.NewInt(total))
				wantG = ref.Exp2(ref.Fquo(logSum, ref.F(float64(total))))
				if inverted {
					wantG = ref.Fquo(ref.F(1), wantG)
				}
			}
			desc := fmt.Sprintf("pool %d base=%s quote=%s [%s, %s] segments=%d", p.id, base, quote, s.Sub(chain.Base), e.Sub(chain.Base), len(prices))
			if ar.BigInt().Cmp(wantA) != 0 {
				if os.Getenv("VERIF_DEBUG") != "" {
					for _, o := range p.obs {
						fmt.Printf("OBS t=%s %s=%v\n", o.t.Sub(chain.Base), key, o.p[key])
					}
					recs, _ := tk.GetAllHistoricalPoolIndexedTWAPsForPoolId(c.Ctx, p.id)
					for _, r := range recs {
						fmt.Printf("REC t=%s %s/%s p0=%s p1=%s\n", r.Time.Sub(chain.Base), r.Asset0Denom, r.Asset1Denom, r.P0LastSpotPrice, r.P1LastSpotPrice)
					}
				}
				rt.Fatalf("arithmetic TWAP %s = %s, time-weighted mean of the recorded spot prices is %s/1e18 [history %v]", desc, ar, wantA, hist)
			}
			gF := ref.FScaled(ge.BigInt(), 18)
			logZero := logSum.Sign() == 0 && total != 0
			if logZero && drv.Known("C10-geometric-zero-accum") {
				cs.Exclude("C10-geometric-zero-accum")
			} else if total == 0 {
				if ge.BigInt().Cmp(wantA) != 0 {
					rt.Fatalf("geometric TWAP over an empty interval %s = %s, spot price in force is %s/1e18", desc, ge, wantA)
				}
			} else {
				// 8-significant-figure rounding of the result and of its reciprocal (1e-7 relative at most; 3e-7 is used) and
				// the 18-decimal grid of the result (2e-18)
				tol := ref.Fadd(ref.Fmul(wantG, ref.F(3e-7)), ref.F(2e-18))
				if d := ref.Fabs(ref.Fsub(gF, wantG)); d.Cmp(tol) > 0 {
					rt.Fatalf("geometric TWAP %s = %s, 2^(time-weighted mean of log2 prices) = %s (difference %s) [history %v]", desc, ge, wantG.Text('f', 18), d.Text('g', 4), hist)
				}
				lo, hi := ref.Fsub(ref.Fmul(gmin, ref.F(1-3e-7)), ref.F(2e-18)), ref.Fadd(ref.Fmul(gmax, ref.F(1+3e-7)), ref.F(2e-18))
				if gF.Cmp(lo) < 0 || gF.Cmp(hi) > 0 {
					rt.Fatalf("geometric TWAP %s = %s outside [min,max] = [%s,%s]/1e18 of the prices in force", desc, ge, min, max)
				}
				// reciprocity of the two quote directions
				ge2, err2 := tk.GetGeometricTwap(c.Ctx, p.id, quote, base, s, e)
				if err2 == nil {
					prod := ref.Fmul(gF, ref.FScaled(ge2.BigInt(), 18))
					if d := ref.Fabs(ref.Fsub(prod, ref.F(1))); d.Cmp(ref.F(4e-7)) > 0 && ge.BigInt().BitLen() > 30 && ge2.BigInt().BitLen() > 30 {
						rt.Fatalf("geometric TWAPs of the two quote directions %s: %s x %s = %s, not reciprocal", desc, ge, ge2, prod.Text('f', 12))
					}
				}
			}
			if ar.BigInt().Cmp(min) < 0 || ar.BigInt().Cmp(max) > 0 {
				rt.Fatalf("arithmetic TWAP %s = %s outside [min,max] = [%s,%s]/1e18", desc, ar, min, max)
			}
			if e.Equal(now) {
				a2, err := tk.GetArithmeticTwapToNow(c.Ctx, p.id, base, quote, s)
				if err != nil || !a2.Equal(ar) {
					rt.Fatalf("GetArithmeticTwapToNow %s = %v (%v) differs from GetArithmeticTwap with end = now (%s)", desc, a2, err, ar)
				}
				cs.Class("to-now")
			}
			distinct := false
			for _, x := range prices {
				if x.Cmp(prices[0]) != 0 {
					distinct = true
				}
			}
			onRecord := false
			for _, o := range p.obs {
				if o.t.Equal(s) {
					onRecord = true
				}
			}
			if onRecord {
				cs.Class("start-on-record")
			}
			if len(prices) >= 2 && distinct && !onRecord {
				nontrivial = true
				hist = append(hist, "Q "+desc)
			}
		}

		actions := map[string]func(*rapid.T){
			"swap": func(rt *rapid.T) {
				p := pools[rapid.IntRange(0, len(pools)-1).Draw(rt, "pool")]
				prs := p.pairs()
				pr := prs[rapid.IntRange(0, len(prs)-1).Draw(rt, "pair")]
				amt := rapid.Int64Range(1, 5_000_000_000).Draw(rt, "amt")
				r := c.Exec(&pmtypes.MsgSwapExactAmountIn{Sender: chain.Actor(1).String(), Routes: []pmtypes.SwapAmountInRoute{{PoolId: p.id, TokenOutDenom: pr[1]}}, TokenIn: coin(pr[0], amt), TokenOutMinAmount: osmomath.OneInt()})
				if r.OK() {
					hist = append(hist, fmt.Sprintf("swap#%d %d%s->%s", p.id, amt, pr[0], pr[1]))
					if p.cl {
						clChanged = true
					}
				}
			},
			"gammLiquidity": func(rt *rapid.T) {
				// joins and exits of the classic pools: all-asset (rounded per asset: up on joins, down on exits) and single-asset
				var cands []*pool
				for _, p := range pools {
					if !p.cl {
						cands = append(cands, p)
					}
				}
				p := cands[rapid.IntRange(0, len(cands)-1).Draw(rt, "pool")]
				share := gammtypes.GetPoolShareDenom(p.id)
				total := c.App.BankKeeper.GetSupply(c.Ctx, share).Amount
				a := chain.Actor(rapid.IntRange(0, 1).Draw(rt, "actor"))
				var r chain.ExecResult
				var what string
				switch rapid.IntRange(0, 2).Draw(rt, "liquidityOp") {
				case 0:
					out := total.MulRaw(rapid.Int64Range(1, 500).Draw(rt, "joinPermille")).QuoRaw(1000)
					what = fmt.Sprintf("joinPool#%d %s shares", p.id, out)
					r = c.Exec(&gammtypes.MsgJoinPool{Sender: a.String(), PoolId: p.id, ShareOutAmount: out, TokenInMaxs: nil})
				case 1:
					have := c.Bal(a, share).Amount
					if !have.IsPositive() {
						rt.Skip("no shares")
					}
					in := have.MulRaw(rapid.Int64Range(1, 900).Draw(rt, "exitPermille")).QuoRaw(1000)
					if !in.IsPositive() {
						rt.Skip("no shares")
					}
					what = fmt.Sprintf("exitPool#%d %s shares", p.id, in)
					r = c.Exec(&gammtypes.MsgExitPool{Sender: a.String(), PoolId: p.id, ShareInAmount: in, TokenOutMins: nil})
				default:
					d := p.denoms[rapid.IntRange(0, len(p.denoms)-1).Draw(rt, "denom")]
					amt := rapid.Int64Range(1, 1_000_000_000).Draw(rt, "amt")
					what = fmt.Sprintf("joinSwapExtern#%d %d%s", p.id, amt, d)
					r = c.Exec(&gammtypes.MsgJoinSwapExternAmountIn{Sender: a.String(), PoolId: p.id, TokenIn: coin(d, amt), ShareOutMinAmount: osmomath.OneInt()})
				}
				if r.OK() {
					hist = append(hist, what)
					cs.Class("classic-pool-join-or-exit")
				}
			},
			"clAdd": func(rt *rapid.T) {
				if clPool == nil {
					rt.Skip("no CL pool")
				}
				a := rapid.IntRange(0, 1).Draw(rt, "actor")
				if mkPosition(rt, a) {
					hist = append(hist, fmt.Sprintf("clAdd#%d a%d", clPool.id, a))
				}
			},
			"clDrain": func(rt *rapid.T) {
				if clPool == nil {
					rt.Skip("no CL pool")
				}
				n := 0
				for a := 0; a < 2; a++ {
					ps, _ := c.App.ConcentratedLiquidityKeeper.GetUserPositions(c.Ctx, chain.Actor(a), clPool.id)
					for _, pos := range ps {
						if r := c.Exec(&cltypes.MsgWithdrawPosition{PositionId: pos.PositionId, Sender: chain.Actor(a).String(), LiquidityAmount: pos.Liquidity}); r.OK() {
							n++
						}
					}
				}
				if n == 0 {
					rt.Skip("nothing to drain")
				}
				if pl, err := c.App.ConcentratedLiquidityKeeper.GetConcentratedPoolById(c.Ctx, clPool.id); err == nil && pl.GetCurrentSqrtPrice().IsZero() {
					clChanged = true // the last position left: the pool has no price any more
				}
				hist = append(hist, fmt.Sprintf("clDrain#%d (%d positions)", clPool.id, n))
			},
			"block": func(rt *rapid.T) {
				var dt time.Duration
				switch rapid.IntRange(0, 4).Draw(rt, "dtKind") {
				case 0:
					dt = time.Millisecond
				case 1:
					dt = time.Duration(rapid.Int64Range(1, 10_000).Draw(rt, "ms")) * time.Millisecond
				case 2:
					dt = time.Duration(rapid.Int64Range(1, 3600).Draw(rt, "s")) * time.Second
				default:
					dt = time.Duration(rapid.Int64Range(1, 60).Draw(rt, "h")) * time.Hour
				}
				if subMs {
					// real block times carry nanoseconds
					dt += time.Duration(rapid.Int64Range(0, 999_999).Draw(rt, "ns"))
				}
				endBlock(dt)
				hist = append(hist, fmt.Sprintf("+%s", dt))
			},
			"block2": nil,
			"prune": func(rt *rapid.T) {
				if rapid.IntRange(0, 2).Draw(rt, "pruneGate") != 0 {
					rt.Skip("rare")
				}
				// finish the current block first: the pruning batches run inside EndBlock, which also finalises
				// the records of pools changed in the block
				endBlock(time.Millisecond)
				// snapshot answers inside the retention window
				now := c.Ctx.BlockTime()
				type q struct {
					p          *pool
					base, quot string
					s, e       time.Time
					a, g       osmomath.Dec
				}
				var qs []q
				for _, p := range pools {
					for _, pr := range p.pairs() {
						for i := 0; i < 3; i++ {
							lo := now.Add(-keep)
							if p.obs[0].t.After(lo) {
								lo = p.obs[0].t
							}
							span := now.Sub(lo).Milliseconds()
							if span <= 0 {
								continue
							}
							s := lo.Add(time.Duration(rapid.Int64Range(0, span).Draw(rt, "ps")) * time.Millisecond)
							e := s.Add(time.Duration(rapid.Int64Range(0, now.Sub(s).Milliseconds()).Draw(rt, "pe")) * time.Millisecond)
							a, err1 := tk.GetArithmeticTwap(c.Ctx, p.id, pr[1], pr[0], s, e)
							g, err2 := tk.GetGeometricTwap(c.Ctx, p.id, pr[1], pr[0], s, e)
							if err1 == nil && err2 == nil {
								qs = append(qs, q{p, pr[1], pr[0], s, e, a, g})
							}
						}
					}
				}
				if err := tk.EpochHooks().AfterEpochEnd(c.Ctx, tk.PruneEpochIdentifier(c.Ctx), 1); err != nil {
					rt.Fatalf("twap epoch hook: %v", err)
				}
				for i := 0; i < 200 && tk.GetPruningState(c.Ctx).IsPruning; i++ {
					tk.EndBlock(c.Ctx)
				}
				if tk.GetPruningState(c.Ctx).IsPruning {
					rt.Fatalf("pruning did not complete in 200 end-blocks")
				}
				clearTransient()
				pruned = true
				for _, x := range qs {
					a, err1 := tk.GetArithmeticTwap(c.Ctx, x.p.id, x.base, x.quot, x.s, x.e)
					g, err2 := tk.GetGeometricTwap(c.Ctx, x.p.id, x.base, x.quot, x.s, x.e)
					if err1 != nil || err2 != nil || !a.Equal(x.a) || !g.Equal(x.g) {
						rt.Fatalf("pruning changed an answer inside the retention window: pool %d %s/%s [%s,%s]: before %s / %s, after %v / %v (errors %v %v) [history %v]", x.p.id, x.base, x.quot, x.s.Sub(chain.Base), x.e.Sub(chain.Base), x.a, x.g, a, g, err1, err2, hist)
					}
				}
				cs.Class("pruning-pass")
				hist = append(hist, fmt.Sprintf("PRUNE (%d answers re-checked)", len(qs)))
			},
			"": query,
		}
		actions["block2"] = actions["block"]
		rt.Repeat(actions)
		if errChecked {
			cs.Class("history-with-drained-pool-query")
		}
		if nontrivial {
			cs.NonTrivial(strings.Join(hist, ";"))
			cs.Sample(strings.Join(hist, "; "))
		}
		_ = sort.Strings
	})
}

// TestKnown_C10_geometric_zero_accum reproduces the listed finding: constant price 1.0 -> geometric TWAP 0.
func TestKnown_C10_geometric_zero_accum(t *testing.T) {
	c := chain.New(t)
	c.Fund(chain.Actor(0), sdk.NewCoins(coin("uosmo", 1<<50), coin("aaa", 1<<50), coin("bbb", 1<<50)))
	msg := balancer.NewMsgCreateBalancerPool(chain.Actor(0), balancer.PoolParams{SwapFee: osmomath.ZeroDec(), ExitFee: osmomath.ZeroDec()},
		[]balancer.PoolAsset{{Weight: osmomath.NewInt(1), Token: coin("aaa", 1_000_000)}, {Weight: osmomath.NewInt(1), Token: coin("bbb", 1_000_000)}}, "")
	if r := c.Exec(&msg); !r.OK() {
		t.Fatalf("create pool: %v", r.Err)
	}
	id := c.App.PoolManagerKeeper.GetNextPoolId(c.Ctx) - 1
	start := c.Ctx.BlockTime()
	c.App.TwapKeeper.EndBlock(c.Ctx)
	c.Advance(time.Second)
	c.Advance(time.Second)
	g, err := c.App.TwapKeeper.GetGeometricTwap(c.Ctx, id, "aaa", "bbb", start, start.Add(time.Second))
	if err == nil && g.IsZero() {
		drv.Reproduced(t, "C10-geometric-zero-accum")
	}
}

// TestRegress_C10_sub_millisecond_interval: a query whose start and end lie within the same millisecond but differ in
// their nanoseconds divided by a zero millisecond count and panicked (fixed: such an interval has length zero).
func TestRegress_C10_sub_millisecond_interval(t *testing.T) {
	c := chain.New(t)
	c.Fund(chain.Actor(0), sdk.NewCoins(coin("uosmo", 1<<50), coin("aaa", 1<<50), coin("bbb", 1<<50)))
	msg := balancer.NewMsgCreateBalancerPool(chain.Actor(0), balancer.PoolParams{SwapFee: osmomath.ZeroDec(), ExitFee: osmomath.ZeroDec()},
		[]balancer.PoolAsset{{Weight: osmomath.NewInt(1), Token: coin("aaa", 1_000_000)}, {Weight: osmomath.NewInt(1), Token: coin("bbb", 4_000_000)}}, "")
	if r := c.Exec(&msg); !r.OK() {
		t.Fatalf("create pool: %v", r.Err)
	}
	id := c.App.PoolManagerKeeper.GetNextPoolId(c.Ctx) - 1
	start := c.Ctx.BlockTime()
	c.App.TwapKeeper.EndBlock(c.Ctx)
	c.Advance(time.Second)
	c.Advance(time.Second)
	s := start.Add(500 * time.Millisecond)
	e := s.Add(300 * time.Microsecond)
	var a, g osmomath.Dec
	var err1, err2 error
	func() {
		defer func() {
			if r := recover(); r != nil {
				t.Fatalf("TWAP over [%s, +300us] panicked: %v", s.Sub(start), r)
			}
		}()
		a, err1 = c.App.TwapKeeper.GetArithmeticTwap(c.Ctx, id, "aaa", "bbb", s, e)
		g, err2 = c.App.TwapKeeper.GetGeometricTwap(c.Ctx, id, "aaa", "bbb", s, e)
	}()
	sp, err := c.App.PoolManagerKeeper.RouteCalculateSpotPrice(c.Ctx, id, "bbb", "aaa")
	if err != nil || err1 != nil || err2 != nil {
		t.Fatalf("errors: %v %v %v", err, err1, err2)
	}
	if !a.Equal(sp.Dec()) || !g.Equal(sp.Dec()) {
		t.Fatalf("TWAP over a sub-millisecond interval: arithmetic %s geometric %s, spot price in force %s", a, g, sp)
	}
}
