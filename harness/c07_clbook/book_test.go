package c07

import (
	"fmt"
	"strings"
	"testing"

	"pgregory.net/rapid"

	"verif/harness/clsim"
	"verif/harness/drv"
)

func TestMain(m *testing.M) { drv.Main(m) }

const rule = "state machine on one CL pool of the real application (tx semantics): spacing in {1,10,100,1000}, any authorised spread factor, both accumulator-scaling regimes, 4 actors; create (ticks clustered around the current tick, decade boundaries, range ends; one- and two-sided deposits over 30 decades), add-to, partial/full withdraw, swaps both directions exact-in/out (1 unit .. draining), claims, transfers, incentives, time; oracle after every step from queries only: active liquidity == sum of positions containing the current tick, stored ticks == boundaries of live positions with exact gross/net sums, sqrt price agrees with the current tick about every position, empty pool has no price/ticks, position ids/owners/ranges change only through the owner's operations; non-trivial = >= 2 positions by different owners, a swap that changed the tick and a later withdrawal; distinct by history hash"

func TestPropBookkeeping(t *testing.T) {
	drv.Check(t, drv.Cfg{Name: "cl-bookkeeping", Rule: rule, Quick: 250, Thorough: 12000, Steps: 30, TSteps: 60}, func(rt *rapid.T, c *drv.Case) {
		s := clsim.New(rt, t)
		acts := s.Actions()
		acts[""] = func(rt *rapid.T) { s.CheckBookkeeping(rt) }
		rt.Repeat(acts)
		for k, n := range s.Classes {
			if n > 0 {
				c.Class(k)
			}
		}
		owners := map[int]bool{}
		for _, p := range s.Known {
			owners[p.Owner] = true
		}
		if s.Classes["swap-changed-tick"] > 0 && (s.Classes["full-withdrawal"]+s.Classes["partial-withdrawal"]) > 0 && s.LPOps >= 3 {
			c.NonTrivial(s.Describe() + "|" + strings.Join(s.Hist, ";"))
			c.Sample(fmt.Sprintf("%s :: %s", s.Describe(), strings.Join(s.Hist, "; ")))
		}
	})
}
