package c20

import (
	"fmt"
	"reflect"
	"sort"
	"strings"
	"testing"
	"time"

	sdk "github.com/cosmos/cosmos-sdk/types"
	authtypes "github.com/cosmos/cosmos-sdk/x/auth/types"
	"github.com/cosmos/cosmos-sdk/x/authz"
	banktypes "github.com/cosmos/cosmos-sdk/x/bank/types"
	govtypes "github.com/cosmos/cosmos-sdk/x/gov/types"
	"pgregory.net/rapid"

	"github.com/osmosis-labs/osmosis/osmomath"
	clmodel "github.com/osmosis-labs/osmosis/v31/x/concentrated-liquidity/model"
	cltypes "github.com/osmosis-labs/osmosis/v31/x/concentrated-liquidity/types"
	"github.com/osmosis-labs/osmosis/v31/x/gamm/pool-models/balancer"
	gammtypes "github.com/osmosis-labs/osmosis/v31/x/gamm/types"
	lockuptypes "github.com/osmosis-labs/osmosis/v31/x/lockup/types"
	pmtypes "github.com/osmosis-labs/osmosis/v31/x/poolmanager/types"
	sftypes "github.com/osmosis-labs/osmosis/v31/x/superfluid/types"
	tftypes "github.com/osmosis-labs/osmosis/v31/x/tokenfactory/types"

	"verif/harness/chain"
	"verif/harness/drv"
)

func TestMain(m *testing.M) { drv.Main(m) }

const rule = "a world of owned objects is built on the real application (CL positions incl. a transferred one and a superfluid full-range one; locks: bonded, unlocking, split, superfluid-delegated, superfluid-undelegating; factory denoms: plain, admin-changed, admin-renounced, other creator), then one state-changing message naming one object (or, for the position messages that take a list, a batch in which the sender's own positions surround the foreign one at a generated place) is sent by a generated non-authorised sender (funded stranger holding the same assets, zero-balance stranger, owner of another object of the kind, previous owner/admin, the pool address, module accounts) and - as a control on a discarded branch - by the rightful owner/admin; oracle: unauthorised => transaction fails and the digest of all KV stores is unchanged; control => succeeds (so the failure is not vacuous); renounced admin => fails for everyone; mint-to / burn-from / force-transfer touching a module account (named in lower- or upper-case bech32) fails; created denoms are factory/{sender}/{sub} and an existing denom (renounced ones included) cannot be created again by its creator; for every message the signers derived by the application codec must be exactly the declared sender; one attempt in three is repeated through authz.MsgExec naming the rightful owner (no grant / third-party grant / owner grant for another type => fails without trace, owner grant for this type => succeeds); position ids reach two digits in three worlds of four; non-trivial = wrong sender is a previous owner/admin or owns another object of the same kind or holds the assets the message moves; distinct by (message, object, sender) hash"

const (
	A0 = iota // main owner
	A1        // second owner / receives transfers / new admin
	A2        // funded stranger: holds every asset kind, owns nothing
	A3        // zero-balance stranger
)

type world struct {
	c        *chain.Chain
	bond     string
	val      sdk.ValAddress
	gammPool uint64
	gammDen  string
	clPool   uint64
	poolAddr sdk.AccAddress
	// positions: id -> owner actor
	posOwner map[uint64]int
	posPrev  map[uint64]int // previous owner (transferred)
	sfPos    uint64         // superfluid full-range position of A0
	sfPosLk  uint64
	// locks: id -> (owner, state)
	lockOwner    map[uint64]int
	lockState    map[uint64]string // bonded | unlocking | sfdelegated | sfundelegating
	lockDenom    map[uint64]string
	lockReceiver map[uint64]int // locks whose rewards were redirected: actor receiving them
	// denoms: name -> admin actor (-1 renounced), prev admin, creator
	denAdmin map[string]int
	denPrev  map[string]int
}

func must(rt *rapid.T, what string, r chain.ExecResult) chain.ExecResult {
	if !r.OK() {
		rt.Fatalf("harness world setup: %s failed: %v", what, r.Err)
	}
	return r
}

func ptrBal(m balancer.MsgCreateBalancerPool) *balancer.MsgCreateBalancerPool      { return &m }
func ptrCL(m clmodel.MsgCreateConcentratedPool) *clmodel.MsgCreateConcentratedPool { return &m }

func coin(d string, a int64) sdk.Coin { return sdk.NewInt64Coin(d, a) }

func buildWorld(rt *rapid.T, t *testing.T) *world {
	c := chain.New(t)
	w := &world{c: c, posOwner: map[uint64]int{}, posPrev: map[uint64]int{}, lockOwner: map[uint64]int{}, lockState: map[uint64]string{}, lockDenom: map[uint64]string{}, lockReceiver: map[uint64]int{}, denAdmin: map[string]int{}, denPrev: map[string]int{}}
	vals, _ := c.App.StakingKeeper.GetAllValidators(c.Ctx)
	if len(vals) == 0 {
		rt.Fatalf("harness: no validator in genesis")
	}
	vb, _ := sdk.ValAddressFromBech32(vals[0].GetOperator())
	w.val = vb
	bond, _ := c.App.StakingKeeper.BondDenom(c.Ctx)
	unbonding := c.EnableSuperfluidDurations()
	w.bond = bond
	rich := sdk.NewCoins(coin(bond, 1_000_000_000_000_000), coin("uosmo", 1_000_000_000_000_000), coin("eth", 1_000_000_000_000), coin("usdc", 1_000_000_000_000), coin("foo", 1_000_000_000_000), coin("token0", 1_000_000_000_000))
	for _, a := range []int{A0, A1, A2} {
		c.Fund(chain.Actor(a), rich)
	}
	// balancer pool uosmo/token0, superfluid-enabled
	r := must(rt, "create balancer pool", c.Exec(ptrBal(balancer.NewMsgCreateBalancerPool(chain.Actor(A0), balancer.PoolParams{SwapFee: osmomath.NewDecWithPrec(1, 2), ExitFee: osmomath.ZeroDec()},
		[]balancer.PoolAsset{{Weight: osmomath.NewInt(100), Token: coin(bond, 10_000_000_000)}, {Weight: osmomath.NewInt(100), Token: coin("token0", 10_000_000_000)}}, ""))))
	var cp balancer.MsgCreateBalancerPoolResponse
	_ = r.Unpack(&cp)
	w.gammPool = cp.PoolID
	w.gammDen = gammtypes.GetPoolShareDenom(w.gammPool)
	if err := c.App.SuperfluidKeeper.AddNewSuperfluidAsset(c.Ctx, sftypes.SuperfluidAsset{Denom: w.gammDen, AssetType: sftypes.SuperfluidAssetTypeLPShare}); err != nil {
		rt.Fatalf("harness: AddNewSuperfluidAsset: %v", err)
	}
	// everybody (incl. the funded stranger) holds LP shares
	share := osmomath.NewIntWithDecimal(10, 18)
	for _, a := range []int{A1, A2} {
		must(rt, "join pool", c.Exec(&gammtypes.MsgJoinPool{Sender: chain.Actor(a).String(), PoolId: w.gammPool, ShareOutAmount: share, TokenInMaxs: sdk.NewCoins(coin(bond, 5_000_000_000), coin("token0", 5_000_000_000))}))
	}
	// CL pool eth/usdc
	r = must(rt, "create CL pool", c.Exec(ptrCL(clmodel.NewMsgCreateConcentratedPool(chain.Actor(A0), bond, "usdc", 100, osmomath.MustNewDecFromStr("0.002")))))
	var clp clmodel.MsgCreateConcentratedPoolResponse
	_ = r.Unpack(&clp)
	w.clPool = clp.PoolID
	pool, _ := c.App.ConcentratedLiquidityKeeper.GetConcentratedPoolById(c.Ctx, w.clPool)
	w.poolAddr = pool.GetAddress()
	mkPos := func(a int, lo, hi int64) uint64 {
		r := must(rt, "create position", c.Exec(&cltypes.MsgCreatePosition{PoolId: w.clPool, Sender: chain.Actor(a).String(), LowerTick: lo, UpperTick: hi,
			TokensProvided: sdk.NewCoins(coin(bond, 1_000_000_000), coin("usdc", 1_000_000_000)), TokenMinAmount0: osmomath.ZeroInt(), TokenMinAmount1: osmomath.ZeroInt()}))
		var resp cltypes.MsgCreatePositionResponse
		_ = r.Unpack(&resp)
		w.posOwner[resp.PositionId] = a
		return resp.PositionId
	}
	mkPos(A0, -100000, 100000)
	mkPos(A1, -50000, 200000)
	p3 := mkPos(A0, -300000, 300000)
	must(rt, "transfer position", c.Exec(&cltypes.MsgTransferPositions{PositionIds: []uint64{p3}, Sender: chain.Actor(A0).String(), NewOwner: chain.Actor(A1).String()}))
	// transfer re-creates the position under a new id
	ups, _ := c.App.ConcentratedLiquidityKeeper.GetUserPositions(c.Ctx, chain.Actor(A1), w.clPool)
	delete(w.posOwner, p3)
	for _, p := range ups {
		if _, known := w.posOwner[p.PositionId]; !known {
			w.posOwner[p.PositionId] = A1
			w.posPrev[p.PositionId] = A0
		}
	}
	// swaps so that spread rewards exist
	for i := 0; i < 2; i++ {
		must(rt, "swap", c.Exec(&pmtypes.MsgSwapExactAmountIn{Sender: chain.Actor(A2).String(), Routes: []pmtypes.SwapAmountInRoute{{PoolId: w.clPool, TokenOutDenom: []string{"usdc", bond}[i]}}, TokenIn: coin([]string{bond, "usdc"}[i], 50_000_000), TokenOutMinAmount: osmomath.OneInt()}))
	}
	// the CL share becomes a superfluid asset once full-range liquidity exists
	mkPos(A1, cltypes.MinInitializedTick, cltypes.MaxTick)
	if err := c.App.SuperfluidKeeper.AddNewSuperfluidAsset(c.Ctx, sftypes.SuperfluidAsset{Denom: cltypes.GetConcentratedLockupDenomFromPoolId(w.clPool), AssetType: sftypes.SuperfluidAssetTypeConcentratedShare}); err != nil {
		rt.Fatalf("harness: AddNewSuperfluidAsset(cl): %v", err)
	}
	// superfluid full-range CL position of A0
	r = must(rt, "create SF full range position", c.Exec(sftypes.NewMsgCreateFullRangePositionAndSuperfluidDelegate(chain.Actor(A0), sdk.NewCoins(coin(bond, 100_000_000), coin("usdc", 100_000_000)), w.val.String(), w.clPool)))
	var sfp sftypes.MsgCreateFullRangePositionAndSuperfluidDelegateResponse
	_ = r.Unpack(&sfp)
	w.sfPos, w.sfPosLk = sfp.PositionID, sfp.LockID
	w.posOwner[w.sfPos] = A0
	// more positions of the two owners, alternating, so that position ids reach two digits: ids are stored in decimal in
	// the owner index (.../<pool>/<position>), and a sender who owns #10..#19 must not pass for the owner of #1
	for i, n := 0, rapid.SampledFrom([]int{0, 6, 9, 14}).Draw(rt, "fillerPositions"); i < n; i++ {
		mkPos([]int{A1, A0}[i%2], -100000-int64(i+1)*100, 100000+int64(i+1)*100)
	}
	// locks
	mkLock := func(a int, den string, amt osmomath.Int, d time.Duration) uint64 {
		r := must(rt, "lock", c.Exec(lockuptypes.NewMsgLockTokens(chain.Actor(a), d, sdk.NewCoins(sdk.NewCoin(den, amt)))))
		var resp lockuptypes.MsgLockTokensResponse
		_ = r.Unpack(&resp)
		w.lockOwner[resp.ID], w.lockState[resp.ID], w.lockDenom[resp.ID] = a, "bonded", den
		return resp.ID
	}
	week := unbonding
	l1 := mkLock(A0, "foo", osmomath.NewInt(1_000_000), week)
	l2 := mkLock(A0, "foo", osmomath.NewInt(500_000), time.Hour)
	must(rt, "begin unlock", c.Exec(lockuptypes.NewMsgBeginUnlocking(chain.Actor(A0), l2, nil)))
	w.lockState[l2] = "unlocking"
	mkLock(A1, "foo", osmomath.NewInt(700_000), week)
	r = must(rt, "partial unlock (split)", c.Exec(lockuptypes.NewMsgBeginUnlocking(chain.Actor(A0), l1, sdk.NewCoins(coin("foo", 1000)))))
	var bu lockuptypes.MsgBeginUnlockingResponse
	_ = r.Unpack(&bu)
	w.lockOwner[bu.UnlockingLockID], w.lockState[bu.UnlockingLockID], w.lockDenom[bu.UnlockingLockID] = A0, "unlocking", "foo"
	one := osmomath.NewIntWithDecimal(1, 18)
	// gamm share locks of A0: plain bonded, unlocking, sf-delegated, sf-undelegating ; A1: sf-delegated
	mkLock(A0, w.gammDen, one, week+1)
	lu := mkLock(A0, w.gammDen, one, week+2)
	must(rt, "begin unlock gamm", c.Exec(lockuptypes.NewMsgBeginUnlocking(chain.Actor(A0), lu, nil)))
	w.lockState[lu] = "unlocking"
	ld := mkLock(A0, w.gammDen, one, week)
	must(rt, "sf delegate", c.Exec(sftypes.NewMsgSuperfluidDelegate(chain.Actor(A0), ld, w.val)))
	w.lockState[ld] = "sfdelegated"
	lud := mkLock(A0, w.gammDen, one, week+3)
	must(rt, "sf delegate 2", c.Exec(sftypes.NewMsgSuperfluidDelegate(chain.Actor(A0), lud, w.val)))
	must(rt, "sf undelegate", c.Exec(sftypes.NewMsgSuperfluidUndelegate(chain.Actor(A0), lud)))
	w.lockState[lud] = "sfundelegating"
	l1d := mkLock(A1, w.gammDen, one, week)
	must(rt, "sf delegate A1", c.Exec(sftypes.NewMsgSuperfluidDelegate(chain.Actor(A1), l1d, w.val)))
	w.lockState[l1d] = "sfdelegated"
	// every second lock has had its rewards redirected by its owner to the other owner: the current reward receiver is
	// not the owner and must not be able to redirect them again (nor do anything else with the lock)
	for i, id := range sortedU(w.lockOwner) {
		if i%2 == 0 {
			own := w.lockOwner[id]
			other := A1
			if own == A1 {
				other = A0
			}
			if r := c.Exec(lockuptypes.NewMsgSetRewardReceiverAddress(chain.Actor(own), chain.Actor(other), id)); r.OK() {
				w.lockReceiver[id] = other
			}
		}
	}
	// factory denoms
	mkDen := func(a int, sub string) string {
		r := must(rt, "create denom", c.Exec(tftypes.NewMsgCreateDenom(chain.Actor(a).String(), sub)))
		var resp tftypes.MsgCreateDenomResponse
		_ = r.Unpack(&resp)
		want := fmt.Sprintf("factory/%s/%s", chain.Actor(a).String(), sub)
		if resp.NewTokenDenom != want {
			rt.Fatalf("MsgCreateDenom by %s with subdenom %q created %q, must be %q", chain.Actor(a), sub, resp.NewTokenDenom, want)
		}
		w.denAdmin[want] = a
		w.denPrev[want] = -2
		return want
	}
	d1 := mkDen(A0, "plain")
	if rapid.Bool().Draw(rt, "customMetadata") {
		must(rt, "set denom metadata", c.Exec(tftypes.NewMsgSetDenomMetadata(chain.Actor(A0).String(), banktypes.Metadata{Description: "custom", Base: d1, Display: "plain", Name: "Plain", Symbol: "PLN",
			DenomUnits: []*banktypes.DenomUnit{{Denom: d1, Exponent: 0}, {Denom: "plain", Exponent: 6}}})))
	}
	d2 := mkDen(A0, "handed")
	d3 := mkDen(A0, "renounced")
	d4 := mkDen(A1, "other")
	for _, d := range []string{d1, d2, d3} {
		for _, to := range []int{A0, A1, A2} {
			must(rt, "mint", c.Exec(tftypes.NewMsgMintTo(chain.Actor(A0).String(), coin(d, 1_000_000), chain.Actor(to).String())))
		}
	}
	for _, to := range []int{A0, A1, A2} {
		must(rt, "mint d4", c.Exec(tftypes.NewMsgMintTo(chain.Actor(A1).String(), coin(d4, 1_000_000), chain.Actor(to).String())))
	}
	// the lockup module account holds factory tokens (somebody locked them), so reaching into it would have an effect
	mkLock(A2, d1, osmomath.NewInt(5000), time.Hour)
	delete(w.lockOwner, c.App.LockupKeeper.GetLastLockID(c.Ctx))
	must(rt, "change admin", c.Exec(tftypes.NewMsgChangeAdmin(chain.Actor(A0).String(), d2, chain.Actor(A1).String())))
	w.denAdmin[d2], w.denPrev[d2] = A1, A0
	// a renounced admin is the empty admin string: reachable through genesis / contract bindings, not
	// through MsgChangeAdmin (its ValidateBasic rejects the empty address), so the record is written directly.
	{
		bz, err := (&tftypes.DenomAuthorityMetadata{Admin: ""}).Marshal()
		if err != nil {
			rt.Fatalf("harness: %v", err)
		}
		c.App.TokenFactoryKeeper.GetDenomPrefixStore(c.Ctx, d3).Set([]byte(tftypes.DenomAuthorityMetadataKey), bz)
	}
	w.denAdmin[d3], w.denPrev[d3] = -1, A0
	return w
}

func sortedU(m map[uint64]int) []uint64 {
	out := make([]uint64, 0, len(m))
	for k := range m {
		out = append(out, k)
	}
	sort.Slice(out, func(i, j int) bool { return out[i] < out[j] })
	return out
}

func sortedS(m map[string]int) []string {
	out := make([]string, 0, len(m))
	for k := range m {
		out = append(out, k)
	}
	sort.Strings(out)
	return out
}

// sender kinds
type snd struct {
	name  string
	addr  sdk.AccAddress
	actor int // -1 for non-actors
}

func (w *world) senders() []snd {
	mod := func(n string) sdk.AccAddress { return authtypes.NewModuleAddress(n) }
	return []snd{
		{"owner-A0", chain.Actor(A0), A0}, {"owner-A1", chain.Actor(A1), A1}, {"funded-stranger", chain.Actor(A2), A2}, {"empty-stranger", chain.Actor(A3), A3},
		{"cl-pool-address", w.poolAddr, -1}, {"gov-module", mod(govtypes.ModuleName), -1}, {"lockup-module", mod(lockuptypes.ModuleName), -1},
		{"superfluid-module", mod(sftypes.ModuleName), -1}, {"cl-module", mod(cltypes.ModuleName), -1}, {"tokenfactory-module", mod(tftypes.ModuleName), -1},
	}
}

type attempt struct {
	kind           string
	obj            string
	owner          int // rightful actor (-1 nobody)
	build          func(sender sdk.AccAddress) sdk.Msg
	govIsAdmin     bool // gov module is a documented administrator for this message
	controlMayFail bool
	prevOwner      int
}

func (w *world) attempts(rt *rapid.T) attempt {
	c := w.c
	_ = c
	group := rapid.IntRange(0, 3).Draw(rt, "group")
	switch group {
	case 0: // CL positions
		ids := sortedU(w.posOwner)
		id := ids[rapid.IntRange(0, len(ids)-1).Draw(rt, "pos")]
		own := w.posOwner[id]
		prev, hasPrev := w.posPrev[id]
		if !hasPrev {
			prev = -2
		}
		a := attempt{obj: fmt.Sprintf("position %d", id), owner: own, prevOwner: prev}
		pos, _ := c.App.ConcentratedLiquidityKeeper.GetPosition(c.Ctx, id)
		// batch messages: the sender's own positions (if any) around the foreign one, which sits at a drawn place in the
		// list - an owner check that is satisfied once by an earlier element must not cover a later one
		slot := rapid.IntRange(0, 3).Draw(rt, "batchSlot")
		batch := func(s sdk.AccAddress) []uint64 {
			var mine []uint64
			for _, q := range sortedU(w.posOwner) {
				if q != id && q != w.sfPos && chain.Actor(w.posOwner[q]).Equals(s) {
					mine = append(mine, q)
				}
			}
			at := slot
			if at > len(mine) {
				at = len(mine)
			}
			out := append([]uint64{}, mine[:at]...)
			out = append(out, id)
			return append(out, mine[at:]...)
		}
		switch rapid.IntRange(0, 8).Draw(rt, "clMsg") {
		case 6:
			a.kind = "MsgTransferPositions(batch)"
			a.govIsAdmin = true
			a.controlMayFail = true // the owner's batch may contain the pool's last position or the locked one
			a.build = func(s sdk.AccAddress) sdk.Msg {
				return &cltypes.MsgTransferPositions{PositionIds: batch(s), Sender: s.String(), NewOwner: chain.Actor(A2).String()}
			}
		case 7:
			a.kind = "MsgCollectSpreadRewards(batch)"
			a.build = func(s sdk.AccAddress) sdk.Msg {
				return &cltypes.MsgCollectSpreadRewards{PositionIds: batch(s), Sender: s.String()}
			}
		case 8:
			a.kind = "MsgCollectIncentives(batch)"
			a.build = func(s sdk.AccAddress) sdk.Msg {
				return &cltypes.MsgCollectIncentives{PositionIds: batch(s), Sender: s.String()}
			}
		case 0:
			a.kind = "MsgWithdrawPosition"
			a.controlMayFail = id == w.sfPos // locked
			a.build = func(s sdk.AccAddress) sdk.Msg {
				return &cltypes.MsgWithdrawPosition{PositionId: id, Sender: s.String(), LiquidityAmount: pos.Liquidity.QuoInt64(2)}
			}
		case 1:
			a.kind = "MsgAddToPosition"
			a.controlMayFail = id == w.sfPos
			a.build = func(s sdk.AccAddress) sdk.Msg {
				return &cltypes.MsgAddToPosition{PositionId: id, Sender: s.String(), Amount0: osmomath.NewInt(1_000_000), Amount1: osmomath.NewInt(1_000_000), TokenMinAmount0: osmomath.ZeroInt(), TokenMinAmount1: osmomath.ZeroInt()}
			}
		case 2:
			a.kind = "MsgCollectSpreadRewards"
			a.build = func(s sdk.AccAddress) sdk.Msg {
				return &cltypes.MsgCollectSpreadRewards{PositionIds: []uint64{id}, Sender: s.String()}
			}
		case 3:
			a.kind = "MsgCollectIncentives"
			a.build = func(s sdk.AccAddress) sdk.Msg {
				return &cltypes.MsgCollectIncentives{PositionIds: []uint64{id}, Sender: s.String()}
			}
		case 4:
			a.kind = "MsgTransferPositions"
			a.govIsAdmin = true
			a.controlMayFail = id == w.sfPos
			a.build = func(s sdk.AccAddress) sdk.Msg {
				return &cltypes.MsgTransferPositions{PositionIds: []uint64{id}, Sender: s.String(), NewOwner: chain.Actor(A2).String()}
			}
		default:
			a.kind = "MsgAddToConcentratedLiquiditySuperfluidPosition"
			a.controlMayFail = id != w.sfPos
			a.build = func(s sdk.AccAddress) sdk.Msg {
				return &sftypes.MsgAddToConcentratedLiquiditySuperfluidPosition{PositionId: id, Sender: s.String(), TokenDesired0: coin(w.bond, 1_000_000), TokenDesired1: coin("usdc", 1_000_000)}
			}
		}
		return a
	case 1: // locks
		ids := sortedU(w.lockOwner)
		ids = append(ids, w.sfPosLk)
		id := ids[rapid.IntRange(0, len(ids)-1).Draw(rt, "lock")]
		own, st, den := w.lockOwner[id], w.lockState[id], w.lockDenom[id]
		if id == w.sfPosLk {
			own, st, den = A0, "sfdelegated", cltypes.GetConcentratedLockupDenomFromPoolId(w.clPool)
		}
		lk, _ := c.App.LockupKeeper.GetLockByID(c.Ctx, id)
		a := attempt{obj: fmt.Sprintf("lock %d (%s, %s)", id, st, den), owner: own, prevOwner: -2}
		if rcv, ok := w.lockReceiver[id]; ok {
			a.obj += fmt.Sprintf(" rewards redirected to actor %d", rcv)
			a.prevOwner = rcv // counts as "a sender with a relation to the object" for the non-triviality rule
		}
		isGamm := den == w.gammDen
		switch rapid.IntRange(0, 9).Draw(rt, "lockMsg") {
		case 0:
			a.kind = "MsgBeginUnlocking"
			a.controlMayFail = st != "bonded"
			a.build = func(s sdk.AccAddress) sdk.Msg { return lockuptypes.NewMsgBeginUnlocking(s, id, nil) }
		case 1:
			a.kind = "MsgExtendLockup"
			a.controlMayFail = st != "bonded"
			a.build = func(s sdk.AccAddress) sdk.Msg { return lockuptypes.NewMsgExtendLockup(s, id, lk.Duration+time.Hour) }
		case 2:
			a.kind = "MsgSetRewardReceiverAddress"
			a.build = func(s sdk.AccAddress) sdk.Msg {
				return lockuptypes.NewMsgSetRewardReceiverAddress(s, chain.Actor(A2), id)
			}
		case 3:
			a.kind = "MsgForceUnlock"
			a.owner = -1 // nobody is whitelisted
			a.build = func(s sdk.AccAddress) sdk.Msg { return lockuptypes.NewMsgForceUnlock(s, id, sdk.Coins{}) }
		case 4:
			a.kind = "MsgSuperfluidDelegate"
			a.controlMayFail = !(isGamm && st == "bonded")
			a.build = func(s sdk.AccAddress) sdk.Msg { return sftypes.NewMsgSuperfluidDelegate(s, id, w.val) }
		case 5:
			a.kind = "MsgSuperfluidUndelegate"
			a.controlMayFail = st != "sfdelegated"
			a.build = func(s sdk.AccAddress) sdk.Msg { return sftypes.NewMsgSuperfluidUndelegate(s, id) }
		case 6:
			a.kind = "MsgSuperfluidUnbondLock"
			a.controlMayFail = st != "sfundelegating"
			a.build = func(s sdk.AccAddress) sdk.Msg { return sftypes.NewMsgSuperfluidUnbondLock(s, id) }
		case 7:
			a.kind = "MsgSuperfluidUndelegateAndUnbondLock"
			a.controlMayFail = st != "sfdelegated" || id == w.sfPosLk
			a.build = func(s sdk.AccAddress) sdk.Msg {
				return sftypes.NewMsgSuperfluidUndelegateAndUnbondLock(s, id, sdk.NewCoin(den, lk.Coins[0].Amount.QuoRaw(2)))
			}
		case 8:
			a.kind = "MsgUnlockAndMigrateSharesToFullRangeConcentratedPosition"
			a.controlMayFail = true // needs a governance-set migration link
			a.build = func(s sdk.AccAddress) sdk.Msg {
				return sftypes.NewMsgUnlockAndMigrateSharesToFullRangeConcentratedPosition(s, int64(id), lk.Coins[0])
			}
		default:
			a.kind = "MsgUnbondConvertAndStake"
			a.controlMayFail = !isGamm
			a.build = func(s sdk.AccAddress) sdk.Msg {
				return sftypes.NewMsgUnbondConvertAndStake(s, id, w.val.String(), osmomath.ZeroInt(), sdk.Coin{})
			}
		}
		return a
	case 2: // factory denoms
		ds := sortedS(w.denAdmin)
		d := ds[rapid.IntRange(0, len(ds)-1).Draw(rt, "denom")]
		a := attempt{obj: "denom " + d[len(d)-12:], owner: w.denAdmin[d], prevOwner: w.denPrev[d]}
		victim := chain.Actor(A2).String()
		switch rapid.IntRange(0, 7).Draw(rt, "tfMsg") {
		case 6:
			// nobody may create an existing denom again - not even its creator, and in particular not after the admin
			// was renounced (that would hand the creator every admin power back); the sender drawn below is ignored
			a.kind = "MsgCreateDenom(existing denom, by its creator)"
			a.owner, a.prevOwner = -1, -2
			parts := strings.SplitN(d, "/", 3)
			a.build = func(s sdk.AccAddress) sdk.Msg { return tftypes.NewMsgCreateDenom(parts[1], parts[2]) }
		case 0:
			a.kind = "MsgMint"
			a.build = func(s sdk.AccAddress) sdk.Msg { return tftypes.NewMsgMintTo(s.String(), coin(d, 1000), s.String()) }
		case 1:
			a.kind = "MsgBurn(own)"
			a.build = func(s sdk.AccAddress) sdk.Msg { return tftypes.NewMsgBurn(s.String(), coin(d, 10)) }
		case 2:
			a.kind = "MsgBurn(from)"
			a.build = func(s sdk.AccAddress) sdk.Msg { return tftypes.NewMsgBurnFrom(s.String(), coin(d, 10), victim) }
		case 3:
			a.kind = "MsgForceTransfer"
			a.build = func(s sdk.AccAddress) sdk.Msg {
				return tftypes.NewMsgForceTransfer(s.String(), coin(d, 10), victim, s.String())
			}
		case 4:
			a.kind = "MsgChangeAdmin"
			a.build = func(s sdk.AccAddress) sdk.Msg { return tftypes.NewMsgChangeAdmin(s.String(), d, s.String()) }
		case 5:
			a.kind = "MsgSetDenomMetadata"
			a.build = func(s sdk.AccAddress) sdk.Msg {
				return tftypes.NewMsgSetDenomMetadata(s.String(), banktypes.Metadata{Description: "x", Base: d, Display: d, Name: "n", Symbol: "S",
					DenomUnits: []*banktypes.DenomUnit{{Denom: d, Exponent: 0}}})
			}
		default:
			a.kind = "MsgSetBeforeSendHook"
			a.controlMayFail = true
			a.build = func(s sdk.AccAddress) sdk.Msg { return tftypes.NewMsgSetBeforeSendHook(s.String(), d, "") }
		}
		return a
	default: // protected module accounts: even the admin cannot reach into them
		ds := sortedS(w.denAdmin)
		d := ds[0] // "plain": admin A0
		for _, x := range ds {
			if w.denAdmin[x] == A0 {
				d = x
			}
		}
		mods := []string{lockuptypes.ModuleName, gammtypes.ModuleName, govtypes.ModuleName, "distribution", sftypes.ModuleName, tftypes.ModuleName, "bonded_tokens_pool"}
		mi := rapid.IntRange(0, len(mods)-1).Draw(rt, "module")
		if rapid.Bool().Draw(rt, "holdingModule") {
			mi = 0 // lockup: holds the denom
		}
		m := authtypes.NewModuleAddress(mods[mi]).String()
		// bech32 has a second valid spelling of every address (all upper case): it names the same protected account
		if rapid.Bool().Draw(rt, "upperCaseSpelling") {
			m = strings.ToUpper(m)
		}
		a := attempt{obj: "module account via " + d[len(d)-8:], owner: -1, prevOwner: -2}
		switch rapid.IntRange(0, 3).Draw(rt, "modMsg") {
		case 0:
			a.kind = "MsgMint(to module account)"
			a.build = func(s sdk.AccAddress) sdk.Msg {
				return tftypes.NewMsgMintTo(chain.Actor(A0).String(), coin(d, 1000), m)
			}
		case 1:
			a.kind = "MsgBurn(from module account)"
			a.build = func(s sdk.AccAddress) sdk.Msg { return tftypes.NewMsgBurnFrom(chain.Actor(A0).String(), coin(d, 1), m) }
		case 2:
			a.kind = "MsgForceTransfer(from module account)"
			a.build = func(s sdk.AccAddress) sdk.Msg {
				return tftypes.NewMsgForceTransfer(chain.Actor(A0).String(), coin(d, 1), m, chain.Actor(A0).String())
			}
		default:
			a.kind = "MsgForceTransfer(to module account)"
			a.build = func(s sdk.AccAddress) sdk.Msg {
				return tftypes.NewMsgForceTransfer(chain.Actor(A0).String(), coin(d, 1), chain.Actor(A2).String(), m)
			}
		}
		return a
	}
}

// declaredSender returns the address a message names as the party acting ("Sender", for lockup messages "Owner"): the
// field every handler authorises against.
func declaredSender(msg sdk.Msg) (string, bool) {
	v := reflect.ValueOf(msg)
	if v.Kind() == reflect.Ptr {
		v = v.Elem()
	}
	if v.Kind() != reflect.Struct {
		return "", false
	}
	for _, n := range []string{"Sender", "Owner"} {
		if f := v.FieldByName(n); f.IsValid() && f.Kind() == reflect.String {
			return f.String(), true
		}
	}
	return "", false
}

// checkSigner: "sent by X" means, at the transaction level, signed by X. The handler authorises the declared sender
// field, the ante handler (and the authz module) authenticate the signers the application's codec derives from the
// message: both must be one and the same address, otherwise anybody could name the owner as sender and sign as
// themselves.
func checkSigner(rt *rapid.T, c *chain.Chain, kind string, msg sdk.Msg) {
	want, ok := declaredSender(msg)
	if !ok {
		rt.Fatalf("harness: %s (%T) has no Sender/Owner field", kind, msg)
	}
	signers, _, err := c.App.AppCodec().GetMsgV1Signers(msg)
	if err != nil {
		rt.Fatalf("%s: the application cannot derive the signers: %v", kind, err)
	}
	if len(signers) != 1 || sdk.AccAddress(signers[0]).String() != want {
		got := []string{}
		for _, b := range signers {
			got = append(got, sdk.AccAddress(b).String())
		}
		rt.Fatalf("%s: the handler authorises the declared sender %s but the transaction is authenticated against the signers %v", kind, want, got)
	}
	if lg, ok := msg.(interface{ GetSigners() []sdk.AccAddress }); ok {
		ls := lg.GetSigners()
		if len(ls) != 1 || ls[0].String() != want {
			rt.Fatalf("%s: legacy GetSigners() = %v, declared sender %s", kind, ls, want)
		}
	}
}

func TestPropAuthz(t *testing.T) {
	drv.Check(t, drv.Cfg{Name: "owner-only", Rule: rule, Quick: 250, Thorough: 20000}, func(rt *rapid.T, cs *drv.Case) {
		w := buildWorld(rt, t)
		c := w.c
		// an upgrade by export/import replaces the module's state by InitGenesis(ExportGenesis()): on this module that is the
		// identity (every record it writes is exported), so afterwards nobody may hold a power they did not hold before
		if rapid.IntRange(0, 2).Draw(rt, "tokenfactoryGenesisRoundTrip") == 0 {
			before := c.Digest()
			gs := c.App.TokenFactoryKeeper.ExportGenesis(c.Ctx)
			c.App.TokenFactoryKeeper.InitGenesis(c.Ctx, *gs)
			if c.Digest() != before {
				for d, a := range w.denAdmin {
					md, _ := c.App.TokenFactoryKeeper.GetAuthorityMetadata(c.Ctx, d)
					want := ""
					if a >= 0 {
						want = chain.Actor(a).String()
					}
					if md.Admin != want {
						rt.Fatalf("after tokenfactory InitGenesis(ExportGenesis()) the admin of %s is %q, it was %q", d, md.Admin, want)
					}
				}
				rt.Fatalf("tokenfactory InitGenesis(ExportGenesis()) changed the chain state (admins unchanged)")
			}
			cs.Class("tokenfactory-genesis-round-trip")
		}
		// several attempts per world (each on the unchanged world: failed txs leave no trace, controls run on branches)
		n := 6
		for i := 0; i < n; i++ {
			a := w.attempts(rt)
			ss := w.senders()
			s := ss[rapid.IntRange(0, len(ss)-1).Draw(rt, "sender")]
			authorised := (a.owner >= 0 && s.actor == a.owner) || (a.govIsAdmin && s.name == "gov-module")
			// the protected-module-account group ignores the sender (the admin itself sends)
			if strings.Contains(a.kind, "module account") {
				authorised = false
			}
			if authorised {
				// the control: must succeed unless the object state makes the operation inapplicable
				b := c.Branch()
				cm := a.build(s.addr)
				checkSigner(rt, c, a.kind, cm)
				r := b.Exec(cm)
				if !r.OK() && !a.controlMayFail {
					rt.Fatalf("control: %s on %s by its rightful owner/admin (%s) failed: %v", a.kind, a.obj, s.name, r.Err)
				}
				if r.OK() {
					cs.Class("control-ok")
				} else {
					cs.Class("control-inapplicable")
				}
				continue
			}
			before := c.Digest()
			um := a.build(s.addr)
			checkSigner(rt, c, a.kind, um)
			r := c.Exec(um)
			if r.OK() {
				rt.Fatalf("%s on %s (rightful owner/admin: actor %d) sent by %s SUCCEEDED", a.kind, a.obj, a.owner, s.name)
			}
			if c.Digest() != before {
				rt.Fatalf("%s on %s sent by %s failed but changed state", a.kind, a.obj, s.name)
			}
			// the delegated route: the message names the rightful owner as sender and is executed by the wrong sender through
			// authz.MsgExec. Without a grant it must fail without trace; with the owner's generic grant for exactly this message
			// type it must succeed like the owner's own transaction (control, on a branch) - and a grant for another type, or
			// given by somebody else, must not help.
			if a.owner >= 0 && !strings.Contains(a.kind, "module account") && rapid.IntRange(0, 2).Draw(rt, "viaAuthz") == 0 {
				owner := chain.Actor(a.owner)
				inner := a.build(owner)
				ex := authz.NewMsgExec(s.addr, []sdk.Msg{inner})
				r := c.Exec(&ex)
				if r.OK() {
					rt.Fatalf("%s on %s executed through authz.MsgExec by %s WITHOUT a grant of the owner SUCCEEDED", a.kind, a.obj, s.name)
				}
				if c.Digest() != before {
					rt.Fatalf("%s on %s through authz.MsgExec by %s failed but changed state", a.kind, a.obj, s.name)
				}
				cs.Class("authz-exec-without-grant")
				b := c.Branch()
				url := sdk.MsgTypeURL(inner)
				// a grant by a third party (the funded stranger, or A1 when the stranger is the sender) for this type is no authority
				third := chain.Actor(A2)
				if third.Equals(s.addr) || third.Equals(owner) {
					third = chain.Actor(A1)
				}
				if !third.Equals(s.addr) && !third.Equals(owner) {
					g, err := authz.NewMsgGrant(third, s.addr, authz.NewGenericAuthorization(url), nil)
					if err != nil {
						rt.Fatalf("harness: NewMsgGrant: %v", err)
					}
					must(rt, "third-party grant", b.Exec(g))
					ex2 := authz.NewMsgExec(s.addr, []sdk.Msg{a.build(owner)})
					if r := b.Exec(&ex2); r.OK() {
						rt.Fatalf("%s on %s through authz.MsgExec by %s with a grant given by a THIRD PARTY succeeded", a.kind, a.obj, s.name)
					}
					cs.Class("authz-exec-third-party-grant")
				}
				// the owner's grant for another message type is no authority either
				other := sdk.MsgTypeURL(&banktypes.MsgSend{})
				g0, _ := authz.NewMsgGrant(owner, s.addr, authz.NewGenericAuthorization(other), nil)
				must(rt, "owner grant for another type", b.Exec(g0))
				ex3 := authz.NewMsgExec(s.addr, []sdk.Msg{a.build(owner)})
				if r := b.Exec(&ex3); r.OK() {
					rt.Fatalf("%s on %s through authz.MsgExec by %s with the owner's grant for %s succeeded", a.kind, a.obj, s.name, other)
				}
				g1, _ := authz.NewMsgGrant(owner, s.addr, authz.NewGenericAuthorization(url), nil)
				must(rt, "owner grant", b.Exec(g1))
				ex4 := authz.NewMsgExec(s.addr, []sdk.Msg{a.build(owner)})
				r = b.Exec(&ex4)
				if !r.OK() && !a.controlMayFail {
					rt.Fatalf("control: %s on %s through authz.MsgExec by %s WITH the owner's grant failed: %v", a.kind, a.obj, s.name, r.Err)
				}
				if r.OK() {
					cs.Class("authz-exec-with-grant-ok")
				}
			}
			cs.Class("msg=" + a.kind)
			cs.Class("sender=" + s.name)
			nt := s.name == "funded-stranger" || (s.actor >= 0 && s.actor == a.prevOwner) || (s.actor == A0 || s.actor == A1)
			if a.owner == -1 && a.prevOwner >= 0 && s.actor == a.prevOwner {
				cs.Class("renounced-admin-tries")
			}
			if nt {
				cs.NonTrivial(fmt.Sprintf("%s|%s|%s", a.kind, a.obj, s.name))
				cs.Samplef("%s on %s (owner actor %d, previous %d) sent by %s -> rejected: %.120s", a.kind, a.obj, a.owner, a.prevOwner, s.name, r.Err)
			}
		}
	})
}

// every registered Msg of the four modules must be classified (tested or justified as not acting on an owned object)
var classified = map[string]string{
	"/osmosis.concentratedliquidity.v1beta1.MsgCreatePosition":                                "creates a new object for the sender",
	"/osmosis.concentratedliquidity.v1beta1.MsgWithdrawPosition":                              "tested",
	"/osmosis.concentratedliquidity.v1beta1.MsgAddToPosition":                                 "tested",
	"/osmosis.concentratedliquidity.v1beta1.MsgCollectSpreadRewards":                          "tested",
	"/osmosis.concentratedliquidity.v1beta1.MsgCollectIncentives":                             "tested",
	"/osmosis.concentratedliquidity.v1beta1.MsgTransferPositions":                             "tested",
	"/osmosis.concentratedliquidity.v1beta1.MsgFungifyChargedPositions":                       "registered codec type without a message-server handler: cannot be executed",
	"/osmosis.concentratedliquidity.poolmodel.concentrated.v1beta1.MsgCreateConcentratedPool": "creates a pool",
	"/osmosis.lockup.MsgLockTokens":                                                           "locks the sender's own coins",
	"/osmosis.lockup.MsgBeginUnlockingAll":                                                    "acts on the sender's own locks only",
	"/osmosis.lockup.MsgBeginUnlocking":                                                       "tested",
	"/osmosis.lockup.MsgExtendLockup":                                                         "tested",
	"/osmosis.lockup.MsgForceUnlock":                                                          "tested (nobody whitelisted)",
	"/osmosis.lockup.MsgSetRewardReceiverAddress":                                             "tested",
	"/osmosis.superfluid.MsgSuperfluidDelegate":                                               "tested",
	"/osmosis.superfluid.MsgSuperfluidUndelegate":                                             "tested",
	"/osmosis.superfluid.MsgSuperfluidUnbondLock":                                             "tested",
	"/osmosis.superfluid.MsgSuperfluidUndelegateAndUnbondLock":                                "tested",
	"/osmosis.superfluid.MsgLockAndSuperfluidDelegate":                                        "locks the sender's own coins",
	"/osmosis.superfluid.MsgCreateFullRangePositionAndSuperfluidDelegate":                     "creates a new object for the sender",
	"/osmosis.superfluid.MsgUnPoolWhitelistedPool":                                            "acts on the sender's own locks of a governance-whitelisted pool only",
	"/osmosis.superfluid.MsgUnlockAndMigrateSharesToFullRangeConcentratedPosition":            "tested",
	"/osmosis.superfluid.MsgAddToConcentratedLiquiditySuperfluidPosition":                     "tested",
	"/osmosis.superfluid.MsgUnbondConvertAndStake":                                            "tested",
	"/osmosis.tokenfactory.v1beta1.MsgCreateDenom":                                            "tested (namespace)",
	"/osmosis.tokenfactory.v1beta1.MsgMint":                                                   "tested",
	"/osmosis.tokenfactory.v1beta1.MsgBurn":                                                   "tested",
	"/osmosis.tokenfactory.v1beta1.MsgChangeAdmin":                                            "tested",
	"/osmosis.tokenfactory.v1beta1.MsgSetDenomMetadata":                                       "tested",
	"/osmosis.tokenfactory.v1beta1.MsgSetBeforeSendHook":                                      "tested",
	"/osmosis.tokenfactory.v1beta1.MsgForceTransfer":                                          "tested",
}

func TestRegressMessageTableComplete(t *testing.T) {
	c := chain.New(t)
	for _, url := range c.App.InterfaceRegistry().ListImplementations(sdk.MsgInterfaceProtoName) {
		for _, pre := range []string{"/osmosis.concentratedliquidity.", "/osmosis.lockup.", "/osmosis.superfluid.", "/osmosis.tokenfactory."} {
			if strings.HasPrefix(url, pre) && !strings.HasSuffix(url, "Response") {
				if _, ok := classified[url]; !ok {
					t.Errorf("message type %s is registered but not classified by the C20 harness", url)
				}
			}
		}
	}
}
