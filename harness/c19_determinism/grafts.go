package c19

import (
	"fmt"
	"sort"
	"strings"

	cmtproto "github.com/cometbft/cometbft/proto/tendermint/types"
	banktypes "github.com/cosmos/cosmos-sdk/x/bank/types"

	cltypes "github.com/osmosis-labs/osmosis/v31/x/concentrated-liquidity/types"
	pmtypes "github.com/osmosis-labs/osmosis/v31/x/poolmanager/types"
	protorevtypes "github.com/osmosis-labs/osmosis/v31/x/protorev/types"
	valsettypes "github.com/osmosis-labs/osmosis/v31/x/valset-pref/types"

	"verif/harness/drv"
)

// A graft repairs, on a freshly imported node, one piece of state that a listed known finding says is not carried
// by the exported genesis, by copying the raw entries from the source node. It is applied only while the finding is
// listed as known, every application is counted as an exclusion, and it lets the search continue behind the finding.
type graft struct {
	id     string
	store  string
	prefix []byte
}

var grafts = []graft{
	{"C19-valsetpref-no-genesis", valsettypes.StoreKey, nil},
	{"C19-protorev-state-not-exported", protorevtypes.StoreKey, protorevtypes.KeyPrefixDenomPairToPool},
	{"C19-protorev-state-not-exported", protorevtypes.StoreKey, protorevtypes.KeyPrefixNumberOfTrades},
	{"C19-protorev-state-not-exported", protorevtypes.StoreKey, protorevtypes.KeyPrefixTradesByRoute},
	{"C19-protorev-state-not-exported", protorevtypes.StoreKey, protorevtypes.KeyPrefixProfitsByRoute},
	{"C19-bank-supply-offset-not-exported", banktypes.StoreKey, banktypes.SupplyOffsetKey},
	{"C19-cl-full-range-liquidity-recomputed", cltypes.StoreKey, cltypes.FullRangeLiquidityPrefix},
	{"C19-poolmanager-taker-fee-share-not-exported", pmtypes.StoreKey, pmtypes.KeyTakerFeeShare},
	{"C19-poolmanager-taker-fee-share-not-exported", pmtypes.StoreKey, pmtypes.KeyRegisteredAlloyPool},
	{"C19-poolmanager-taker-fee-share-not-exported", pmtypes.StoreKey, pmtypes.TakerFeeSkimAccrualPrefix},
}

func prefixEnd(p []byte) []byte {
	if len(p) == 0 {
		return nil
	}
	end := append([]byte{}, p...)
	for i := len(end) - 1; i >= 0; i-- {
		end[i]++
		if end[i] != 0 {
			return end[:i+1]
		}
	}
	return nil
}

// ApplyGrafts copies the listed prefixes from src's committed state into imp's not yet committed genesis state.
// It returns the ids of the findings for which at least one entry had to be copied.
func ApplyGrafts(src, imp *Node) []string {
	sctx := src.ReadCtx()
	ictx := imp.App.BaseApp.NewContextLegacy(false, cmtproto.Header{Height: imp.Height + 1, ChainID: ChainID, Time: imp.Time})
	used := map[string]bool{}
	for _, g := range grafts {
		if !drv.Known(g.id) {
			continue
		}
		sk, ik := src.App.GetKVStoreKey()[g.store], imp.App.GetKVStoreKey()[g.store]
		if sk == nil || ik == nil {
			panic("graft: unknown store " + g.store)
		}
		it := sctx.KVStore(sk).Iterator(g.prefix, prefixEnd(g.prefix))
		dst := ictx.KVStore(ik)
		for ; it.Valid(); it.Next() {
			if cur := dst.Get(it.Key()); cur == nil || string(cur) != string(it.Value()) {
				dst.Set(it.Key(), it.Value())
				used[g.id] = true
			}
		}
		it.Close()
	}
	var out []string
	for id := range used {
		out = append(out, id)
	}
	sort.Strings(out)
	return out
}

// Reports lists what a node answers to a fixed set of state queries that are not part of any exported genesis
// (the listed known findings live here); two nodes with the same state give the same lines.
func (n *Node) Reports() []string {
	ctx := n.ReadCtx()
	var out []string
	for _, d := range Denoms {
		out = append(out, fmt.Sprintf("bank supply-with-offset %s = %s", d, n.App.BankKeeper.GetSupplyWithOffset(ctx, d).Amount))
	}
	for i := 0; i < NActors; i++ {
		p, found := n.App.ValidatorSetPreferenceKeeper.GetValidatorSetPreference(ctx, Actor(i).String())
		var ps []string
		for _, x := range p.Preferences {
			ps = append(ps, x.ValOperAddress+":"+x.Weight.String())
		}
		out = append(out, fmt.Sprintf("valset-pref actor%d found=%v %s", i, found, strings.Join(ps, ",")))
	}
	for _, b := range []string{"uosmo", "stake"} {
		for _, d := range Denoms {
			id, err := n.App.ProtoRevKeeper.GetPoolForDenomPair(ctx, b, d)
			out = append(out, fmt.Sprintf("protorev pool-for-pair %s/%s = %d (err=%v)", b, d, id, err != nil))
		}
	}
	nt, err := n.App.ProtoRevKeeper.GetNumberOfTrades(ctx)
	out = append(out, fmt.Sprintf("protorev number-of-trades = %s (err=%v)", nt, err != nil))
	routes, _ := n.App.ProtoRevKeeper.GetAllRoutes(ctx)
	out = append(out, fmt.Sprintf("protorev routes-with-statistics = %v", routes))
	if pools, err := n.App.ConcentratedLiquidityKeeper.GetPools(ctx); err == nil {
		for _, pl := range pools {
			l, err := n.App.ConcentratedLiquidityKeeper.GetFullRangeLiquidityInPool(ctx, pl.GetId())
			out = append(out, fmt.Sprintf("concentrated-liquidity full-range liquidity of pool %d = %s (err=%v)", pl.GetId(), l, err != nil))
		}
	}
	// the link between a position and the lock it was created under (kept until the position is touched after the lock
	// has matured): a read the withdraw / add / transfer paths depend on
	for id := uint64(1); id < n.App.ConcentratedLiquidityKeeper.GetNextPositionId(ctx); id++ {
		if lk, err := n.App.ConcentratedLiquidityKeeper.GetLockIdFromPositionId(ctx, id); err == nil {
			out = append(out, fmt.Sprintf("concentrated-liquidity position %d is linked to lock %d", id, lk))
		}
	}
	ag, err := n.App.PoolManagerKeeper.GetAllTakerFeesShareAgreements(ctx)
	out = append(out, fmt.Sprintf("poolmanager taker-fee share agreements = %v (err=%v)", ag, err != nil))
	al, err := n.App.PoolManagerKeeper.GetAllRegisteredAlloyedPools(ctx)
	var als []string
	for _, x := range al {
		als = append(als, fmt.Sprintf("%s@%s", x.ContractAddress, x.TakerFeeShareAgreements))
	}
	out = append(out, fmt.Sprintf("poolmanager registered alloyed pools = %v (err=%v)", als, err != nil))
	acc, err := n.App.PoolManagerKeeper.GetAllTakerFeeShareAccumulators(ctx)
	out = append(out, fmt.Sprintf("poolmanager taker-fee share accumulators = %v (err=%v)", acc, err != nil))
	return out
}
