package c19

import (
	"encoding/json"
	"fmt"
	"os"
	"testing"
)

// TestDebugReports (VERIF_REPLAY_FILE) prints, per block after the import, the report lines on which source and imported node differ.
func TestDebugReports(t *testing.T) {
	f := os.Getenv("VERIF_REPLAY_FILE")
	if f == "" {
		t.Skip()
	}
	bz, _ := os.ReadFile(f)
	var p Plan
	_ = json.Unmarshal(bz, &p)
	n := NewNode(Bootstrap(p.Cfg))
	var imp *Node
	for bi := range p.Blocks {
		blk := p.Blocks[bi]
		votes := n.Votes()
		br, err := n.RunBlock(blk.Dt, blk.Txs, votes)
		if err != nil {
			t.Fatal(err)
		}
		if imp != nil {
			bi2, err := imp.RunBlock(blk.Dt, blk.Txs, votes)
			if err != nil {
				t.Fatal(err)
			}
			for _, d := range []string{"uion", "usdc"} {
				a1, f1 := n.App.PoolManagerKeeper.GetTakerFeeShareAgreementFromDenomUNSAFE(d)
				a2, f2 := imp.App.PoolManagerKeeper.GetTakerFeeShareAgreementFromDenomUNSAFE(d)
				fmt.Printf("block %d cached agreement %s: SRC %v %v IMP %v %v\n", bi, d, a1, f1, a2, f2)
			}
			ra, rb := n.Reports(), imp.Reports()
			for i := range ra {
				if ra[i] != rb[i] {
					fmt.Printf("block %d report differs\n  SRC %s\n  IMP %s\n", bi, ra[i], rb[i])
				}
			}
			if d := compareBlock(bi, blk, br, bi2, false); d != "" {
				fmt.Printf("block %d: %s\n", bi, d)
			}
		}
		if bi == p.ExportAt-1 {
			raw, _, _ := n.Export()
			imp, err = NewNodeFromExport(raw, n.Height, n.Time)
			if err != nil {
				t.Fatal(err)
			}
			fmt.Println("grafted", ApplyGrafts(n, imp))
		}
	}
}
