package c19

import (
	"fmt"
	"os"
	"runtime"
	"runtime/pprof"
	"testing"
)

// TestDebugLeak (VERIF_DEBUG_LEAK=1): memory and goroutines retained after nodes are closed.
func TestDebugLeak(t *testing.T) {
	if os.Getenv("VERIF_DEBUG_LEAK") == "" {
		t.Skip()
	}
	cfg := defaultCfg()
	cfg.Alloyed = true
	for i := 0; i < 24; i++ {
		n := NewNode(Bootstrap(cfg))
		for b := 0; b < 3; b++ {
			if _, err := n.RunBlock(5e9, nil, n.Votes()); err != nil {
				t.Fatal(err)
			}
		}
		n.Restart()
		n.Close()
		if i == 23 {
			_ = pprof.Lookup("goroutine").WriteTo(os.Stdout, 1)
		}
		if i%4 == 3 {
			runtime.GC()
			var m runtime.MemStats
			runtime.ReadMemStats(&m)
			rss := 0
			if bz, err := os.ReadFile("/proc/self/statm"); err == nil {
				var a, b int
				fmt.Sscanf(string(bz), "%d %d", &a, &b)
				rss = b * 4 / 1024
			}
			fmt.Printf("after %d nodes: heap in use %d MB, objects %d, goroutines %d, rss %d MB\n", i+1, m.HeapInuse>>20, m.HeapObjects, runtime.NumGoroutine(), rss)
		}
	}
}
