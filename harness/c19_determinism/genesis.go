package c19

import (
	"encoding/json"
	"path/filepath"
	"time"

	"cosmossdk.io/log"
	sdkmath "cosmossdk.io/math"
	wasmkeeper "github.com/CosmWasm/wasmd/x/wasm/keeper"
	wasmvm "github.com/CosmWasm/wasmvm/v2"
	abci "github.com/cometbft/cometbft/abci/types"
	cmted25519 "github.com/cometbft/cometbft/crypto/ed25519"
	tmtypes "github.com/cometbft/cometbft/types"
	cosmosdb "github.com/cosmos/cosmos-db"
	"github.com/cosmos/cosmos-sdk/baseapp"
	codectypes "github.com/cosmos/cosmos-sdk/codec/types"
	cryptocodec "github.com/cosmos/cosmos-sdk/crypto/codec"
	"github.com/cosmos/cosmos-sdk/crypto/keys/secp256k1"
	sims "github.com/cosmos/cosmos-sdk/testutil/sims"
	sdk "github.com/cosmos/cosmos-sdk/types"
	authtypes "github.com/cosmos/cosmos-sdk/x/auth/types"
	banktypes "github.com/cosmos/cosmos-sdk/x/bank/types"
	stakingtypes "github.com/cosmos/cosmos-sdk/x/staking/types"

	"github.com/osmosis-labs/osmosis/osmomath"
	"github.com/osmosis-labs/osmosis/v31/app"
)

// newApp builds an application on a fresh in-memory database (no InitChain yet).
// newApp builds the application with a CosmWasm VM that the caller owns (the application itself never releases its VM:
// hundreds of nodes per process would pile up their module caches and address-space reservations). Same settings as
// the keeper's own default: directory <home>/wasm/wasm, built-in capabilities plus "osmosis", 32 MiB per contract.
func newApp(dir string, db cosmosdb.DB) (*app.OsmosisApp, *wasmvm.VM) {
	vm, err := wasmvm.NewVM(filepath.Join(dir, "wasm", "wasm"), append(wasmkeeper.BuiltInCapabilities(), "osmosis"), 32, false, 64)
	if err != nil {
		panic(err)
	}
	a := app.NewOsmosisApp(log.NewNopLogger(), db, nil, true, map[int64]bool{}, dir, 0, sims.EmptyAppOptions{}, []wasmkeeper.Option{wasmkeeper.WithWasmEngine(vm)}, baseapp.SetChainID(ChainID))
	return a, vm
}

var genesisBytes []byte

// defaultGenesis mirrors app.GenesisStateWithValSet (one bonded validator, one genesis account that delegated to
// it) with keys derived from fixed secrets, so that a saved history replays bit-identically in another process.
func defaultGenesis(a *app.OsmosisApp) []byte {
	if genesisBytes != nil {
		return genesisBytes
	}
	pubKey := cmted25519.GenPrivKeyFromSecret([]byte("c19-genesis-validator")).PubKey()
	val := tmtypes.NewValidator(pubKey, 1)
	sender := secp256k1.GenPrivKeyFromSecret([]byte("c19-genesis-account"))
	acc := authtypes.NewBaseAccountWithAddress(sender.PubKey().Address().Bytes())
	gs := app.NewDefaultGenesisState()
	gs[authtypes.ModuleName] = a.AppCodec().MustMarshalJSON(authtypes.NewGenesisState(authtypes.DefaultParams(), []authtypes.GenesisAccount{acc}))
	pk, err := cryptocodec.FromCmtPubKeyInterface(val.PubKey)
	if err != nil {
		panic(err)
	}
	pkAny, err := codectypes.NewAnyWithValue(pk)
	if err != nil {
		panic(err)
	}
	bondAmt := sdk.DefaultPowerReduction
	validator := stakingtypes.Validator{
		OperatorAddress: sdk.ValAddress(val.Address).String(), ConsensusPubkey: pkAny, Status: stakingtypes.Bonded, Tokens: bondAmt,
		DelegatorShares: osmomath.OneDec(), UnbondingTime: time.Unix(0, 0).UTC(),
		Commission: stakingtypes.NewCommission(osmomath.ZeroDec(), osmomath.ZeroDec(), osmomath.ZeroDec()), MinSelfDelegation: sdkmath.ZeroInt(),
	}
	del := stakingtypes.NewDelegation(acc.GetAddress().String(), sdk.ValAddress(val.Address).String(), osmomath.OneDec())
	gs[stakingtypes.ModuleName] = a.AppCodec().MustMarshalJSON(stakingtypes.NewGenesisState(stakingtypes.DefaultParams(), []stakingtypes.Validator{validator}, []stakingtypes.Delegation{del}))
	bonded := sdk.NewCoins(sdk.NewCoin(sdk.DefaultBondDenom, bondAmt))
	gs[banktypes.ModuleName] = a.AppCodec().MustMarshalJSON(banktypes.NewGenesisState(banktypes.DefaultGenesisState().Params,
		[]banktypes.Balance{{Address: authtypes.NewModuleAddress(stakingtypes.BondedPoolName).String(), Coins: bonded}}, bonded, []banktypes.Metadata{}, []banktypes.SendEnabled{}))
	bz, err := json.Marshal(gs)
	if err != nil {
		panic(err)
	}
	genesisBytes = bz
	return bz
}

func initChain(a *app.OsmosisApp, state []byte, initialHeight int64, t time.Time) error {
	_, err := a.InitChain(&abci.RequestInitChain{
		Validators:      []abci.ValidatorUpdate{},
		ConsensusParams: sims.DefaultConsensusParams,
		AppStateBytes:   state,
		ChainId:         ChainID,
		InitialHeight:   initialHeight,
		Time:            t,
	})
	return err
}
