package c19

import (
	"bytes"
	"fmt"
	"strings"
	"testing"
	"time"

	abci "github.com/cometbft/cometbft/abci/types"
	sdk "github.com/cosmos/cosmos-sdk/types"
	stakingtypes "github.com/cosmos/cosmos-sdk/x/staking/types"

	"github.com/osmosis-labs/osmosis/osmomath"
	clmodel "github.com/osmosis-labs/osmosis/v31/x/concentrated-liquidity/model"
	cltypes "github.com/osmosis-labs/osmosis/v31/x/concentrated-liquidity/types"
	gammtypes "github.com/osmosis-labs/osmosis/v31/x/gamm/types"
	incentivestypes "github.com/osmosis-labs/osmosis/v31/x/incentives/types"
	lockuptypes "github.com/osmosis-labs/osmosis/v31/x/lockup/types"
	pmtypes "github.com/osmosis-labs/osmosis/v31/x/poolmanager/types"
	sftypes "github.com/osmosis-labs/osmosis/v31/x/superfluid/types"
	valsettypes "github.com/osmosis-labs/osmosis/v31/x/valset-pref/types"

	"verif/harness/drv"
)

func defaultCfg() Config {
	return Config{TakerFee: "0.001", OsmoSplit: [3]string{"0.5", "0.3", "0.2"}, NonOsmoSplit: [3]string{"0.67", "0.33", "0"}, MintEpoch: "day", DistrEpoch: "day", Uptimes: 1}
}

func stdFee() sdk.Coins { return sdk.NewCoins(coin(Bond, 300_000)) }

// mustTx signs and executes one tx of actor a in its own block and requires success.
func mustTx(t *testing.T, n *Node, dt time.Duration, a int, msg sdk.Msg) {
	t.Helper()
	tx, err := n.SignTx(a, 0, 6_000_000, stdFee(), msg)
	if err != nil {
		t.Fatal(err)
	}
	br, err := n.RunBlock(dt, [][]byte{tx}, n.Votes())
	if err != nil {
		t.Fatal(err)
	}
	if r := DecodeTxResult(br.Tx[0]); r.Code != 0 {
		t.Fatalf("%T rejected: %s", msg, r.Log)
	}
}

func exportImport(t *testing.T, n *Node) *Node {
	t.Helper()
	raw, _, err := n.Export()
	if err != nil {
		t.Fatal(err)
	}
	imp, err := NewNodeFromExport(raw, n.Height, n.Time)
	if err != nil {
		t.Fatal(err)
	}
	return imp
}

// TestKnown_C19_valsetpref_no_genesis: x/valset-pref exports nothing, so a preference set before the export is gone on
// the imported node.
func TestKnown_C19_valsetpref_no_genesis(t *testing.T) {
	n := NewNode(Bootstrap(defaultCfg()))
	defer n.Close()
	vals := n.view().vals
	mustTx(t, n, 5*time.Second, 0, valsettypes.NewMsgSetValidatorSetPreference(Actor(0), []valsettypes.ValidatorPreference{{ValOperAddress: vals[0], Weight: osmomath.OneDec()}}))
	if _, found := n.App.ValidatorSetPreferenceKeeper.GetValidatorSetPreference(n.ReadCtx(), Actor(0).String()); !found {
		t.Fatal("preference not set on the source node")
	}
	imp := exportImport(t, n)
	defer imp.Close()
	if _, err := imp.RunBlock(5*time.Second, nil, nil); err != nil {
		t.Fatal(err)
	}
	_, found := imp.App.ValidatorSetPreferenceKeeper.GetValidatorSetPreference(imp.ReadCtx(), Actor(0).String())
	if !found {
		drv.Reproduced(t, "C19-valsetpref-no-genesis")
		if !drv.Known("C19-valsetpref-no-genesis") {
			t.Fatalf("validator-set preference of %s lost by export/import", Actor(0))
		}
		return
	}
	t.Log("preference survived export/import: finding no longer reproduces")
}

// TestKnown_C19_twap_genesis_recovered_record: a CL pool and its first position created within one block leave a twap
// record with last_error_time == time and two positive prices; twap genesis validation rejects it, so the exported
// state cannot be imported.
func TestKnown_C19_twap_genesis_recovered_record(t *testing.T) {
	n := NewNode(Bootstrap(defaultCfg()))
	defer n.Close()
	next := n.App.PoolManagerKeeper.GetNextPoolId(n.ReadCtx())
	pool := clmodel.NewMsgCreateConcentratedPool(Actor(0), "uion", "usdc", 100, dec("0.002"))
	tx0, err := n.SignTx(0, 0, 6_000_000, stdFee(), &pool)
	if err != nil {
		t.Fatal(err)
	}
	tx1, err := n.SignTx(1, 0, 6_000_000, stdFee(), &cltypes.MsgCreatePosition{PoolId: next, Sender: Actor(1).String(), LowerTick: -100000, UpperTick: 100000,
		TokensProvided: sdk.NewCoins(coin("uion", 1_000_000), coin("usdc", 1_000_000)), TokenMinAmount0: osmomath.ZeroInt(), TokenMinAmount1: osmomath.ZeroInt()})
	if err != nil {
		t.Fatal(err)
	}
	br, err := n.RunBlock(5*time.Second, [][]byte{tx0, tx1}, n.Votes())
	if err != nil {
		t.Fatal(err)
	}
	for i, b := range br.Tx {
		if r := DecodeTxResult(b); r.Code != 0 {
			t.Fatalf("tx %d rejected: %s", i, r.Log)
		}
	}
	raw, _, err := n.Export()
	if err != nil {
		t.Fatal(err)
	}
	var ierr error
	func() {
		defer func() {
			if rec := recover(); rec != nil {
				ierr = fmt.Errorf("%v", rec)
			}
		}()
		var imp *Node
		imp, ierr = NewNodeFromExport(raw, n.Height, n.Time)
		if imp != nil {
			imp.Close()
		}
	}()
	if ierr != nil && knownImportFailureText(ierr.Error()) {
		drv.Reproduced(t, "C19-twap-genesis-recovered-record")
		if !drv.Known("C19-twap-genesis-recovered-record") {
			t.Fatalf("exported state cannot be imported: %v", ierr)
		}
		return
	}
	if ierr != nil {
		t.Fatalf("unexpected import failure: %v", ierr)
	}
	t.Log("import succeeded: finding no longer reproduces")
}

func knownImportFailureText(msg string) bool {
	return strings.Contains(msg, "one of twap record p0 and p1 last spot price must be zero due to having an error")
}

// TestKnown_C19_bank_supply_offset_not_exported: the supply offsets kept by the bank module (the mint module books
// -225e12 of the mint denom for the unvested developer allocation at genesis; superfluid staking moves them too) are
// not part of the bank genesis, so the imported node reports a different supply.
func TestKnown_C19_bank_supply_offset_not_exported(t *testing.T) {
	n := NewNode(Bootstrap(defaultCfg()))
	defer n.Close()
	imp := exportImport(t, n)
	defer imp.Close()
	if _, err := n.RunBlock(5*time.Second, nil, nil); err != nil {
		t.Fatal(err)
	}
	if _, err := imp.RunBlock(5*time.Second, nil, nil); err != nil {
		t.Fatal(err)
	}
	a := n.App.BankKeeper.GetSupplyWithOffset(n.ReadCtx(), Bond)
	b := imp.App.BankKeeper.GetSupplyWithOffset(imp.ReadCtx(), Bond)
	if !a.Equal(b) {
		drv.Reproduced(t, "C19-bank-supply-offset-not-exported")
		if !drv.Known("C19-bank-supply-offset-not-exported") {
			t.Fatalf("supply with offset: source %s, imported %s", a, b)
		}
		return
	}
	t.Log("supply offsets survived export/import: finding no longer reproduces")
}

// TestKnown_C19_protorev_state_not_exported: the pool chosen per (base denom, denom) pair at each epoch and the trade
// statistics are not exported; InitGenesis recomputes the pair pools from the pools loaded so far (gamm only, at their
// current liquidity), so until its next epoch the imported node has no pool for a pair served by a concentrated pool.
func TestKnown_C19_protorev_state_not_exported(t *testing.T) {
	n := NewNode(Bootstrap(defaultCfg()))
	defer n.Close()
	if _, err := n.RunBlock(24*time.Hour+time.Second, nil, n.Votes()); err != nil {
		t.Fatal(err)
	}
	if _, err := n.RunBlock(24*time.Hour+time.Second, nil, n.Votes()); err != nil {
		t.Fatal(err)
	}
	// the only pool with usdc is the concentrated pool of the bootstrap
	src, err := n.App.ProtoRevKeeper.GetPoolForDenomPair(n.ReadCtx(), "uosmo", "usdc")
	if err != nil {
		t.Fatalf("source has no pool for uosmo/usdc after two epochs: %v", err)
	}
	imp := exportImport(t, n)
	defer imp.Close()
	if _, err := imp.RunBlock(5*time.Second, nil, nil); err != nil {
		t.Fatal(err)
	}
	got, err := imp.App.ProtoRevKeeper.GetPoolForDenomPair(imp.ReadCtx(), "uosmo", "usdc")
	if err != nil || got != src {
		drv.Reproduced(t, "C19-protorev-state-not-exported")
		if !drv.Known("C19-protorev-state-not-exported") {
			t.Fatalf("pool for uosmo/usdc: source %d, imported %d (%v)", src, got, err)
		}
		return
	}
	t.Log("protorev pair pools survived export/import: finding no longer reproduces")
}

// TestKnown_C19_incentives_gauge_activation: a gauge whose start time has passed stays "upcoming" on a running node until
// the next end of the distribution epoch moves it to the active list; InitGenesis classifies the same gauge by the clock
// alone, so a node initialised from an export taken inside that window reports it as active (ActiveGauges / UpcomingGauges
// queries and the order of its own export differ from the source node).
func TestKnown_C19_incentives_gauge_activation(t *testing.T) {
	n := NewNode(Bootstrap(defaultCfg()))
	defer n.Close()
	start := n.Time.Add(time.Hour)
	mustTx(t, n, 5*time.Second, 0, incentivestypes.NewMsgCreateGauge(false, Actor(0), lockuptypes.QueryCondition{LockQueryType: lockuptypes.ByDuration, Denom: "foo", Duration: time.Second},
		sdk.NewCoins(coin("uosmo", 1_000_000)), start, 2, 0))
	// two hours later: the start time has passed, no day epoch has ended
	if _, err := n.RunBlock(2*time.Hour, nil, n.Votes()); err != nil {
		t.Fatal(err)
	}
	imp := exportImport(t, n)
	defer imp.Close()
	ids := func(x *Node) (up, act []uint64) {
		for _, g := range x.App.IncentivesKeeper.GetUpcomingGauges(x.ReadCtx()) {
			up = append(up, g.Id)
		}
		for _, g := range x.App.IncentivesKeeper.GetActiveGauges(x.ReadCtx()) {
			act = append(act, g.Id)
		}
		return
	}
	if _, err := imp.RunBlock(5*time.Second, nil, nil); err != nil {
		t.Fatal(err)
	}
	if _, err := n.RunBlock(5*time.Second, nil, n.Votes()); err != nil {
		t.Fatal(err)
	}
	ua, aa := ids(n)
	ub, ab := ids(imp)
	if fmt.Sprint(ua, aa) != fmt.Sprint(ub, ab) {
		drv.Reproduced(t, "C19-incentives-gauge-activation-not-exported")
		if !drv.Known("C19-incentives-gauge-activation-not-exported") {
			t.Fatalf("source node: upcoming %v active %v; node initialised from its export: upcoming %v active %v", ua, aa, ub, ab)
		}
		return
	}
	t.Log("gauge classification survived export/import: finding no longer reproduces")
}

// TestKnown_C19_superfluid_invariant_exact: the superfluid module invariant demands that the sum over locks of the
// truncated OSMO value of each lock EQUALS the staked total of the intermediary accounts, which stake the truncated value
// of the SUM of their locks (and drift by a unit per top-up between refreshes, as the module documents). With two locks
// through one intermediary account the two sides differ by a unit for most amounts; InitChain asserts all invariants, so
// such a (perfectly healthy) state cannot be imported from its export.
func TestKnown_C19_superfluid_invariant_exact(t *testing.T) {
	n := NewNode(Bootstrap(defaultCfg()))
	defer n.Close()
	// the multipliers are set at the first epoch
	if _, err := n.RunBlock(24*time.Hour+time.Second, nil, n.Votes()); err != nil {
		t.Fatal(err)
	}
	// actor 1 and 2 need shares of the superfluid pool (pool 2)
	share := gammtypes.GetPoolShareDenom(2)
	for a := 1; a <= 3; a++ {
		mustTx(t, n, 5*time.Second, a, &gammtypes.MsgJoinPool{Sender: Actor(a).String(), PoolId: 2, ShareOutAmount: osmomath.NewIntWithDecimal(1, 18), TokenInMaxs: sdk.NewCoins(coin(Bond, 1_000_000_000_000), coin("uosmo", 1_000_000_000_000))})
	}
	va, _ := sdk.ValAddressFromBech32(n.view().vals[0])
	for i, amt := range []int64{333_333_333_333_333, 777_777_777_777_777, 123_456_789_012_345} {
		mustTx(t, n, 5*time.Second, 1+i, sftypes.NewMsgLockAndSuperfluidDelegate(Actor(1+i), sdk.NewCoins(sdk.NewCoin(share, osmomath.NewInt(amt))), va))
	}
	// each delegation staked the truncated value of its own lock; the epoch refresh re-stakes the truncated value of the sum
	for day := 0; day < 3; day++ {
		if _, err := n.RunBlock(24*time.Hour+time.Second, nil, n.Votes()); err != nil {
			t.Fatal(err)
		}
		raw, _, err := n.Export()
		if err != nil {
			t.Fatal(err)
		}
		var ierr error
		func() {
			defer func() {
				if r := recover(); r != nil {
					ierr = fmt.Errorf("%v", r)
				}
			}()
			var imp *Node
			imp, ierr = NewNodeFromExport(raw, n.Height, n.Time)
			if imp != nil {
				imp.Close()
			}
		}()
		if ierr != nil && strings.Contains(ierr.Error(), "total superfluid intermediary account delegation amount does not match") {
			drv.Reproduced(t, "C19-superfluid-invariant-exact")
			if !drv.Known("C19-superfluid-invariant-exact") {
				t.Fatalf("a state with three superfluid-delegated locks cannot be imported from its export after an epoch refresh: %v", ierr)
			}
			return
		}
		if ierr != nil {
			t.Fatalf("import failed for another reason: %v", ierr)
		}
		// move the price a little so that the next refresh re-stakes
		mustTx(t, n, 5*time.Second, 1, &pmtypes.MsgSwapExactAmountIn{Sender: Actor(1).String(), Routes: []pmtypes.SwapAmountInRoute{{PoolId: 2, TokenOutDenom: "uosmo"}}, TokenIn: coin(Bond, 1_234_567), TokenOutMinAmount: osmomath.OneInt()})
	}
	t.Log("all exports imported: finding no longer reproduces")
}

// TestKnown_C19_staking_unbonding_id_not_exported: the staking module (cosmos-sdk fork, outside the repository) numbers
// unbonding operations with a counter that its genesis does not carry; a node initialised from an export restarts the
// counter, so an undelegation after the import gets an id an older entry already has.
func TestKnown_C19_staking_unbonding_id_not_exported(t *testing.T) {
	n := NewNode(Bootstrap(defaultCfg()))
	defer n.Close()
	val := n.view().vals[0]
	mustTx(t, n, 5*time.Second, 1, &stakingtypes.MsgDelegate{DelegatorAddress: Actor(1).String(), ValidatorAddress: val, Amount: coin(Bond, 1_000_000)})
	mustTx(t, n, 5*time.Second, 1, &stakingtypes.MsgUndelegate{DelegatorAddress: Actor(1).String(), ValidatorAddress: val, Amount: coin(Bond, 1000)})
	imp := exportImport(t, n)
	defer imp.Close()
	if _, err := imp.RunBlock(5*time.Second, nil, nil); err != nil {
		t.Fatal(err)
	}
	if _, err := n.RunBlock(5*time.Second, nil, n.Votes()); err != nil {
		t.Fatal(err)
	}
	tx := func(x *Node) {
		b, err := x.SignTx(1, 0, 6_000_000, stdFee(), &stakingtypes.MsgUndelegate{DelegatorAddress: Actor(1).String(), ValidatorAddress: val, Amount: coin(Bond, 2000)})
		if err != nil {
			t.Fatal(err)
		}
		var votes []abci.VoteInfo
		if x == n {
			votes = n.Votes()
		}
		br, err := x.RunBlock(5*time.Second, [][]byte{b}, votes)
		if err != nil {
			t.Fatal(err)
		}
		if r := DecodeTxResult(br.Tx[0]); r.Code != 0 {
			t.Fatalf("undelegate rejected: %s", r.Log)
		}
	}
	tx(n)
	tx(imp)
	_, pa, _ := n.Export()
	_, pb, err := imp.Export()
	if err != nil {
		t.Fatal(err)
	}
	if !bytes.Equal(pa["staking"], pb["staking"]) {
		drv.Reproduced(t, "C19-staking-unbonding-id-not-exported")
		if !drv.Known("C19-staking-unbonding-id-not-exported") {
			t.Fatalf("staking state differs on the imported node after one more undelegation\n%s", diffStr(string(pa["staking"]), string(pb["staking"])))
		}
		return
	}
	t.Log("staking exports agree: finding no longer reproduces")
}

// TestKnown_C19_poolmanager_taker_fee_share_not_exported: the governance-set taker-fee share agreements, the registered
// alloyed pools and the amounts skimmed so far are absent from the poolmanager genesis, so the imported node pays no
// share at the next epoch end.
func TestKnown_C19_poolmanager_taker_fee_share_not_exported(t *testing.T) {
	cfg := defaultCfg()
	cfg.Alloyed = true
	n := NewNode(Bootstrap(cfg))
	defer n.Close()
	src, err := n.App.PoolManagerKeeper.GetAllTakerFeesShareAgreements(n.ReadCtx())
	if err != nil || len(src) != 2 {
		t.Fatalf("source has %d agreements (%v), bootstrap sets 2", len(src), err)
	}
	imp := exportImport(t, n)
	defer imp.Close()
	if _, err := imp.RunBlock(5*time.Second, nil, nil); err != nil {
		t.Fatal(err)
	}
	got, err := imp.App.PoolManagerKeeper.GetAllTakerFeesShareAgreements(imp.ReadCtx())
	pools, _ := imp.App.PoolManagerKeeper.GetAllRegisteredAlloyedPools(imp.ReadCtx())
	if err != nil || len(got) != len(src) || len(pools) != 1 {
		drv.Reproduced(t, "C19-poolmanager-taker-fee-share-not-exported")
		if !drv.Known("C19-poolmanager-taker-fee-share-not-exported") {
			t.Fatalf("taker-fee share agreements: source %v, imported %v; registered alloyed pools on the imported node: %d", src, got, len(pools))
		}
		return
	}
	t.Log("taker-fee share state survived export/import: finding no longer reproduces")
}

// TestKnown_C19_cl_full_range_liquidity_recomputed: the per-pool "full range liquidity" total (read by the superfluid
// valuation of concentrated shares) is not in the genesis; a running node ADDS the position's new total liquidity to it at
// every position write (creation, partial withdrawal, transfer) and never subtracts, InitGenesis rebuilds it as the sum of
// the live full-range positions.
func TestKnown_C19_cl_full_range_liquidity_recomputed(t *testing.T) {
	n := NewNode(Bootstrap(defaultCfg()))
	defer n.Close()
	lo, hi := (cltypes.MinInitializedTick/100)*100, (cltypes.MaxTick/100)*100
	mustTx(t, n, 5*time.Second, 1, &cltypes.MsgCreatePosition{PoolId: 3, Sender: Actor(1).String(), LowerTick: lo, UpperTick: hi,
		TokensProvided: sdk.NewCoins(coin("uosmo", 1_000_000), coin("usdc", 1_000_000)), TokenMinAmount0: osmomath.ZeroInt(), TokenMinAmount1: osmomath.ZeroInt()})
	ps, err := n.App.ConcentratedLiquidityKeeper.GetUserPositions(n.ReadCtx(), Actor(1), 3)
	if err != nil || len(ps) == 0 {
		t.Fatalf("harness: no position (%v)", err)
	}
	pos := ps[len(ps)-1]
	mustTx(t, n, 5*time.Second, 1, &cltypes.MsgWithdrawPosition{PositionId: pos.PositionId, Sender: Actor(1).String(), LiquidityAmount: pos.Liquidity.QuoInt64(4)})
	src, err := n.App.ConcentratedLiquidityKeeper.GetFullRangeLiquidityInPool(n.ReadCtx(), 3)
	if err != nil {
		t.Fatalf("harness: %v", err)
	}
	imp := exportImport(t, n)
	defer imp.Close()
	if _, err := imp.RunBlock(5*time.Second, nil, nil); err != nil {
		t.Fatal(err)
	}
	got, err := imp.App.ConcentratedLiquidityKeeper.GetFullRangeLiquidityInPool(imp.ReadCtx(), 3)
	if err != nil || !got.Equal(src) {
		drv.Reproduced(t, "C19-cl-full-range-liquidity-recomputed")
		if !drv.Known("C19-cl-full-range-liquidity-recomputed") {
			t.Fatalf("full-range liquidity of pool 3: source %s, imported %s (%v)", src, got, err)
		}
		return
	}
	t.Log("full-range liquidity total survived export/import: finding no longer reproduces")
}
