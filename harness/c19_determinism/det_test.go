package c19

import (
	"bytes"
	"crypto/sha256"
	"encoding/hex"
	"encoding/json"
	"fmt"
	"os"
	"regexp"
	"sort"
	"strconv"
	"strings"
	"testing"
	"time"

	"pgregory.net/rapid"

	"verif/harness/drv"
)

func TestMain(m *testing.M) { drv.Main(m) }

const rule = "a generated chain configuration (taker-fee rate and distribution splits incl. burn, mint/incentive epoch identifiers, denom creation fee, community-pool swap denom, CL uptimes) and a generated history of 4..24 blocks on the real application through ABCI (InitChain at height 110 on a fixed-key genesis + deterministic bootstrap - in one configuration of three followed by set-up blocks that leave a full-range CL position created locked and superfluid-delegated whose lock is unbonding, so that histories reach positions linked to matured and swept locks -, FinalizeBlock with signed transactions of 5 accounts and a full commit of the bonded validators, Commit); block intervals of seconds, an hour, a day, a week or up to 25 days so that hour/day/week epochs, unlock/unbonding maturity and gov voting ends occur; 41 message kinds of bank, gamm (balancer, stableswap), poolmanager (multi-hop exact-in/out, split routes), concentrated-liquidity, lockup, incentives, tokenfactory (incl. force transfers touching module accounts), staking, distribution, superfluid, valset-pref and gov, drawn with weights among the kinds feasible in the leader's committed state; fees in the base denom or in a whitelisted fee token. Oracle: every other fresh node fed the same blocks - a plain one, and a noisy one that before every block runs CheckTx and gas simulation of the block's transactions and of up to two generated transactions that are never included, then ProcessProposal, all on discarded state, and that is rebuilt from its database at a generated height (crash after a commit) - must return byte-identical ExecTxResults (code, data, log without panic stack traces, gas wanted/used, events), block events, validator updates and app hash for every block; a node initialised (InitChain, all module invariants asserted) from the state exported at a generated height and fed the remaining blocks must return the same tx results (metered gas excepted), block events and validator updates, and its per-module exported genesis and its answers to a fixed list of state queries must equal the source node's one block after the import and at the end of the history. Non-trivial = >= 3 successful transactions of >= 2 modules and at least one block interval >= 1h; distinct by hash of configuration and transaction kinds"

// Plan is a self-contained replayable history.
type Plan struct {
	Cfg      Config
	Blocks   []Block
	ExportAt int   // import node starts after this many blocks (0 = no export)
	Restarts []int // the noisy replica is rebuilt from its database before these block indices
}

func savePlan(p Plan, why string) string {
	bz, _ := json.Marshal(p)
	h := sha256.Sum256(bz)
	_ = h
	// one file per process: rapid re-runs the property while shrinking, the last write is the minimal history
	name := "replay-C19.json"
	_ = os.WriteFile(name, bz, 0o644)
	_ = os.WriteFile(name+".why", []byte(why), 0o644)
	return name
}

func describeTx(b []byte) string {
	r := DecodeTxResult(b)
	var ev []string
	for _, e := range r.Events {
		var as []string
		for _, a := range e.Attributes {
			as = append(as, a.Key+"="+a.Value)
		}
		ev = append(ev, e.Type+"{"+strings.Join(as, ",")+"}")
	}
	return fmt.Sprintf("code=%d codespace=%s gasWanted=%d gasUsed=%d log=%q data=%x events=%v", r.Code, r.Codespace, r.GasWanted, r.GasUsed, r.Log, r.Data, ev)
}

func diffStr(a, b string) string {
	i := 0
	for i < len(a) && i < len(b) && a[i] == b[i] {
		i++
	}
	lo := i - 200
	if lo < 0 {
		lo = 0
	}
	hiA, hiB := i+300, i+300
	if hiA > len(a) {
		hiA = len(a)
	}
	if hiB > len(b) {
		hiB = len(b)
	}
	return fmt.Sprintf("first difference at byte %d:\n  A: ...%s\n  B: ...%s", i, a[lo:hiA], b[lo:hiB])
}

// compareBlock returns "" if the two nodes are indistinguishable on this block.
// stripGas removes the metered gas from a tx result: for a node initialised from an export only code, codespace,
// data, log and events are compared (the byte-level encoding of unchanged state, e.g. JSON null vs [] for empty
// parameter lists, legitimately differs after an import and gas is metered per byte).
func stripGas(b []byte) []byte {
	r := DecodeTxResult(b)
	r.GasUsed, r.GasWanted = 0, 0
	out, _ := r.Marshal()
	return out
}

// stripStack removes the Go stack trace that baseapp's recovery middleware appends to the log of a transaction
// whose handler panicked (it contains goroutine ids and pointer values; the log is not part of consensus).
func stripStack(b []byte) []byte {
	if !bytes.Contains(b, []byte("stack:")) {
		return b
	}
	r := DecodeTxResult(b)
	if i := strings.Index(r.Log, "stack:"); i >= 0 && r.Code != 0 {
		r.Log = r.Log[:i]
	}
	out, _ := r.Marshal()
	return out
}

func compareBlock(bi int, blk Block, a, b BlockResult, withHash bool) string {
	if len(a.Tx) != len(b.Tx) {
		return fmt.Sprintf("block %d: %d vs %d tx results", bi, len(a.Tx), len(b.Tx))
	}
	for i := range a.Tx {
		ta, tb := stripStack(a.Tx[i]), stripStack(b.Tx[i])
		if !withHash {
			ta, tb = stripGas(ta), stripGas(tb)
		}
		if !bytes.Equal(ta, tb) {
			return fmt.Sprintf("block %d tx %d (%s): results differ\n%s", bi, i, blk.Kinds[i], diffStr(describeTx(a.Tx[i]), describeTx(b.Tx[i])))
		}
	}
	if !bytes.Equal(a.Events, b.Events) {
		for i := 0; i < len(a.EventStrs) || i < len(b.EventStrs); i++ {
			ea, eb := "<none>", "<none>"
			if i < len(a.EventStrs) {
				ea = a.EventStrs[i]
			}
			if i < len(b.EventStrs) {
				eb = b.EventStrs[i]
			}
			if ea != eb {
				prev := ""
				if i > 0 {
					prev = a.EventStrs[i-1]
				}
				return fmt.Sprintf("block %d: begin/end-block event %d differs (%d vs %d events)\n  after: %s\n  A: %s\n  B: %s", bi, i, len(a.EventStrs), len(b.EventStrs), prev, ea, eb)
			}
		}
		return fmt.Sprintf("block %d: begin/end-block events differ in encoding only", bi)
	}
	if !bytes.Equal(a.Updates, b.Updates) {
		return fmt.Sprintf("block %d: validator updates differ", bi)
	}
	if withHash && !bytes.Equal(a.AppHash, b.AppHash) {
		return fmt.Sprintf("block %d: app hash %x vs %x", bi, a.AppHash, b.AppHash)
	}
	return ""
}

func compareExports(stage string, a, b *Node, masked *[]string) string {
	_, pa, err := a.Export()
	if err != nil {
		return fmt.Sprintf("%s: export of the source node failed: %v", stage, err)
	}
	_, pb, err := b.Export()
	if err != nil {
		return fmt.Sprintf("%s: export of the imported node failed: %v", stage, err)
	}
	ra, rb := a.Reports(), b.Reports()
	for i := range ra {
		if ra[i] != rb[i] {
			return fmt.Sprintf("%s: the node initialised from the export answers a state query differently\n  source  : %s\n  imported: %s", stage, ra[i], rb[i])
		}
	}
	var mods []string
	for k := range pa {
		mods = append(mods, k)
	}
	sort.Strings(mods)
	for _, k := range mods {
		if !bytes.Equal(pa[k], pb[k]) {
			na, id := normalizeExport(k, pa[k])
			nb, _ := normalizeExport(k, pb[k])
			if id == "" || !bytes.Equal(na, nb) {
				return fmt.Sprintf("%s: module %q reports different state on the node initialised from the export\n%s", stage, k, diffStr(string(pa[k]), string(pb[k])))
			}
			*masked = append(*masked, id)
		}
	}
	return ""
}

// normalizeExport masks what listed known findings explain (only while they are listed) and names the finding.
// incentives: a gauge whose start time has passed but which no epoch end has activated yet is "upcoming" on the source
// node and "active" on the imported one (C19-incentives-gauge-activation-not-exported); the export lists upcoming gauges
// before active ones, so only the ORDER of the gauge list can differ - it is compared as a set ordered by id.
func normalizeExport(module string, bz []byte) ([]byte, string) {
	if module == "incentives" && drv.Known("C19-incentives-gauge-activation-not-exported") {
		var m map[string]json.RawMessage
		if json.Unmarshal(bz, &m) != nil {
			return bz, ""
		}
		var gs []map[string]any
		if json.Unmarshal(m["gauges"], &gs) != nil {
			return bz, ""
		}
		sort.SliceStable(gs, func(i, j int) bool {
			a, _ := strconv.ParseUint(fmt.Sprint(gs[i]["id"]), 10, 64)
			b, _ := strconv.ParseUint(fmt.Sprint(gs[j]["id"]), 10, 64)
			return a < b
		})
		g, _ := json.Marshal(gs)
		m["gauges"] = g
		out, _ := json.Marshal(m)
		return out, "C19-incentives-gauge-activation-not-exported"
	}
	if module == "staking" && drv.Known("C19-staking-unbonding-id-not-exported") {
		// the unbonding-operation counter is not part of the staking genesis (cosmos-sdk fork): ids assigned after an
		// import restart at 1; the ids are masked, everything else in the staking state is still compared
		return unbondingIDRe.ReplaceAll(bz, []byte(`"unbonding_id":"*"`)), "C19-staking-unbonding-id-not-exported"
	}
	return bz, ""
}

var unbondingIDRe = regexp.MustCompile(`"unbonding_id":"[0-9]+"`)

// knownImportFailure maps an InitChain failure to a listed known finding (by its exact message), or "".
func knownImportFailure(msg string) string {
	if strings.Contains(msg, "one of twap record p0 and p1 last spot price must be zero due to having an error") && drv.Known("C19-twap-genesis-recovered-record") {
		return "C19-twap-genesis-recovered-record"
	}
	if strings.Contains(msg, "total superfluid intermediary account delegation amount does not match total sum of lockup delegations") && drv.Known("C19-superfluid-invariant-exact") {
		return "C19-superfluid-invariant-exact"
	}
	return ""
}

type outcome struct {
	restarted      bool
	importExcluded string
	grafted        []string
	masked         []string // known findings that explained a difference between the exports of source and imported node
	msg            string   // "" = held
	okTx           int
	modules        map[string]bool
	longGap        bool
	failedTx       int
	imported       bool
	importErr      string
	epochsSeen     int
}

// replicate runs the plan on `replicas` further nodes (the first of them also feeds an import node) and compares with want.
func replicate(p Plan, want []BlockResult, replicas int) (out outcome) {
	for r := 0; r < replicas; r++ {
		n := NewNode(Bootstrap(p.Cfg))
		var imp *Node
		func() {
			defer n.Close()
			defer func() {
				if imp != nil {
					imp.Close()
				}
			}()
			// odd replicas are "noisy": mempool admission, gas simulation (incl. transactions that never make it
			// into a block) and proposal validation run on discarded state before every block, and the application
			// is rebuilt from its database once
			noisy := r%2 == 1
			for bi, blk := range p.Blocks {
				if noisy {
					for _, ri := range p.Restarts {
						if ri == bi {
							n.Restart()
							out.restarted = true
						}
					}
					n.Noise(blk.Dt, blk.Txs, blk.Ghosts)
				}
				got, err := n.RunBlock(blk.Dt, blk.Txs, blk.Votes)
				if err != nil {
					out.msg = fmt.Sprintf("replica %d: %v", r+1, err)
					return
				}
				if d := compareBlock(bi, blk, want[bi], got, true); d != "" {
					out.msg = fmt.Sprintf("replica %d diverged from the leader although both executed the same blocks: %s", r+1, d)
					return
				}
				if imp != nil {
					gi, err := imp.RunBlock(blk.Dt, blk.Txs, blk.Votes)
					if err != nil {
						out.msg = fmt.Sprintf("node initialised from the export at height %d: %v", p.ExportAt, err)
						return
					}
					if d := compareBlock(bi, blk, got, gi, false); d != "" {
						if os.Getenv("VERIF_DEBUG_DUMP") != "" {
							for i, e := range got.EventStrs {
								fmt.Println("SRC", i, e)
							}
							for i, e := range gi.EventStrs {
								fmt.Println("IMP", i, e)
							}
						}
						out.msg = fmt.Sprintf("node initialised from the export at height %d diverged from its source: %s", p.ExportAt, d)
						return
					}
					if bi == p.ExportAt || bi == len(p.Blocks)-1 {
						if d := compareExports(fmt.Sprintf("after block %d (export at %d)", bi, p.ExportAt), n, imp, &out.masked); d != "" {
							out.msg = d
							return
						}
					}
				}
				if r == 0 && p.ExportAt > 0 && bi == p.ExportAt-1 {
					raw, _, err := n.Export()
					if err != nil {
						out.msg = fmt.Sprintf("export at height %d failed: %v", n.Height, err)
						return
					}
					var ierr error
					func() {
						defer func() {
							if rec := recover(); rec != nil {
								ierr = fmt.Errorf("InitChain panicked: %v", rec)
							}
						}()
						imp, ierr = NewNodeFromExport(raw, n.Height, n.Time)
					}()
					if ierr != nil {
						if id := knownImportFailure(ierr.Error()); id != "" {
							out.importExcluded = id
							imp = nil
							continue
						}
						out.msg = fmt.Sprintf("the state exported at height %d cannot be imported: %v", n.Height, ierr)
						return
					}
					out.imported = true
					out.grafted = ApplyGrafts(n, imp)
				}
			}
		}()
		if out.msg != "" {
			return
		}
	}
	return
}

func moduleOf(kind string) string {
	k := kind[strings.Index(kind, ":")+1:]
	switch {
	case strings.HasPrefix(k, "cl"):
		return "cl"
	case strings.HasPrefix(k, "tf"):
		return "tokenfactory"
	case strings.HasPrefix(k, "sf"):
		return "superfluid"
	case strings.HasPrefix(k, "valset"):
		return "valset"
	case strings.HasPrefix(k, "gov"):
		return "gov"
	case strings.Contains(k, "wap"):
		return "poolmanager"
	case strings.Contains(k, "ock"):
		return "lockup"
	case strings.Contains(k, "auge"):
		return "incentives"
	case k == "bankSend":
		return "bank"
	case k == "delegate" || k == "undelegate" || k == "withdrawReward" || k == "createValidator":
		return "staking"
	}
	return "gamm"
}

func runCase(rt *rapid.T, c *drv.Case) {
	cfg := GenConfig(rt)
	leader := NewNode(Bootstrap(cfg))
	defer leader.Close()
	nb := rapid.IntRange(4, 24).Draw(rt, "blocks")
	p := Plan{Cfg: cfg}
	var want []BlockResult
	okTx, failTx := 0, 0
	mods := map[string]bool{}
	long := false
	reorderedAt, staleLinkAt := 0, 0
	skimmed := false
	var kinds []string
	var okKinds []string
	for i := 0; i < nb; i++ {
		blk := GenBlock(rt, leader)
		br, err := leader.RunBlock(blk.Dt, blk.Txs, blk.Votes)
		if err != nil {
			rt.Fatalf("leader: %v [plan %s]", err, savePlan(p, err.Error()))
		}
		p.Blocks = append(p.Blocks, blk)
		want = append(want, br)
		if blk.Dt >= time.Hour {
			long = true
		}
		// a position still linked to a lock that has matured and is gone: state the export has to carry as it is
		if staleLinkAt == 0 {
			lctx := leader.ReadCtx()
			for id := uint64(1); id < leader.App.ConcentratedLiquidityKeeper.GetNextPositionId(lctx); id++ {
				if lk, err := leader.App.ConcentratedLiquidityKeeper.GetLockIdFromPositionId(lctx, id); err == nil {
					// (matured: gone, or past its end time - matured locks are swept only every 120th block)
					if l, lerr := leader.App.LockupKeeper.GetLockByID(lctx, lk); lerr != nil || (l.IsUnlocking() && !l.EndTime.After(lctx.BlockTime())) {
						staleLinkAt = i + 1
						c.Class("position-linked-to-a-matured-lock")
						break
					}
				}
			}
		}
		// state whose stored order depends on the history (not on ids): a reference list of active gauges that a finished
		// gauge has left by swap-remove. An export taken after that point must reproduce the order, not just the set.
		if reorderedAt == 0 {
			last := uint64(0)
			for _, g := range leader.App.IncentivesKeeper.GetActiveGauges(leader.ReadCtx()) {
				if g.Id < last {
					reorderedAt = i + 1
					c.Class("gauge-reference-list-out-of-id-order")
					break
				}
				last = g.Id
			}
		}
		if cfg.Alloyed {
			if acc, _ := leader.App.PoolManagerKeeper.GetAllTakerFeeShareAccumulators(leader.ReadCtx()); len(acc) > 0 {
				if !skimmed {
					c.Class("taker-fee-share-skimmed")
				}
				skimmed = true
				if len(acc) >= 2 {
					c.Class("taker-fee-share-skimmed-for-2-denoms-in-one-epoch")
				}
			} else if skimmed {
				c.Class("taker-fee-share-paid-out-at-epoch-end")
				skimmed = false
			}
		}
		for j, tx := range br.Tx {
			r := DecodeTxResult(tx)
			kinds = append(kinds, blk.Kinds[j])
			if r.Code == 0 {
				okTx++
				mods[moduleOf(blk.Kinds[j])] = true
				okKinds = append(okKinds, blk.Kinds[j])
				c.Class("ok:" + blk.Kinds[j][strings.Index(blk.Kinds[j], ":")+1:])
			} else {
				if r.Code == 111222 {
					c.Class("tx-panicked")
				}
				failTx++
				c.Class("rejected:" + blk.Kinds[j][strings.Index(blk.Kinds[j], ":")+1:])
				if os.Getenv("VERIF_DEBUG") != "" {
					fmt.Printf("REJECT %s: %s\n", blk.Kinds[j], r.Log)
				}
			}
		}
	}
	if nb >= 2 && rapid.IntRange(0, 3).Draw(rt, "doExport") > 0 {
		p.ExportAt = rapid.IntRange(1, nb-1).Draw(rt, "exportAt")
		if reorderedAt > 0 && reorderedAt <= nb-1 && rapid.IntRange(0, 3).Draw(rt, "exportAfterReordering") > 0 {
			p.ExportAt = rapid.IntRange(reorderedAt, nb-1).Draw(rt, "exportAtAfterReordering")
			c.Class("export-after-gauge-list-reordering")
		}
		if staleLinkAt > 0 && staleLinkAt <= nb-1 && rapid.IntRange(0, 3).Draw(rt, "exportAfterLockMatured") > 0 {
			p.ExportAt = rapid.IntRange(staleLinkAt, nb-1).Draw(rt, "exportAtAfterLockMatured")
			c.Class("export-with-position-linked-to-a-matured-lock")
		}
	}
	if rapid.IntRange(0, 3).Draw(rt, "doRestart") > 0 {
		for bi := 1; bi < nb; bi++ {
			if rapid.IntRange(0, 3).Draw(rt, "restartHere") == 0 {
				p.Restarts = append(p.Restarts, bi)
			}
		}
	}
	// replica 1: plain + export/import; replica 2: noisy + restart; thorough adds one more of each
	replicas := 2
	if drv.Thorough() {
		replicas = 4
	}
	out := replicate(p, want, replicas)
	if out.msg != "" {
		file := savePlan(p, out.msg)
		rt.Fatalf("%s\n[config %+v; successful kinds %v; plan saved as %s]", out.msg, cfg, okKinds, file)
	}
	if out.importExcluded != "" {
		c.Exclude(out.importExcluded + " (import skipped)")
	}
	for _, id := range out.masked {
		c.Exclude(id + " (gauge list of the incentives export compared as a set)")
	}
	for _, id := range out.grafted {
		c.Exclude(id + " (state grafted from the source node after the import)")
	}
	if out.restarted {
		c.Class("restart")
	}
	if out.imported {
		c.Class("export-import")
	}
	if long {
		c.Class("epoch-gap")
	}
	if okTx >= 3 && len(mods) >= 2 && long {
		h := sha256.Sum256([]byte(fmt.Sprintf("%+v|%v", cfg, kinds)))
		c.NonTrivial(hex.EncodeToString(h[:8]))
		c.Samplef("cfg=%+v blocks=%d exportAt=%d ok=%d rejected=%d okKinds=%v", cfg, nb, p.ExportAt, okTx, failTx, okKinds)
	}
}

func TestPropDeterminism(t *testing.T) {
	drv.Check(t, drv.Cfg{Name: "determinism+export", Rule: rule, Quick: 60, Thorough: 700}, runCase)
}

// TestReplayPlan re-executes a saved plan (VERIF_REPLAY_FILE) on fresh nodes several times.
func TestReplayPlan(t *testing.T) {
	f := os.Getenv("VERIF_REPLAY_FILE")
	if f == "" {
		t.Skip("no VERIF_REPLAY_FILE")
	}
	bz, err := os.ReadFile(f)
	if err != nil {
		t.Fatal(err)
	}
	var p Plan
	if err := json.Unmarshal(bz, &p); err != nil {
		t.Fatal(err)
	}
	leader := NewNode(Bootstrap(p.Cfg))
	defer leader.Close()
	var want []BlockResult
	for i := range p.Blocks {
		p.Blocks[i].Votes = leader.Votes()
		blk := p.Blocks[i]
		br, err := leader.RunBlock(blk.Dt, blk.Txs, blk.Votes)
		if err != nil {
			t.Fatalf("leader: %v", err)
		}
		want = append(want, br)
	}
	if out := replicate(p, want, 6); out.msg != "" {
		t.Fatalf("%s", out.msg)
	}
}
