package c19

import (
	"encoding/json"
	"os"

	wasmtypes "github.com/CosmWasm/wasmd/x/wasm/types"
	govtypes "github.com/cosmos/cosmos-sdk/x/gov/types"

	"github.com/osmosis-labs/osmosis/osmoutils/cosmwasm"
	"github.com/osmosis-labs/osmosis/v31/app/apptesting"
	cwmsg "github.com/osmosis-labs/osmosis/v31/x/cosmwasmpool/cosmwasm/msg"
	"github.com/osmosis-labs/osmosis/v31/x/cosmwasmpool/cosmwasm/msg/transmuter"
	cwmodel "github.com/osmosis-labs/osmosis/v31/x/cosmwasmpool/model"
	cwpooltypes "github.com/osmosis-labs/osmosis/v31/x/cosmwasmpool/types"

	"context"
	"fmt"
	"sort"
	"strings"
	"time"

	abci "github.com/cometbft/cometbft/abci/types"
	cmtproto "github.com/cometbft/cometbft/proto/tendermint/types"
	"github.com/cosmos/cosmos-sdk/crypto/keys/ed25519"
	sdk "github.com/cosmos/cosmos-sdk/types"
	banktypes "github.com/cosmos/cosmos-sdk/x/bank/types"
	distrtypes "github.com/cosmos/cosmos-sdk/x/distribution/types"
	govv1 "github.com/cosmos/cosmos-sdk/x/gov/types/v1"
	stakingtypes "github.com/cosmos/cosmos-sdk/x/staking/types"
	"pgregory.net/rapid"

	"github.com/osmosis-labs/osmosis/osmomath"
	clmodel "github.com/osmosis-labs/osmosis/v31/x/concentrated-liquidity/model"
	cltypes "github.com/osmosis-labs/osmosis/v31/x/concentrated-liquidity/types"
	"github.com/osmosis-labs/osmosis/v31/x/gamm/pool-models/balancer"
	"github.com/osmosis-labs/osmosis/v31/x/gamm/pool-models/stableswap"
	gammtypes "github.com/osmosis-labs/osmosis/v31/x/gamm/types"
	incentivestypes "github.com/osmosis-labs/osmosis/v31/x/incentives/types"
	lockuptypes "github.com/osmosis-labs/osmosis/v31/x/lockup/types"
	pmtypes "github.com/osmosis-labs/osmosis/v31/x/poolmanager/types"
	sftypes "github.com/osmosis-labs/osmosis/v31/x/superfluid/types"
	tftypes "github.com/osmosis-labs/osmosis/v31/x/tokenfactory/types"
	txfeestypes "github.com/osmosis-labs/osmosis/v31/x/txfees/types"
	valsettypes "github.com/osmosis-labs/osmosis/v31/x/valset-pref/types"
)

// Config is the generated chain configuration (parameters a governance could have set).
type Config struct {
	TakerFee     string
	OsmoSplit    [3]string // staking, community pool, burn
	NonOsmoSplit [3]string
	MintEpoch    string
	// MintReductionPeriod > 0: the emission is multiplied by 2/3 every so many mint epochs (the default, 156 epochs, is
	// never reached in a generated history), so exports are also taken from chains whose provisions have been reduced
	MintReductionPeriod int
	DistrEpoch          string
	DenomFee            bool
	CommunityDenom      string
	Uptimes             int
	// BootGauges: number of paying epochs of three lock gauges created at genesis with one and the same start time (0 = not
	// created): gauges that share a start time share one reference list, whose order changes when one of them finishes
	BootGauges [3]int
	// Alloyed: a CosmWasm transmuter (v3, alloyed asset) pool over uion/usdc is created at genesis and registered for taker-fee
	// revenue sharing, with governance-set share agreements on both denoms: the pool manager keeps the agreements and the
	// alloyed composition in in-memory caches that a restarted or imported node rebuilds from the store
	Alloyed bool
	// LockedCL: the share of the bootstrap CL pool is a superfluid asset and the set-up blocks leave a full-range position
	// whose underlying lock has been undelegated and is unbonding: once it matures (three weeks of generated block
	// intervals) the position still carries the link to a lock that no longer binds it
	LockedCL bool
}

var splits = [][3]string{{"1", "0", "0"}, {"0.5", "0.3", "0.2"}, {"0.3", "0.3", "0.4"}, {"0", "0", "1"}, {"0.67", "0.33", "0"}, {"0.4", "0.4", "0.2"}}

func GenConfig(rt *rapid.T) Config {
	return Config{
		TakerFee:            rapid.SampledFrom([]string{"0", "0.001", "0.0025", "0.01"}).Draw(rt, "takerFee"),
		OsmoSplit:           rapid.SampledFrom(splits).Draw(rt, "osmoSplit"),
		NonOsmoSplit:        rapid.SampledFrom(splits).Draw(rt, "nonOsmoSplit"),
		MintEpoch:           rapid.SampledFrom([]string{"day", "week"}).Draw(rt, "mintEpoch"),
		MintReductionPeriod: rapid.SampledFrom([]int{0, 0, 1, 2, 3}).Draw(rt, "mintReductionPeriod"),
		DistrEpoch:          rapid.SampledFrom([]string{"day", "week"}).Draw(rt, "distrEpoch"),
		DenomFee:            rapid.Bool().Draw(rt, "denomFee"),
		CommunityDenom:      rapid.SampledFrom([]string{"", "usdc", "uosmo"}).Draw(rt, "communityDenom"),
		Uptimes:             rapid.IntRange(1, 3).Draw(rt, "uptimes"),
		Alloyed:             rapid.IntRange(0, 2).Draw(rt, "alloyedPool") == 0,
		LockedCL:            rapid.IntRange(0, 2).Draw(rt, "lockedCLPosition") == 0,
		BootGauges:          rapid.SampledFrom([][3]int{{0, 0, 0}, {1, 3, 3}, {3, 1, 3}, {1, 1, 3}, {2, 1, 2}, {1, 2, 3}, {3, 3, 3}}).Draw(rt, "bootGauges"),
	}
}

const (
	Bond = "stake"
)

var Denoms = []string{"stake", "uosmo", "uion", "usdc", "foo"}

func coin(d string, a int64) sdk.Coin { return sdk.NewInt64Coin(d, a) }

func dec(s string) osmomath.Dec { return osmomath.MustNewDecFromStr(s) }

// Bootstrap applies cfg and the faucet to the genesis block state. It is the same deterministic function on every node.
func Bootstrap(cfg Config) func(n *Node, ctx sdk.Context) {
	return func(n *Node, ctx sdk.Context) {
		a := n.App
		rich := sdk.NewCoins()
		for _, d := range Denoms {
			rich = rich.Add(sdk.NewCoin(d, osmomath.NewInt(1_000_000_000_000_000)))
		}
		for i := 0; i < NActors-1; i++ {
			n.Fund(ctx, Actor(i), rich)
		}
		// the last actor is poor: its larger operations fail late (e.g. a pool creation that cannot pay the creation fee
		// or the initial liquidity fails after the pool-created hooks have run and is rolled back)
		poor := sdk.NewCoins(coin(Bond, 1_000_000_000_000), coin("uosmo", 1_500_000_000))
		for _, d := range Denoms[2:] {
			poor = poor.Add(coin(d, 50_000_000))
		}
		n.Fund(ctx, Actor(NActors-1), poor)
		for _, e := range a.EpochsKeeper.AllEpochInfos(ctx) {
			e.StartTime = Base
			a.EpochsKeeper.DeleteEpochInfo(ctx, e.Identifier)
			if err := a.EpochsKeeper.AddEpochInfo(ctx, e); err != nil {
				panic(err)
			}
		}
		// "0" means "unset" for the protorev accounting start height; real chains carry a positive height
		a.ProtoRevKeeper.SetCyclicArbProfitTrackerStartHeight(ctx, 1)
		pm := a.PoolManagerKeeper.GetParams(ctx)
		pm.TakerFeeParams.DefaultTakerFee = dec(cfg.TakerFee)
		pm.TakerFeeParams.OsmoTakerFeeDistribution = pmtypes.TakerFeeDistributionPercentage{StakingRewards: dec(cfg.OsmoSplit[0]), CommunityPool: dec(cfg.OsmoSplit[1]), Burn: dec(cfg.OsmoSplit[2])}
		pm.TakerFeeParams.NonOsmoTakerFeeDistribution = pmtypes.TakerFeeDistributionPercentage{StakingRewards: dec(cfg.NonOsmoSplit[0]), CommunityPool: dec(cfg.NonOsmoSplit[1]), Burn: dec(cfg.NonOsmoSplit[2])}
		if cfg.CommunityDenom != "" {
			pm.TakerFeeParams.CommunityPoolDenomToSwapNonWhitelistedAssetsTo = cfg.CommunityDenom
		}
		pm.AuthorizedQuoteDenoms = append(pm.AuthorizedQuoteDenoms, "stake", "usdc", "uion")
		a.PoolManagerKeeper.SetParams(ctx, pm)
		cl := a.ConcentratedLiquidityKeeper.GetParams(ctx)
		cl.IsPermissionlessPoolCreationEnabled = true
		cl.AuthorizedUptimes = []time.Duration{time.Nanosecond, time.Minute, time.Hour}[:cfg.Uptimes]
		a.ConcentratedLiquidityKeeper.SetParams(ctx, cl)
		ip := a.IncentivesKeeper.GetParams(ctx)
		ip.DistrEpochIdentifier = cfg.DistrEpoch
		// the default test genesis carries an empty minimum-value coin, with which no lock is ever paid (every reward denom
		// "differs" from the empty denom and has no route to it): use the mainnet shape so that gauges do pay
		ip.MinValueForDistribution = sdk.NewCoin("uosmo", osmomath.NewInt(10_000))
		a.IncentivesKeeper.SetParams(ctx, ip)
		mp := a.MintKeeper.GetParams(ctx)
		mp.EpochIdentifier = cfg.MintEpoch
		if cfg.MintReductionPeriod > 0 {
			mp.ReductionPeriodInEpochs = int64(cfg.MintReductionPeriod)
			mp.ReductionFactor = osmomath.MustNewDecFromStr("0.666666666666666666")
		}
		a.MintKeeper.SetParams(ctx, mp)
		if cfg.DenomFee {
			tp := a.TokenFactoryKeeper.GetParams(ctx)
			tp.DenomCreationFee = sdk.NewCoins(coin("uosmo", 1000))
			a.TokenFactoryKeeper.SetParams(ctx, tp)
		}
		sp, _ := a.StakingKeeper.GetParams(ctx)
		a.IncentivesKeeper.SetLockableDurations(ctx, append(a.IncentivesKeeper.GetLockableDurations(ctx), sp.UnbondingTime))
		// two pools created by actor 0: stake/uion (fee-token route) and stake/uosmo (superfluid asset)
		mk := func(d string) uint64 {
			msg := balancer.NewMsgCreateBalancerPool(Actor(0), balancer.PoolParams{SwapFee: osmomath.NewDecWithPrec(2, 3), ExitFee: osmomath.ZeroDec()},
				[]balancer.PoolAsset{{Weight: osmomath.NewInt(100), Token: coin(Bond, 50_000_000_000)}, {Weight: osmomath.NewInt(100), Token: coin(d, 100_000_000_000)}}, "")
			res, err := a.MsgServiceRouter().Handler(&msg)(ctx, &msg)
			if err != nil {
				panic(fmt.Errorf("bootstrap pool: %w", err))
			}
			var out balancer.MsgCreateBalancerPoolResponse
			if err := out.Unmarshal(res.MsgResponses[0].Value); err != nil {
				panic(err)
			}
			return out.PoolID
		}
		p1 := mk("uion")
		if err := a.TxFeesKeeper.SetFeeTokens(ctx, []txfeestypes.FeeToken{{Denom: "uion", PoolID: p1}}); err != nil {
			panic(err)
		}
		p2 := mk("uosmo")
		// starting state for the state-dependent messages: a CL pool with three positions, one factory denom with
		// supply and one lock per actor
		run := func(msg sdk.Msg) {
			if _, err := a.MsgServiceRouter().Handler(msg)(ctx, msg); err != nil {
				panic(fmt.Errorf("bootstrap %T: %w", msg, err))
			}
		}
		clp := clmodel.NewMsgCreateConcentratedPool(Actor(0), "uosmo", "usdc", 100, dec("0.002"))
		run(&clp)
		for i := 0; i < NActors; i++ {
			run(tftypes.NewMsgCreateDenom(Actor(i).String(), "boot"))
			run(tftypes.NewMsgMint(Actor(i).String(), coin(fmt.Sprintf("factory/%s/boot", Actor(i)), 1_000_000_000)))
			run(lockuptypes.NewMsgLockTokens(Actor(i), time.Hour, sdk.NewCoins(coin("foo", 1_000_000+int64(i)))))
		}
		// one factory denom whose admin has been renounced (the empty admin: reachable through contract bindings and
		// genesis, the message's ValidateBasic refuses it): its record must survive export/import as it is
		{
			bz, err := (&tftypes.DenomAuthorityMetadata{Admin: ""}).Marshal()
			if err != nil {
				panic(err)
			}
			a.TokenFactoryKeeper.GetDenomPrefixStore(ctx, fmt.Sprintf("factory/%s/boot", Actor(NActors-1))).Set([]byte(tftypes.DenomAuthorityMetadataKey), bz)
		}
		if err := a.SuperfluidKeeper.AddNewSuperfluidAsset(ctx, sftypes.SuperfluidAsset{Denom: gammtypes.GetPoolShareDenom(p2), AssetType: sftypes.SuperfluidAssetTypeLPShare}); err != nil {
			panic(err)
		}
		// the middle gauge pays another lock denom, held by two actors only: the order in which gauges are visited decides
		// the order of the reward receivers (sends and events are aggregated per receiver in first-appearance order)
		if cfg.BootGauges != [3]int{} {
			for _, i := range []int{2, 3} {
				run(lockuptypes.NewMsgLockTokens(Actor(i), time.Hour, sdk.NewCoins(coin("usdc", 2_000_000+int64(i)))))
			}
		}
		if cfg.Alloyed {
			bootstrapAlloyedPool(n, ctx, run)
		}
		if cfg.LockedCL {
			// registered only: the multiplier is computed by the first superfluid epoch that finds full-range liquidity
			// (a second CL pool, over the bond denom: the multiplier of a concentrated share is its value in the bond denom)
			sfp := clmodel.NewMsgCreateConcentratedPool(Actor(0), Bond, "usdc", 100, dec("0.001"))
			run(&sfp)
			a.SuperfluidKeeper.SetSuperfluidAsset(ctx, sftypes.SuperfluidAsset{Denom: cltypes.GetConcentratedLockupDenomFromPoolId(a.PoolManagerKeeper.GetNextPoolId(ctx) - 1), AssetType: sftypes.SuperfluidAssetTypeConcentratedShare})
		}
		for i, ep := range cfg.BootGauges {
			if ep > 0 {
				run(incentivestypes.NewMsgCreateGauge(false, Actor(i%(NActors-1)), lockuptypes.QueryCondition{LockQueryType: lockuptypes.ByDuration, Denom: []string{"foo", "usdc", "foo"}[i], Duration: time.Second},
					sdk.NewCoins(coin("uosmo", 30_000_000+int64(i))), Base, uint64(ep), 0))
			}
		}
	}
}

// SetupBlock is the second block of every node: the first CL positions (a position created in the block that
// created its pool leaves a twap record that cannot be re-imported, see known finding C19-twap-genesis-recovered-record).
func SetupBlock(n *Node) {
	var txs [][]byte
	for i := 0; i < 3; i++ {
		tx, err := n.SignTx(i, 0, 6_000_000, sdk.NewCoins(coin(Bond, 300_000)), &cltypes.MsgCreatePosition{PoolId: 3, Sender: Actor(i).String(), LowerTick: -100000 * int64(i+1), UpperTick: 200000 * int64(i+1),
			TokensProvided: sdk.NewCoins(coin("uosmo", 10_000_000_000), coin("usdc", 10_000_000_000)), TokenMinAmount0: osmomath.ZeroInt(), TokenMinAmount1: osmomath.ZeroInt()})
		if err != nil {
			panic(err)
		}
		txs = append(txs, tx)
	}
	br, err := n.RunBlock(5*time.Second, txs, n.Votes())
	if err != nil {
		panic(err)
	}
	for _, b := range br.Tx {
		if r := DecodeTxResult(b); r.Code != 0 {
			panic("setup block: " + r.Log)
		}
	}
	setupLockedCL(n)
}

// setupLockedCL runs only on chains whose bootstrap registered the CL share as a superfluid asset (read from state, so that
// every node, and every replay, decides alike): a plain full-range position, a day later (the superfluid epoch has priced
// the share) a full-range position created locked and delegated by actor 3, then its undelegation and the unbonding of
// the lock. The generated history starts with that lock unbonding.
func setupLockedCL(n *Node) {
	share := ""
	for _, as := range n.App.SuperfluidKeeper.GetAllSuperfluidAssets(n.ReadCtx()) {
		if as.AssetType == sftypes.SuperfluidAssetTypeConcentratedShare {
			share = as.Denom
		}
	}
	if share == "" {
		return
	}
	pool := cltypes.MustGetPoolIdFromShareDenom(share)
	must := func(what string, dt time.Duration, msgs ...sdk.Msg) {
		var txs [][]byte
		for i, m := range msgs {
			tx, err := n.SignTx(3, uint64(i), 8_000_000, sdk.NewCoins(coin(Bond, 400_000)), m)
			if err != nil {
				panic(err)
			}
			txs = append(txs, tx)
		}
		br, err := n.RunBlock(dt, txs, n.Votes())
		if err != nil {
			panic(err)
		}
		for _, b := range br.Tx {
			if r := DecodeTxResult(b); r.Code != 0 {
				panic("setup block (" + what + "): " + r.Log)
			}
		}
	}
	me := Actor(3)
	must("plain full-range position", 5*time.Second, &cltypes.MsgCreatePosition{PoolId: pool, Sender: me.String(), LowerTick: cltypes.MinInitializedTick, UpperTick: cltypes.MaxTick,
		TokensProvided: sdk.NewCoins(coin(Bond, 5_000_000_000), coin("usdc", 5_000_000_000)), TokenMinAmount0: osmomath.ZeroInt(), TokenMinAmount1: osmomath.ZeroInt()})
	must("epoch", 8*24*time.Hour+time.Hour) // the superfluid epoch is the distribution epoch: a day or a week
	vals, _ := n.App.StakingKeeper.GetAllValidators(n.ReadCtx())
	must("locked full-range position", 5*time.Second, sftypes.NewMsgCreateFullRangePositionAndSuperfluidDelegate(me, sdk.NewCoins(coin(Bond, 1_000_000_000), coin("usdc", 1_000_000_000)), vals[0].GetOperator(), pool))
	var lockID uint64
	for _, l := range n.App.LockupKeeper.GetAccountPeriodLocks(n.ReadCtx(), me) {
		if len(l.Coins) == 1 && l.Coins[0].Denom == share {
			lockID = l.ID
		}
	}
	if lockID == 0 {
		panic("setup: no lock under the superfluid CL position")
	}
	must("undelegate and unbond", 5*time.Second, sftypes.NewMsgSuperfluidUndelegate(me, lockID), sftypes.NewMsgSuperfluidUnbondLock(me, lockID))
}

// Block is one generated block of the plan that every node executes.
type Block struct {
	Dt    time.Duration
	Txs   [][]byte
	Kinds []string
	Votes []abci.VoteInfo `json:"-"` // recomputed from the leader on replay
	// Ghosts are valid-looking transactions that are never included in a block; the noisy replica simulates and
	// check-txs them before the block
	Ghosts [][]byte
}

// view is what the generator reads from the leader's committed state.
type view struct {
	ctx    sdk.Context
	pools  []poolInfo
	vals   []string
	gauges []uint64
	props  []uint64
}

type poolInfo struct {
	id     uint64
	typ    pmtypes.PoolType
	denoms []string
}

func (n *Node) view() *view {
	ctx := n.ReadCtx()
	v := &view{ctx: ctx}
	pools, _ := n.App.PoolManagerKeeper.AllPools(ctx)
	for _, p := range pools {
		pi := poolInfo{id: p.GetId(), typ: p.GetType()}
		ds, err := n.App.PoolManagerKeeper.RouteGetPoolDenoms(ctx, p.GetId())
		if err == nil {
			pi.denoms = ds
		}
		v.pools = append(v.pools, pi)
	}
	vals, _ := n.App.StakingKeeper.GetAllValidators(ctx)
	for _, val := range vals {
		v.vals = append(v.vals, val.GetOperator())
	}
	sort.Strings(v.vals)
	for _, g := range n.App.IncentivesKeeper.GetNotFinishedGauges(ctx) {
		v.gauges = append(v.gauges, g.Id)
	}
	_ = n.App.GovKeeper.Proposals.Walk(ctx, nil, func(id uint64, p govv1.Proposal) (bool, error) {
		if p.Status == govv1.StatusVotingPeriod || p.Status == govv1.StatusDepositPeriod {
			v.props = append(v.props, id)
		}
		return false, nil
	})
	return v
}

// Votes returns a full commit of the bonded validators of the last committed state.
func (n *Node) Votes() []abci.VoteInfo {
	ctx := n.ReadCtx()
	var out []abci.VoteInfo
	vals, _ := n.App.StakingKeeper.GetBondedValidatorsByPower(ctx)
	for _, v := range vals {
		ca, err := v.GetConsAddr()
		if err != nil {
			continue
		}
		out = append(out, abci.VoteInfo{Validator: abci.Validator{Address: ca, Power: v.ConsensusPower(sdk.DefaultPowerReduction)}, BlockIdFlag: cmtproto.BlockIDFlagCommit})
	}
	return out
}

func amount(rt *rapid.T, label string) int64 {
	switch rapid.IntRange(0, 3).Draw(rt, label+"Shape") {
	case 0:
		return int64(rapid.IntRange(1, 1000).Draw(rt, label))
	case 1:
		return int64(rapid.IntRange(1000, 10_000_000).Draw(rt, label))
	case 2:
		return int64(rapid.IntRange(10_000_000, 10_000_000_000).Draw(rt, label))
	default:
		return int64(rapid.IntRange(1, 9).Draw(rt, label)) * 100_000_000_000
	}
}

func pick[T any](rt *rapid.T, label string, xs []T) (T, bool) {
	var zero T
	if len(xs) == 0 {
		return zero, false
	}
	return xs[rapid.IntRange(0, len(xs)-1).Draw(rt, label)], true
}

var txKinds = expand(map[string]int{
	"bankSend": 2, "createBalancer": 2, "createStable": 1, "createCL": 2, "joinPool": 2, "exitPool": 2, "joinSwapExtern": 1,
	"swapIn": 4, "swapOut": 2, "splitSwap": 1,
	"clCreatePosition": 3, "clWithdraw": 3, "clCollectSpread": 2, "clCollectIncentives": 2, "clAdd": 2,
	"lock": 2, "lockShares": 2, "beginUnlock": 3, "beginUnlockAll": 1, "extendLock": 1,
	"createGauge": 2, "addToGauge": 1,
	"tfCreate": 2, "tfMint": 4, "tfBurn": 2, "tfForceTransfer": 4, "tfChangeAdmin": 1, "tfMetadata": 1,
	"delegate": 2, "undelegate": 2, "withdrawReward": 2, "createValidator": 1,
	"sfDelegate": 3, "sfLockAndDelegate": 2, "sfUndelegate": 3, "sfUnbond": 2,
	"valsetSet": 1, "valsetDelegate": 2, "valsetWithdraw": 1,
	"govSubmit": 1, "govVote": 3,
})

func expand(w map[string]int) []string {
	var names []string
	for k := range w {
		names = append(names, k)
	}
	sort.Strings(names)
	var out []string
	for _, k := range names {
		for i := 0; i < w[k]; i++ {
			out = append(out, k)
		}
	}
	return out
}

// holder draws an actor that holds denom d.
func holder(rt *rapid.T, bal func(ctx context.Context, addr sdk.AccAddress, denom string) sdk.Coin, ctx sdk.Context, d string) (sdk.AccAddress, osmomath.Int, bool) {
	var hs []int
	for i := 0; i < NActors; i++ {
		if bal(ctx, Actor(i), d).Amount.IsPositive() {
			hs = append(hs, i)
		}
	}
	i, ok := pick(rt, "holder", hs)
	if !ok {
		return nil, osmomath.Int{}, false
	}
	return Actor(i), bal(ctx, Actor(i), d).Amount, true
}

func capAt(a int64, max osmomath.Int) osmomath.Int {
	v := osmomath.NewInt(a)
	if v.GT(max) {
		return max
	}
	return v
}

// feasibleKinds filters the weighted kind list by cheap state predicates, so that state-dependent messages are
// drawn as soon as their state exists instead of being crowded out by the always-possible ones.
func feasibleKinds(n *Node, v *view, a int) []string {
	me := Actor(a)
	app, ctx := n.App, v.ctx
	positions, _ := app.ConcentratedLiquidityKeeper.GetUserPositions(ctx, me, 0)
	locks := app.LockupKeeper.GetAccountPeriodLocks(ctx, me)
	sfLocks, sfCand := 0, 0
	for _, l := range locks {
		if app.LockupKeeper.HasAnySyntheticLockups(ctx, l.ID) {
			sfLocks++
		} else if len(l.Coins) == 1 && l.Duration >= 504*time.Hour {
			if _, err := app.SuperfluidKeeper.GetSuperfluidAsset(ctx, l.Coins[0].Denom); err == nil {
				sfCand++
			}
		}
	}
	admin := false
	it := app.TokenFactoryKeeper.GetAllDenomsIterator(ctx)
	for ; it.Valid(); it.Next() {
		if md, err := app.TokenFactoryKeeper.GetAuthorityMetadata(ctx, string(it.Value())); err == nil && md.Admin == me.String() {
			admin = true
			break
		}
	}
	it.Close()
	dels, _ := app.StakingKeeper.GetDelegatorDelegations(ctx, me, 10)
	_, pref := app.ValidatorSetPreferenceKeeper.GetValidatorSetPreference(ctx, me.String())
	hasCL, hasShares := false, false
	for _, p := range v.pools {
		if p.typ == pmtypes.Concentrated {
			hasCL = true
		} else if app.BankKeeper.GetBalance(ctx, me, gammtypes.GetPoolShareDenom(p.id)).Amount.IsPositive() {
			hasShares = true
		}
	}
	need := map[string]bool{
		"clCreatePosition": hasCL, "clWithdraw": len(positions) > 0, "clCollectSpread": len(positions) > 0, "clCollectIncentives": len(positions) > 0, "clAdd": len(positions) > 0,
		"beginUnlock": len(locks) > 0, "beginUnlockAll": len(locks) > 0, "extendLock": len(locks) > 0,
		"sfDelegate": sfCand > 0, "sfUndelegate": sfLocks > 0, "sfUnbond": sfLocks > 0,
		"tfMint": admin, "tfBurn": admin, "tfForceTransfer": admin, "tfChangeAdmin": admin, "tfMetadata": admin,
		"undelegate": len(dels) > 0, "withdrawReward": len(dels) > 0, "valsetDelegate": pref || len(dels) >= 2, "valsetWithdraw": pref || len(dels) >= 1,
		"govVote": len(v.props) > 0, "exitPool": hasShares, "addToGauge": len(v.gauges) > 0,
	}
	// kinds whose precondition is a state that few histories reach (a delegated lock, a validator-set preference, a
	// staking delegation, an open proposal) get three times their weight while it holds
	rare := map[string]bool{"sfDelegate": true, "sfUndelegate": true, "sfUnbond": true, "undelegate": true, "valsetDelegate": true, "valsetWithdraw": true, "govVote": true, "exitPool": true}
	var out []string
	for _, k := range txKinds {
		if ok, listed := need[k]; !listed || ok {
			out = append(out, k)
			if listed && rare[k] {
				out = append(out, k, k)
			}
		}
	}
	return out
}

// GenMsg draws one message of actor a. ok=false means the drawn kind has no sensible arguments in the current state.
func GenMsg(rt *rapid.T, n *Node, v *view, a int) (kind string, msg sdk.Msg, ok bool) {
	me := Actor(a)
	app := n.App
	ctx := v.ctx
	kind = rapid.SampledFrom(feasibleKinds(n, v, a)).Draw(rt, "kind")
	other := Actor(rapid.IntRange(0, NActors-1).Draw(rt, "other"))
	den := func(label string) string { return rapid.SampledFrom(Denoms).Draw(rt, label) }
	switch kind {
	case "bankSend":
		bal := app.BankKeeper.GetAllBalances(ctx, me)
		c, ok := pick(rt, "coin", bal)
		if !ok {
			return kind, nil, false
		}
		amt := osmomath.NewInt(amount(rt, "amt"))
		if amt.GT(c.Amount) {
			amt = c.Amount
		}
		return kind, &banktypes.MsgSend{FromAddress: me.String(), ToAddress: other.String(), Amount: sdk.NewCoins(sdk.NewCoin(c.Denom, amt))}, true
	case "createBalancer":
		d0, d1 := den("d0"), den("d1")
		if d0 == d1 {
			return kind, nil, false
		}
		m := balancer.NewMsgCreateBalancerPool(me, balancer.PoolParams{SwapFee: osmomath.NewDecWithPrec(int64(rapid.IntRange(0, 30).Draw(rt, "fee")), 3), ExitFee: osmomath.ZeroDec()},
			[]balancer.PoolAsset{{Weight: osmomath.NewInt(int64(rapid.IntRange(1, 100).Draw(rt, "w0"))), Token: coin(d0, amount(rt, "a0"))}, {Weight: osmomath.NewInt(int64(rapid.IntRange(1, 100).Draw(rt, "w1"))), Token: coin(d1, amount(rt, "a1"))}}, "")
		return kind, &m, true
	case "createStable":
		d0, d1 := den("d0"), den("d1")
		if d0 == d1 {
			return kind, nil, false
		}
		m := stableswap.NewMsgCreateStableswapPool(me, stableswap.PoolParams{SwapFee: osmomath.NewDecWithPrec(int64(rapid.IntRange(0, 30).Draw(rt, "fee")), 3), ExitFee: osmomath.ZeroDec()},
			sdk.NewCoins(coin(d0, amount(rt, "a0")), coin(d1, amount(rt, "a1"))), []uint64{1, 1}, "")
		return kind, &m, true
	case "createCL":
		d0, d1 := den("d0"), den("d1")
		if d0 == d1 {
			return kind, nil, false
		}
		m := clmodel.NewMsgCreateConcentratedPool(me, d0, d1, rapid.SampledFrom([]uint64{1, 10, 100, 1000}).Draw(rt, "spacing"), dec(rapid.SampledFrom([]string{"0", "0.0001", "0.0005", "0.001", "0.002", "0.003", "0.005"}).Draw(rt, "spread")))
		return kind, &m, true
	}
	poolsOf := func(types ...pmtypes.PoolType) []poolInfo {
		var out []poolInfo
		for _, p := range v.pools {
			for _, t := range types {
				if p.typ == t && len(p.denoms) >= 2 {
					out = append(out, p)
				}
			}
		}
		return out
	}
	switch kind {
	case "joinPool":
		p, ok := pick(rt, "pool", poolsOf(pmtypes.Balancer, pmtypes.Stableswap))
		if !ok {
			return kind, nil, false
		}
		total, err := app.GAMMKeeper.GetTotalPoolShares(ctx, p.id)
		if err != nil {
			return kind, nil, false
		}
		share := total.QuoRaw(int64(rapid.IntRange(2, 1000).Draw(rt, "shareDiv")))
		if !share.IsPositive() {
			return kind, nil, false
		}
		maxs := sdk.NewCoins()
		for _, d := range p.denoms {
			maxs = maxs.Add(app.BankKeeper.GetBalance(ctx, me, d))
		}
		return kind, &gammtypes.MsgJoinPool{Sender: me.String(), PoolId: p.id, ShareOutAmount: share, TokenInMaxs: maxs}, true
	case "exitPool":
		p, ok := pick(rt, "pool", poolsOf(pmtypes.Balancer, pmtypes.Stableswap))
		if !ok {
			return kind, nil, false
		}
		bal := app.BankKeeper.GetBalance(ctx, me, gammtypes.GetPoolShareDenom(p.id))
		if !bal.Amount.IsPositive() {
			return kind, nil, false
		}
		return kind, &gammtypes.MsgExitPool{Sender: me.String(), PoolId: p.id, ShareInAmount: osmomath.MaxInt(osmomath.OneInt(), bal.Amount.QuoRaw(int64(rapid.IntRange(1, 10).Draw(rt, "div")))), TokenOutMins: sdk.NewCoins()}, true
	case "joinSwapExtern":
		p, ok := pick(rt, "pool", poolsOf(pmtypes.Balancer, pmtypes.Stableswap))
		if !ok {
			return kind, nil, false
		}
		d, _ := pick(rt, "denom", p.denoms)
		return kind, &gammtypes.MsgJoinSwapExternAmountIn{Sender: me.String(), PoolId: p.id, TokenIn: coin(d, amount(rt, "amt")), ShareOutMinAmount: osmomath.OneInt()}, true
	case "swapIn", "swapOut", "splitSwap":
		if len(v.pools) == 0 {
			return kind, nil, false
		}
		viaCW := false
		cwKind := func() string {
			if viaCW {
				return kind + "ViaCosmwasmPool"
			}
			return kind
		}
		route := func(label, from string, hops int) (ids []uint64, denoms []string, ok bool) {
			cur := from
			for h := 0; h < hops; h++ {
				var cands []poolInfo
				for _, p := range v.pools {
					for _, d := range p.denoms {
						if d == cur {
							cands = append(cands, p)
						}
					}
				}
				p, ok := pick(rt, fmt.Sprintf("%sHop%d", label, h), cands)
				if !ok {
					return nil, nil, false
				}
				var outs []string
				for _, d := range p.denoms {
					if d != cur {
						outs = append(outs, d)
					}
				}
				o, ok := pick(rt, fmt.Sprintf("%sOut%d", label, h), outs)
				if !ok {
					return nil, nil, false
				}
				ids = append(ids, p.id)
				denoms = append(denoms, o)
				cur = o
				if p.typ == pmtypes.CosmWasm {
					viaCW = true
				}
			}
			return ids, denoms, true
		}
		from := den("from")
		hops := rapid.IntRange(1, 3).Draw(rt, "hops")
		ids, outs, ok := route("r", from, hops)
		if !ok {
			return kind, nil, false
		}
		amt := amount(rt, "amt")
		switch kind {
		case "swapIn":
			var rs []pmtypes.SwapAmountInRoute
			for i := range ids {
				rs = append(rs, pmtypes.SwapAmountInRoute{PoolId: ids[i], TokenOutDenom: outs[i]})
			}
			// the same swap is also accepted by the (older) gamm message, which reaches the router through the gamm keeper
			if rapid.IntRange(0, 2).Draw(rt, "viaGamm") == 0 {
				return cwKind(), &gammtypes.MsgSwapExactAmountIn{Sender: me.String(), Routes: rs, TokenIn: coin(from, amt), TokenOutMinAmount: osmomath.OneInt()}, true
			}
			return cwKind(), &pmtypes.MsgSwapExactAmountIn{Sender: me.String(), Routes: rs, TokenIn: coin(from, amt), TokenOutMinAmount: osmomath.OneInt()}, true
		case "swapOut":
			// exact-out routes are stated from the input side: pool i takes denom in_i
			var rs []pmtypes.SwapAmountOutRoute
			in := from
			for i := range ids {
				rs = append(rs, pmtypes.SwapAmountOutRoute{PoolId: ids[i], TokenInDenom: in})
				in = outs[i]
			}
			if rapid.IntRange(0, 2).Draw(rt, "viaGamm") == 0 {
				return cwKind(), &gammtypes.MsgSwapExactAmountOut{Sender: me.String(), Routes: rs, TokenInMaxAmount: osmomath.NewInt(900_000_000_000_000), TokenOut: coin(outs[len(outs)-1], amt)}, true
			}
			return cwKind(), &pmtypes.MsgSwapExactAmountOut{Sender: me.String(), Routes: rs, TokenInMaxAmount: osmomath.NewInt(900_000_000_000_000), TokenOut: coin(outs[len(outs)-1], amt)}, true
		default:
			ids2, outs2, ok := route("s", from, 1)
			if !ok {
				return kind, nil, false
			}
			// second leg must end in the same denom: extend with a hop if a pool offers it, else give up
			final := outs[len(outs)-1]
			if outs2[0] != final {
				return kind, nil, false
			}
			mk := func(ids []uint64, outs []string) []pmtypes.SwapAmountInRoute {
				var rs []pmtypes.SwapAmountInRoute
				for i := range ids {
					rs = append(rs, pmtypes.SwapAmountInRoute{PoolId: ids[i], TokenOutDenom: outs[i]})
				}
				return rs
			}
			return cwKind(), &pmtypes.MsgSplitRouteSwapExactAmountIn{Sender: me.String(), TokenInDenom: from, TokenOutMinAmount: osmomath.OneInt(),
				Routes: []pmtypes.SwapAmountInSplitRoute{{Pools: mk(ids, outs), TokenInAmount: osmomath.NewInt(amt)}, {Pools: mk(ids2, outs2), TokenInAmount: osmomath.NewInt(amount(rt, "amt2"))}}}, true
		}
	case "clCreatePosition":
		p, ok := pick(rt, "pool", poolsOf(pmtypes.Concentrated))
		if !ok {
			return kind, nil, false
		}
		pool, err := app.ConcentratedLiquidityKeeper.GetConcentratedPoolById(ctx, p.id)
		if err != nil {
			return kind, nil, false
		}
		sp := int64(pool.GetTickSpacing())
		lo, hi := int64(cltypes.MinInitializedTick), cltypes.MaxTick
		if !rapid.Bool().Draw(rt, "fullRange") {
			cur := pool.GetCurrentTick()
			lo = (cur/sp - int64(rapid.IntRange(-20, 2000).Draw(rt, "below"))) * sp
			hi = (cur/sp + int64(rapid.IntRange(1, 2000).Draw(rt, "above"))) * sp
			if lo >= hi {
				lo = hi - sp
			}
		} else {
			lo = (lo / sp) * sp
			hi = (hi / sp) * sp
		}
		return kind, &cltypes.MsgCreatePosition{PoolId: p.id, Sender: me.String(), LowerTick: lo, UpperTick: hi,
			TokensProvided: sdk.NewCoins(coin(pool.GetToken0(), amount(rt, "a0")), coin(pool.GetToken1(), amount(rt, "a1"))), TokenMinAmount0: osmomath.ZeroInt(), TokenMinAmount1: osmomath.ZeroInt()}, true
	case "clWithdraw", "clCollectSpread", "clCollectIncentives", "clAdd":
		ps, _ := app.ConcentratedLiquidityKeeper.GetUserPositions(ctx, me, 0)
		p, ok := pick(rt, "position", ps)
		if !ok {
			return kind, nil, false
		}
		switch kind {
		case "clWithdraw":
			l := p.Liquidity
			if rapid.Bool().Draw(rt, "partial") {
				l = l.QuoInt64(int64(rapid.IntRange(2, 10).Draw(rt, "div")))
			}
			return kind, &cltypes.MsgWithdrawPosition{PositionId: p.PositionId, Sender: me.String(), LiquidityAmount: l}, true
		case "clCollectSpread":
			return kind, &cltypes.MsgCollectSpreadRewards{PositionIds: []uint64{p.PositionId}, Sender: me.String()}, true
		case "clCollectIncentives":
			return kind, &cltypes.MsgCollectIncentives{PositionIds: []uint64{p.PositionId}, Sender: me.String()}, true
		default:
			return kind, &cltypes.MsgAddToPosition{PositionId: p.PositionId, Sender: me.String(), Amount0: osmomath.NewInt(amount(rt, "a0")), Amount1: osmomath.NewInt(amount(rt, "a1")), TokenMinAmount0: osmomath.ZeroInt(), TokenMinAmount1: osmomath.ZeroInt()}, true
		}
	case "lock":
		bal := app.BankKeeper.GetAllBalances(ctx, me)
		c, ok := pick(rt, "coin", bal)
		if !ok {
			return kind, nil, false
		}
		amt := c.Amount.QuoRaw(int64(rapid.IntRange(2, 1000).Draw(rt, "div")))
		if !amt.IsPositive() {
			return kind, nil, false
		}
		d := rapid.SampledFrom([]time.Duration{time.Second, time.Hour, 3 * time.Hour, 7 * time.Hour, 504 * time.Hour, 24 * time.Hour}).Draw(rt, "duration")
		return kind, lockuptypes.NewMsgLockTokens(me, d, sdk.NewCoins(sdk.NewCoin(c.Denom, amt))), true
	case "lockShares":
		// LP shares of a superfluid-enabled pool, for the unbonding duration (the only locks superfluid accepts)
		assets := app.SuperfluidKeeper.GetAllSuperfluidAssets(ctx)
		as, ok := pick(rt, "asset", assets)
		if !ok {
			return kind, nil, false
		}
		bal := app.BankKeeper.GetBalance(ctx, me, as.Denom)
		amt := bal.Amount.QuoRaw(int64(rapid.IntRange(2, 100).Draw(rt, "div")))
		if !amt.IsPositive() {
			return kind, nil, false
		}
		return kind, lockuptypes.NewMsgLockTokens(me, 504*time.Hour, sdk.NewCoins(sdk.NewCoin(as.Denom, amt))), true
	case "beginUnlockAll":
		return kind, lockuptypes.NewMsgBeginUnlockingAll(me), true
	case "beginUnlock", "extendLock", "sfDelegate", "sfUndelegate", "sfUnbond":
		locks := app.LockupKeeper.GetAccountPeriodLocks(ctx, me)
		l, ok := pick(rt, "lock", locks)
		if !ok {
			return kind, nil, false
		}
		switch kind {
		case "beginUnlock":
			var part sdk.Coins
			if rapid.Bool().Draw(rt, "partial") && len(l.Coins) == 1 && l.Coins[0].Amount.GT(osmomath.OneInt()) {
				part = sdk.NewCoins(sdk.NewCoin(l.Coins[0].Denom, l.Coins[0].Amount.QuoRaw(2)))
			}
			return kind, lockuptypes.NewMsgBeginUnlocking(me, l.ID, part), true
		case "extendLock":
			return kind, lockuptypes.NewMsgExtendLockup(me, l.ID, l.Duration+time.Duration(rapid.IntRange(1, 100).Draw(rt, "extH"))*time.Hour), true
		case "sfDelegate":
			val, ok := pick(rt, "val", v.vals)
			if !ok {
				return kind, nil, false
			}
			va, _ := sdk.ValAddressFromBech32(val)
			var cands []lockuptypes.PeriodLock
			for _, c := range locks {
				if len(c.Coins) == 1 && c.Duration >= 504*time.Hour {
					if _, err := app.SuperfluidKeeper.GetSuperfluidAsset(ctx, c.Coins[0].Denom); err == nil {
						cands = append(cands, c)
					}
				}
			}
			if sl, ok := pick(rt, "sfLock", cands); ok {
				l = sl
			}
			return kind, sftypes.NewMsgSuperfluidDelegate(me, l.ID, va), true
		case "sfUndelegate", "sfUnbond":
			// a lock that carries the matching marker: staking (superbonding) for an undelegation, unstaking
			// (superunbonding) for the unbonding of the lock itself
			want := "/superbonding/"
			if kind == "sfUnbond" {
				want = "/superunbonding/"
			}
			var cands []lockuptypes.PeriodLock
			for _, c := range locks {
				if sl, found, err := app.LockupKeeper.GetSyntheticLockupByUnderlyingLockId(ctx, c.ID); err == nil && found && strings.Contains(sl.SynthDenom, want) {
					cands = append(cands, c)
				}
			}
			if sl, ok := pick(rt, "sfMarkedLock", cands); ok {
				l = sl
			}
			if kind == "sfUndelegate" {
				return kind, sftypes.NewMsgSuperfluidUndelegate(me, l.ID), true
			}
			return kind, sftypes.NewMsgSuperfluidUnbondLock(me, l.ID), true
		}
	case "sfLockAndDelegate":
		val, ok := pick(rt, "val", v.vals)
		if !ok {
			return kind, nil, false
		}
		va, _ := sdk.ValAddressFromBech32(val)
		assets := app.SuperfluidKeeper.GetAllSuperfluidAssets(ctx)
		as, ok := pick(rt, "asset", assets)
		if !ok {
			return kind, nil, false
		}
		bal := app.BankKeeper.GetBalance(ctx, me, as.Denom)
		amt := bal.Amount.QuoRaw(int64(rapid.IntRange(2, 100).Draw(rt, "div")))
		if !amt.IsPositive() {
			return kind, nil, false
		}
		return kind, sftypes.NewMsgLockAndSuperfluidDelegate(me, sdk.NewCoins(sdk.NewCoin(as.Denom, amt)), va), true
	case "createGauge":
		var dn string
		if rapid.Bool().Draw(rt, "onShare") && len(v.pools) > 0 {
			p, _ := pick(rt, "pool", v.pools)
			dn = gammtypes.GetPoolShareDenom(p.id)
		} else {
			dn = den("lockDenom")
		}
		perpetual := rapid.Bool().Draw(rt, "perpetual")
		epochs := uint64(1)
		if !perpetual {
			epochs = uint64(rapid.IntRange(1, 4).Draw(rt, "epochs"))
		}
		dur := rapid.SampledFrom([]time.Duration{time.Second, time.Hour, 3 * time.Hour, 7 * time.Hour}).Draw(rt, "duration")
		start := n.Time.Add(time.Duration(rapid.IntRange(0, 48).Draw(rt, "startH")) * time.Hour)
		return kind, incentivestypes.NewMsgCreateGauge(perpetual, me, lockuptypes.QueryCondition{LockQueryType: lockuptypes.ByDuration, Denom: dn, Duration: dur}, sdk.NewCoins(coin(rapid.SampledFrom([]string{"uosmo", "stake", "uion"}).Draw(rt, "reward"), amount(rt, "amt"))), start, epochs, 0), true
	case "addToGauge":
		g, ok := pick(rt, "gauge", v.gauges)
		if !ok {
			return kind, nil, false
		}
		return kind, incentivestypes.NewMsgAddToGauge(me, g, sdk.NewCoins(coin(rapid.SampledFrom([]string{"uosmo", "stake", "uion"}).Draw(rt, "reward"), amount(rt, "amt")))), true
	case "tfCreate":
		return kind, tftypes.NewMsgCreateDenom(me.String(), rapid.SampledFrom([]string{"a", "b", "c"}).Draw(rt, "sub")), true
	case "tfMint", "tfBurn", "tfForceTransfer", "tfChangeAdmin", "tfMetadata":
		// denoms this actor administers (created by anybody)
		var mine []string
		it := app.TokenFactoryKeeper.GetAllDenomsIterator(ctx)
		for ; it.Valid(); it.Next() {
			d := string(it.Value())
			md, err := app.TokenFactoryKeeper.GetAuthorityMetadata(ctx, d)
			if err == nil && md.Admin == me.String() {
				mine = append(mine, d)
			}
		}
		it.Close()
		d, ok := pick(rt, "denom", mine)
		if !ok {
			return kind, nil, false
		}
		switch kind {
		case "tfMint":
			if rapid.Bool().Draw(rt, "toOther") {
				return kind, tftypes.NewMsgMintTo(me.String(), coin(d, amount(rt, "amt")), other.String()), true
			}
			return kind, tftypes.NewMsgMint(me.String(), coin(d, amount(rt, "amt"))), true
		case "tfBurn":
			h, bal, ok := holder(rt, app.BankKeeper.GetBalance, ctx, d)
			if !ok {
				return kind, nil, false
			}
			amt := capAt(amount(rt, "amt"), bal)
			if h.Equals(me) && rapid.Bool().Draw(rt, "plainBurn") {
				return kind, tftypes.NewMsgBurn(me.String(), sdk.NewCoin(d, amt)), true
			}
			return kind, tftypes.NewMsgBurnFrom(me.String(), sdk.NewCoin(d, amt), h.String()), true
		case "tfForceTransfer":
			h, bal, ok := holder(rt, app.BankKeeper.GetBalance, ctx, d)
			if !ok {
				return kind, nil, false
			}
			fc := sdk.NewCoin(d, capAt(amount(rt, "amt"), bal))
			from, to := h.String(), Actor(rapid.IntRange(0, NActors-1).Draw(rt, "to")).String()
			defer func() {
				if m, ok := msg.(*tftypes.MsgForceTransfer); ok {
					m.Amount = fc
				}
			}()
			switch rapid.IntRange(0, 5).Draw(rt, "moduleEnd") {
			case 0:
				from = app.AccountKeeper.GetModuleAddress(rapid.SampledFrom([]string{"gov", "lockup", "distribution", "gamm"}).Draw(rt, "module")).String()
			case 1:
				to = app.AccountKeeper.GetModuleAddress(rapid.SampledFrom([]string{"gov", "lockup", "distribution", "gamm"}).Draw(rt, "module")).String()
			}
			return kind, tftypes.NewMsgForceTransfer(me.String(), coin(d, amount(rt, "amt")), from, to), true
		case "tfChangeAdmin":
			return kind, tftypes.NewMsgChangeAdmin(me.String(), d, other.String()), true
		default:
			return kind, tftypes.NewMsgSetDenomMetadata(me.String(), banktypes.Metadata{Description: "d", Base: d, Display: d, Name: "n", Symbol: "S",
				DenomUnits: []*banktypes.DenomUnit{{Denom: d, Exponent: 0}}}), true
		}
	case "delegate", "undelegate", "withdrawReward":
		val, ok := pick(rt, "val", v.vals)
		if !ok {
			return kind, nil, false
		}
		if kind != "delegate" {
			dels, _ := app.StakingKeeper.GetDelegatorDelegations(ctx, me, 20)
			d, ok := pick(rt, "delegation", dels)
			if !ok {
				return kind, nil, false
			}
			val = d.ValidatorAddress
		}
		switch kind {
		case "delegate":
			return kind, &stakingtypes.MsgDelegate{DelegatorAddress: me.String(), ValidatorAddress: val, Amount: coin(Bond, amount(rt, "amt"))}, true
		case "undelegate":
			return kind, &stakingtypes.MsgUndelegate{DelegatorAddress: me.String(), ValidatorAddress: val, Amount: coin(Bond, amount(rt, "amt"))}, true
		default:
			return kind, &distrtypes.MsgWithdrawDelegatorReward{DelegatorAddress: me.String(), ValidatorAddress: val}, true
		}
	case "createValidator":
		pk := ed25519.GenPrivKeyFromSecret([]byte(fmt.Sprintf("c19-val-%d", a))).PubKey()
		m, err := stakingtypes.NewMsgCreateValidator(sdk.ValAddress(me).String(), pk, coin(Bond, 1_000_000*int64(rapid.IntRange(1, 50).Draw(rt, "selfBond"))),
			stakingtypes.NewDescription(fmt.Sprintf("v%d", a), "", "", "", ""), stakingtypes.NewCommissionRates(osmomath.NewDecWithPrec(5, 2), osmomath.NewDecWithPrec(20, 2), osmomath.NewDecWithPrec(1, 2)), osmomath.OneInt())
		if err != nil {
			return kind, nil, false
		}
		return kind, m, true
	case "valsetSet":
		if len(v.vals) == 0 {
			return kind, nil, false
		}
		k := rapid.IntRange(1, len(v.vals)).Draw(rt, "nvals")
		perm := rapid.Permutation(v.vals).Draw(rt, "vals")[:k]
		var prefs []valsettypes.ValidatorPreference
		rest := int64(100)
		for i, val := range perm {
			w := rest
			if i < k-1 {
				w = int64(rapid.IntRange(1, int(rest-int64(k-1-i))).Draw(rt, "w"))
			}
			rest -= w
			prefs = append(prefs, valsettypes.ValidatorPreference{ValOperAddress: val, Weight: osmomath.NewDecWithPrec(w, 2)})
		}
		return kind, valsettypes.NewMsgSetValidatorSetPreference(me, prefs), true
	case "valsetDelegate":
		// with a stored preference, or - without one - over the delegator's existing staking delegations (the module then
		// derives the weights from them); amounts that do not split evenly leave a remainder for the last entry
		return kind, valsettypes.NewMsgDelegateToValidatorSet(me, coin(Bond, amount(rt, "amt")+int64(rapid.IntRange(0, 9).Draw(rt, "odd")))), true
	case "valsetWithdraw":
		return kind, valsettypes.NewMsgWithdrawDelegationRewards(me), true
	case "govSubmit":
		m, err := govv1.NewMsgSubmitProposal(nil, sdk.NewCoins(coin(Bond, 10_000_000)), me.String(), "m", "t", "s", rapid.Bool().Draw(rt, "expedited"))
		if err != nil {
			return kind, nil, false
		}
		return kind, m, true
	case "govVote":
		p, ok := pick(rt, "proposal", v.props)
		if !ok {
			return kind, nil, false
		}
		return kind, govv1.NewMsgVote(me, p, rapid.SampledFrom([]govv1.VoteOption{govv1.OptionYes, govv1.OptionNo, govv1.OptionAbstain, govv1.OptionNoWithVeto}).Draw(rt, "option"), ""), true
	}
	return kind, nil, false
}

// GenBlock draws the next block on the leader's current state.
func GenBlock(rt *rapid.T, leader *Node) Block {
	var b Block
	switch rapid.IntRange(0, 9).Draw(rt, "dtShape") {
	case 0, 1, 2, 3, 4:
		b.Dt = time.Duration(rapid.IntRange(1, 10).Draw(rt, "dtSec")) * time.Second
	case 5:
		b.Dt = time.Hour + time.Second
	case 6, 7:
		b.Dt = 24*time.Hour + time.Second
	case 8:
		b.Dt = 7*24*time.Hour + time.Second
	default:
		b.Dt = time.Duration(rapid.IntRange(1, 600).Draw(rt, "dtHours")) * time.Hour
	}
	b.Votes = leader.Votes()
	v := leader.view()
	ntx := rapid.IntRange(0, NActors).Draw(rt, "ntx")
	actors := rapid.Permutation([]int{0, 1, 2, 3, 4}).Draw(rt, "actors")[:ntx]
	for _, a := range actors {
		var kind string
		var msg sdk.Msg
		ok := false
		for try := 0; try < 8 && !ok; try++ {
			kind, msg, ok = GenMsg(rt, leader, v, a)
		}
		if !ok {
			continue
		}
		fee := sdk.NewCoins(coin(Bond, 300_000))
		if rapid.IntRange(0, 4).Draw(rt, "feeInUion") == 0 {
			fee = sdk.NewCoins(coin("uion", 6_000_000))
		}
		tx, err := leader.SignTx(a, 0, 6_000_000, fee, msg)
		if err != nil {
			continue
		}
		b.Txs = append(b.Txs, tx)
		b.Kinds = append(b.Kinds, fmt.Sprintf("a%d:%s", a, kind))
	}
	for g := rapid.IntRange(0, 2).Draw(rt, "ghosts"); g > 0; g-- {
		a := rapid.IntRange(0, NActors-1).Draw(rt, "ghostActor")
		if _, msg, ok := GenMsg(rt, leader, v, a); ok {
			if tx, err := leader.SignTx(a, 0, 6_000_000, sdk.NewCoins(coin(Bond, 300_000)), msg); err == nil {
				b.Ghosts = append(b.Ghosts, tx)
			}
		}
	}
	return b
}

// bootstrapAlloyedPool uploads the transmuter v3 contract shipped with the repository, creates an alloyed pool over
// uion/usdc, funds it 1:1 and registers it (and share agreements on its two assets) through the governance-only messages.
func bootstrapAlloyedPool(n *Node, ctx sdk.Context, run func(sdk.Msg)) {
	a := n.App
	cwAddr := a.AccountKeeper.GetModuleAddress(cwpooltypes.ModuleName)
	params := a.WasmKeeper.GetParams(ctx)
	if err := a.WasmKeeper.SetParams(ctx, wasmtypes.Params{CodeUploadAccess: wasmtypes.AccessConfig{Permission: wasmtypes.AccessTypeAnyOfAddresses, Addresses: []string{cwAddr.String()}}, InstantiateDefaultPermission: params.InstantiateDefaultPermission}); err != nil {
		panic(err)
	}
	repo := os.Getenv("VERIF_REPO")
	if repo == "" {
		repo = "/repo"
	}
	code, err := os.ReadFile(repo + "/x/cosmwasmpool/bytecode/transmuter_v3.wasm")
	if err != nil {
		panic(err)
	}
	inst := wasmtypes.AccessConfig{Permission: wasmtypes.AccessTypeAnyOfAddresses, Addresses: []string{cwAddr.String()}}
	codeID, _, err := a.ContractKeeper.Create(ctx, cwAddr, code, &inst)
	if err != nil {
		panic(fmt.Errorf("bootstrap: store transmuter code: %w", err))
	}
	a.CosmwasmPoolKeeper.WhitelistCodeId(ctx, codeID)
	bz, err := json.Marshal(apptesting.InstantiateMsg{
		PoolAssetConfigs:                []apptesting.AssetConfig{{Denom: "uion", NormalizationFactor: osmomath.OneInt()}, {Denom: "usdc", NormalizationFactor: osmomath.OneInt()}},
		AlloyedAssetSubdenom:            "alloyed",
		AlloyedAssetNormalizationFactor: "1",
		Admin:                           Actor(0).String(),
		Moderator:                       Actor(0).String(),
	})
	if err != nil {
		panic(err)
	}
	// the contract creates the alloyed denom from its own (empty) balance: the pool predates the denom creation fee
	tp := a.TokenFactoryKeeper.GetParams(ctx)
	fee := tp.DenomCreationFee
	tp.DenomCreationFee = nil
	a.TokenFactoryKeeper.SetParams(ctx, tp)
	poolID, err := a.PoolManagerKeeper.CreatePool(ctx, cwmodel.NewMsgCreateCosmWasmPool(codeID, Actor(0), bz))
	if err != nil {
		panic(fmt.Errorf("bootstrap: create alloyed pool: %w", err))
	}
	tp.DenomCreationFee = fee
	a.TokenFactoryKeeper.SetParams(ctx, tp)
	pool, err := a.CosmwasmPoolKeeper.GetPoolById(ctx, poolID)
	if err != nil {
		panic(err)
	}
	cosmwasm.MustExecute[transmuter.JoinPoolExecuteMsgRequest, cwmsg.EmptyStruct](ctx, a.ContractKeeper, pool.GetContractAddress(), Actor(0),
		sdk.NewCoins(coin("uion", 3_000_000_000), coin("usdc", 3_000_000_000)), transmuter.JoinPoolExecuteMsgRequest{})
	gov := a.AccountKeeper.GetModuleAddress(govtypes.ModuleName).String()
	run(&pmtypes.MsgSetTakerFeeShareAgreementForDenom{Sender: gov, Denom: "uion", SkimPercent: dec("0.01"), SkimAddress: Actor(2).String()})
	run(&pmtypes.MsgSetTakerFeeShareAgreementForDenom{Sender: gov, Denom: "usdc", SkimPercent: dec("0.02"), SkimAddress: Actor(3).String()})
	run(&pmtypes.MsgSetRegisteredAlloyedPool{Sender: gov, PoolId: poolID})
}
