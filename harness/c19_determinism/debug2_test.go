package c19

import (
	"encoding/json"
	"fmt"
	"os"
	"strconv"
	"testing"
)

// TestDebugEvents (VERIF_REPLAY_FILE, VERIF_DEBUG_BLOCK) prints the block events of the source and the imported node.
func TestDebugEvents(t *testing.T) {
	f := os.Getenv("VERIF_REPLAY_FILE")
	if f == "" {
		t.Skip()
	}
	bz, _ := os.ReadFile(f)
	var p Plan
	_ = json.Unmarshal(bz, &p)
	want, _ := strconv.Atoi(os.Getenv("VERIF_DEBUG_BLOCK"))
	n := NewNode(Bootstrap(p.Cfg))
	var imp *Node
	for bi := range p.Blocks {
		blk := p.Blocks[bi]
		votes := n.Votes()
		br, err := n.RunBlock(blk.Dt, blk.Txs, votes)
		if err != nil {
			t.Fatal(err)
		}
		if imp != nil {
			bi2, err := imp.RunBlock(blk.Dt, blk.Txs, votes)
			if err != nil {
				t.Fatal(err)
			}
			if bi == want {
				for i, e := range br.EventStrs {
					fmt.Println("SRC", i, e)
				}
				for i, e := range bi2.EventStrs {
					fmt.Println("IMP", i, e)
				}
				return
			}
		}
		if bi == p.ExportAt-1 {
			raw, _, _ := n.Export()
			imp, err = NewNodeFromExport(raw, n.Height, n.Time)
			if err != nil {
				t.Fatal(err)
			}
		}
	}
}
