package c19

import (
	"encoding/json"
	"fmt"
	"os"
	"testing"
)

// TestDebugLogs (VERIF_REPLAY_FILE) prints code and log of every transaction of a saved plan.
func TestDebugLogs(t *testing.T) {
	f := os.Getenv("VERIF_REPLAY_FILE")
	if f == "" {
		t.Skip()
	}
	bz, _ := os.ReadFile(f)
	var p Plan
	_ = json.Unmarshal(bz, &p)
	n := NewNode(Bootstrap(p.Cfg))
	defer n.Close()
	for bi, blk := range p.Blocks {
		br, err := n.RunBlock(blk.Dt, blk.Txs, n.Votes())
		if err != nil {
			t.Fatal(err)
		}
		for i, b := range br.Tx {
			r := DecodeTxResult(b)
			l := r.Log
			if len(l) > 700 {
				l = l[:700]
			}
			fmt.Printf("block %d tx %d %s code=%d gas=%d log=%s\n", bi, i, blk.Kinds[i], r.Code, r.GasUsed, l)
		}
	}
}
