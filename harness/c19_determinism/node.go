// Package c19 drives several independent instances of the real osmosis application through the ABCI
// surface (InitChain, FinalizeBlock with signed transactions, Commit, ExportAppStateAndValidators) and
// compares what a peer could observe: transaction results and events, block events, the committed app hash,
// and the exported genesis per module.
package c19

import (
	"bytes"
	"crypto/sha256"
	"encoding/hex"
	"encoding/json"
	"fmt"
	wasmvm "github.com/CosmWasm/wasmvm/v2"
	"io/fs"
	"os"
	"path/filepath"
	"sort"
	"time"
	"verif/harness/chain"

	abci "github.com/cometbft/cometbft/abci/types"
	cmtproto "github.com/cometbft/cometbft/proto/tendermint/types"
	cosmosdb "github.com/cosmos/cosmos-db"
	"github.com/cosmos/cosmos-sdk/client"
	"github.com/cosmos/cosmos-sdk/crypto/keys/secp256k1"
	sdk "github.com/cosmos/cosmos-sdk/types"
	"github.com/cosmos/cosmos-sdk/types/tx/signing"
	authsigning "github.com/cosmos/cosmos-sdk/x/auth/signing"
	"github.com/cosmos/cosmos-sdk/x/bank/testutil"
	slashingtypes "github.com/cosmos/cosmos-sdk/x/slashing/types"

	"github.com/osmosis-labs/osmosis/v31/app"
)

const ChainID = "osmosis-1"

// Base is the block time of the first block of every history.
var Base = time.Date(2030, 1, 1, 0, 0, 0, 0, time.UTC)

const NActors = 5

var actorKeys []*secp256k1.PrivKey

func init() {
	for i := 0; i < NActors; i++ {
		actorKeys = append(actorKeys, secp256k1.GenPrivKeyFromSecret([]byte(fmt.Sprintf("c19-actor-%d", i))))
	}
}

func Actor(i int) sdk.AccAddress { return sdk.AccAddress(actorKeys[i].PubKey().Address()) }

// Node is one application instance.
type Node struct {
	App     *app.OsmosisApp
	Height  int64 // last committed height (0 before the first block)
	Time    time.Time
	dir     string
	db      cosmosdb.DB
	oldDirs []string
	vm      *wasmvm.VM
}

// BlockResult is everything a peer can observe about one block.
type BlockResult struct {
	Tx        [][]byte // deterministic marshalling of every ExecTxResult
	Events    []byte
	EventStrs []string
	Updates   []byte
	AppHash   []byte
}

// StartHeight is the initial height of every generated chain.
const StartHeight = 110

// NewNode builds a fresh application on an in-memory database and runs InitChain on the process-wide default
// genesis; bootstrap (faucet funding, parameters) is applied to the genesis block state before the first block.
func NewNode(bootstrap func(n *Node, ctx sdk.Context)) *Node {
	dir, err := os.MkdirTemp("", "c19-node")
	if err != nil {
		panic(err)
	}
	_ = os.MkdirAll(dir+"/data", 0o755)
	db := cosmosdb.NewMemDB()
	a, vm := newApp(dir, db)
	// the chain starts at height StartHeight: generated histories (a handful of set-up blocks and 4-24 more) then cross a
	// multiple of 120, the cadence at which the lockup end blocker sweeps matured locks
	n := &Node{App: a, vm: vm, dir: dir, db: db, Time: Base, Height: StartHeight - 1}
	if err := initChain(n.App, defaultGenesis(n.App), StartHeight, Base); err != nil {
		panic(err)
	}
	ctx := n.App.BaseApp.NewContextLegacy(false, cmtproto.Header{Height: StartHeight, ChainID: ChainID, Time: Base})
	// the default genesis has no signing info for its validator; the slashing begin blocker needs it
	vals, _ := n.App.StakingKeeper.GetAllValidators(ctx)
	for _, v := range vals {
		ca, _ := v.GetConsAddr()
		_ = n.App.SlashingKeeper.SetValidatorSigningInfo(ctx, ca, slashingtypes.NewValidatorSigningInfo(ca, 1, time.Unix(0, 0), false, 0))
	}
	if bootstrap != nil {
		bootstrap(n, ctx)
	}
	// commit the genesis block so that the committed state is readable
	if _, err := n.RunBlock(0, nil, nil); err != nil {
		panic(err)
	}
	if bootstrap != nil {
		SetupBlock(n)
	}
	return n
}

// NewNodeFromExport starts a node from the exported state of another one.
func NewNodeFromExport(appState []byte, height int64, t time.Time) (*Node, error) {
	dir, err := os.MkdirTemp("", "c19-node")
	if err != nil {
		panic(err)
	}
	_ = os.MkdirAll(dir+"/data", 0o755)
	db := cosmosdb.NewMemDB()
	a, vm := newApp(dir, db)
	n := &Node{App: a, vm: vm, dir: dir, db: db, Time: t, Height: height}
	if err = initChain(n.App, appState, height+1, t); err != nil {
		n.Close()
		return nil, err
	}
	return n, nil
}

func (n *Node) Close() {
	if n.App != nil {
		chain.CloseStores(n.App)
		_ = n.App.Close()
	}
	if n.vm != nil {
		n.vm.Cleanup()
		n.vm = nil
	}
	for _, d := range n.oldDirs {
		os.RemoveAll(d)
	}
	if n.dir != "" {
		os.RemoveAll(n.dir)
	}
}

// Restart models a crash after the last commit: the application object is dropped with everything it holds in
// memory and a new one is built on the same database.
func (n *Node) Restart() {
	// a new home directory: the wasm VMs of the dropped instance keep their directory lock (it holds no state here)
	dir, err := os.MkdirTemp("", "c19-node")
	if err != nil {
		panic(err)
	}
	_ = os.MkdirAll(dir+"/data", 0o755)
	// the uploaded contract code lives in files beside the database, as on a real node's disk: it survives the crash
	copyTree(n.dir, dir, "exclusive.lock")
	n.oldDirs = append(n.oldDirs, n.dir)
	n.dir = dir
	// the dropped process's VM and background goroutines go with it
	chain.CloseStores(n.App)
	if n.vm != nil {
		n.vm.Cleanup()
	}
	n.App, n.vm = newApp(n.dir, n.db)
	if got := n.App.LastBlockHeight(); got != n.Height {
		panic(fmt.Sprintf("restart: application reloaded height %d, expected %d", got, n.Height))
	}
}

// Noise runs transactions the way a live node does outside block execution - mempool admission (CheckTx), gas
// estimation (Simulate, which executes the messages on a discarded branch) and proposal validation
// (ProcessProposal) - and ignores every answer: none of it may influence what the next block produces.
func (n *Node) Noise(dt time.Duration, blockTxs, ghostTxs [][]byte) {
	defer func() { _ = recover() }()
	for _, tx := range append(append([][]byte{}, ghostTxs...), blockTxs...) {
		func() {
			defer func() { _ = recover() }()
			_, _, _ = n.App.BaseApp.Simulate(tx)
		}()
		func() {
			defer func() { _ = recover() }()
			_, _ = n.App.BaseApp.CheckTx(&abci.RequestCheckTx{Tx: tx, Type: abci.CheckTxType_New})
		}()
	}
	func() {
		defer func() { _ = recover() }()
		_, _ = n.App.ProcessProposal(&abci.RequestProcessProposal{Height: n.Height + 1, Time: n.Time.Add(dt), Txs: blockTxs})
	}()
}

// Fund is the faucet used by bootstraps.
func (n *Node) Fund(ctx sdk.Context, addr sdk.AccAddress, coins sdk.Coins) {
	if err := testutil.FundAccount(ctx, n.App.BankKeeper, addr, coins); err != nil {
		panic(err)
	}
}

// ReadCtx is a context over the last committed state (reads only).
func (n *Node) ReadCtx() sdk.Context {
	return n.App.BaseApp.NewContextLegacy(true, cmtproto.Header{Height: n.Height, ChainID: ChainID, Time: n.Time})
}

// RunBlock executes one block and commits it.
func (n *Node) RunBlock(dt time.Duration, txs [][]byte, votes []abci.VoteInfo) (BlockResult, error) {
	n.Height++
	n.Time = n.Time.Add(dt)
	res, err := n.App.FinalizeBlock(&abci.RequestFinalizeBlock{Height: n.Height, Time: n.Time, Txs: txs, DecidedLastCommit: abci.CommitInfo{Votes: votes}})
	if err != nil {
		return BlockResult{}, fmt.Errorf("FinalizeBlock(%d): %w", n.Height, err)
	}
	if _, err := n.App.Commit(); err != nil {
		return BlockResult{}, fmt.Errorf("Commit(%d): %w", n.Height, err)
	}
	br := BlockResult{AppHash: res.AppHash}
	for _, r := range res.TxResults {
		b, _ := r.Marshal()
		br.Tx = append(br.Tx, b)
	}
	for _, e := range res.Events {
		b, _ := e.Marshal()
		br.Events = append(br.Events, b...)
		br.Events = append(br.Events, 0xff)
		s := e.Type + "{"
		for i, a := range e.Attributes {
			if i > 0 {
				s += ","
			}
			s += a.Key + "=" + a.Value
		}
		br.EventStrs = append(br.EventStrs, s+"}")
	}
	for _, u := range res.ValidatorUpdates {
		b, _ := u.Marshal()
		br.Updates = append(br.Updates, b...)
	}
	return br, nil
}

// DecodeTxResult is for messages.
func DecodeTxResult(b []byte) *abci.ExecTxResult {
	var r abci.ExecTxResult
	_ = r.Unmarshal(b)
	return &r
}

// SignTx builds a single-signer transaction of actor a with the account number and sequence read from n.
func (n *Node) SignTx(a int, seqOffset uint64, gas uint64, fee sdk.Coins, msgs ...sdk.Msg) ([]byte, error) {
	txCfg := n.App.GetTxConfig()
	priv := actorKeys[a]
	acc := n.App.AccountKeeper.GetAccount(n.ReadCtx(), Actor(a))
	if acc == nil {
		return nil, fmt.Errorf("actor %d has no account", a)
	}
	return signTx(txCfg, priv, acc.GetAccountNumber(), acc.GetSequence()+seqOffset, gas, fee, msgs...)
}

func signTx(txCfg client.TxConfig, priv *secp256k1.PrivKey, accNum, seq uint64, gas uint64, fee sdk.Coins, msgs ...sdk.Msg) ([]byte, error) {
	b := txCfg.NewTxBuilder()
	if err := b.SetMsgs(msgs...); err != nil {
		return nil, err
	}
	b.SetGasLimit(gas)
	b.SetFeeAmount(fee)
	mode := signing.SignMode_SIGN_MODE_DIRECT
	sig := signing.SignatureV2{PubKey: priv.PubKey(), Data: &signing.SingleSignatureData{SignMode: mode}, Sequence: seq}
	if err := b.SetSignatures(sig); err != nil {
		return nil, err
	}
	sd := authsigning.SignerData{ChainID: ChainID, AccountNumber: accNum, Sequence: seq, PubKey: priv.PubKey(), Address: sdk.AccAddress(priv.PubKey().Address()).String()}
	signBytes, err := authsigning.GetSignBytesAdapter(sdk.Context{}.Context(), txCfg.SignModeHandler(), mode, sd, b.GetTx())
	if err != nil {
		return nil, err
	}
	s, err := priv.Sign(signBytes)
	if err != nil {
		return nil, err
	}
	sig.Data = &signing.SingleSignatureData{SignMode: mode, Signature: s}
	if err := b.SetSignatures(sig); err != nil {
		return nil, err
	}
	return txCfg.TxEncoder()(b.GetTx())
}

// Export returns the exported genesis split per module (canonical JSON bytes).
func (n *Node) Export() (raw []byte, perModule map[string][]byte, err error) {
	defer func() {
		if r := recover(); r != nil {
			err = fmt.Errorf("export panicked: %v", r)
		}
	}()
	// the ibc 08-wasm light-client module keeps its store key in a process-wide variable (the last application
	// built in the process wins), so it cannot be exported when several applications live in one process; it
	// holds no state in any generated history
	mm := n.App.ModuleManager()
	var mods []string
	for _, name := range mm.ModuleNames() {
		if name != "08-wasm" {
			mods = append(mods, name)
		}
	}
	ex, err := n.App.ExportAppStateAndValidators(false, nil, mods)
	if err != nil {
		return nil, nil, err
	}
	var m map[string]json.RawMessage
	if err := json.Unmarshal(ex.AppState, &m); err != nil {
		return nil, nil, err
	}
	perModule = map[string][]byte{}
	for k, v := range m {
		var buf bytes.Buffer
		if err := json.Compact(&buf, v); err != nil {
			return nil, nil, err
		}
		perModule[k] = buf.Bytes()
	}
	return ex.AppState, perModule, nil
}

// StoreDigests hashes every KV store of the committed state.
func (n *Node) StoreDigests() map[string]string {
	out := map[string]string{}
	ctx := n.ReadCtx()
	for name, key := range n.App.GetKVStoreKey() {
		h := sha256.New()
		it := ctx.KVStore(key).Iterator(nil, nil)
		for ; it.Valid(); it.Next() {
			h.Write(it.Key())
			h.Write([]byte{0})
			h.Write(it.Value())
			h.Write([]byte{1})
		}
		it.Close()
		out[name] = hex.EncodeToString(h.Sum(nil)[:8])
	}
	return out
}

func DiffDigests(a, b map[string]string) []string {
	var d []string
	for k, v := range a {
		if b[k] != v {
			d = append(d, k)
		}
	}
	sort.Strings(d)
	return d
}

// copyTree copies every regular file under src to the same relative path under dst, except files named skip.
func copyTree(src, dst, skip string) {
	_ = filepath.WalkDir(src, func(p string, d fs.DirEntry, err error) error {
		if err != nil {
			return nil
		}
		rel, _ := filepath.Rel(src, p)
		if d.IsDir() {
			_ = os.MkdirAll(filepath.Join(dst, rel), 0o755)
			return nil
		}
		if d.Name() == skip || !d.Type().IsRegular() {
			return nil
		}
		bz, err := os.ReadFile(p)
		if err != nil {
			return nil
		}
		_ = os.WriteFile(filepath.Join(dst, rel), bz, 0o644)
		return nil
	})
}
