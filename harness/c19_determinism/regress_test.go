package c19

import (
	"bytes"
	"fmt"
	"testing"
	"time"

	"github.com/cosmos/cosmos-sdk/crypto/keys/ed25519"
	sdk "github.com/cosmos/cosmos-sdk/types"
	banktypes "github.com/cosmos/cosmos-sdk/x/bank/types"
	stakingtypes "github.com/cosmos/cosmos-sdk/x/staking/types"

	"github.com/osmosis-labs/osmosis/osmomath"
	gammtypes "github.com/osmosis-labs/osmosis/v31/x/gamm/types"
	pmtypes "github.com/osmosis-labs/osmosis/v31/x/poolmanager/types"
	valsettypes "github.com/osmosis-labs/osmosis/v31/x/valset-pref/types"
)

// TestRegress_C19_import_with_lock: a state that holds period locks must be importable with default options
// (fixed: crisis asserted the lockup invariant before lockup had loaded its genesis).
func TestRegress_C19_import_with_lock(t *testing.T) {
	n := NewNode(Bootstrap(defaultCfg()))
	defer n.Close()
	if len(n.App.LockupKeeper.GetAccountPeriodLocks(n.ReadCtx(), Actor(0))) == 0 {
		t.Fatal("bootstrap created no lock")
	}
	raw, _, err := n.Export()
	if err != nil {
		t.Fatal(err)
	}
	var imp *Node
	func() {
		defer func() {
			if r := recover(); r != nil {
				t.Fatalf("InitChain on the exported state panicked: %v", r)
			}
		}()
		imp, err = NewNodeFromExport(raw, n.Height, n.Time)
	}()
	if err != nil {
		t.Fatalf("import failed: %v", err)
	}
	imp.Close()
}

// TestRegress_C19_epoch_start_height: an imported node keeps the start height of the running epochs and does not
// rerun the superfluid epoch-start logic in its first block (fixed in x/epochs AddEpochInfo).
func TestRegress_C19_epoch_start_height(t *testing.T) {
	n := NewNode(Bootstrap(defaultCfg()))
	defer n.Close()
	// day epoch ends here; multipliers are computed from the pool as it is now
	if _, err := n.RunBlock(24*time.Hour+time.Second, nil, n.Votes()); err != nil {
		t.Fatal(err)
	}
	// move the price of the superfluid pool (pool 2) after the epoch start
	mustTx(t, n, 5*time.Second, 1, &pmtypes.MsgSwapExactAmountIn{Sender: Actor(1).String(), Routes: []pmtypes.SwapAmountInRoute{{PoolId: 2, TokenOutDenom: "uosmo"}}, TokenIn: coin(Bond, 5_000_000_000), TokenOutMinAmount: osmomath.OneInt()})
	imp := exportImport(t, n)
	defer imp.Close()
	for _, x := range []*Node{n, imp} {
		if _, err := x.RunBlock(5*time.Second, nil, nil); err != nil {
			t.Fatal(err)
		}
	}
	_, pa, _ := n.Export()
	_, pb, err := imp.Export()
	if err != nil {
		t.Fatal(err)
	}
	for _, m := range []string{"epochs", "superfluid"} {
		if !bytes.Equal(pa[m], pb[m]) {
			t.Fatalf("module %s differs on the imported node\n%s", m, diffStr(string(pa[m]), string(pb[m])))
		}
	}
}

// TestRegress_C19_protorev_snapshot: profits exist, the accounting snapshot is empty (accounting from a height at which
// there was no profit); the imported node must report the same cyclic-arb revenue (fixed in x/protorev InitGenesis).
func TestRegress_C19_protorev_snapshot(t *testing.T) {
	boot := Bootstrap(defaultCfg())
	n := NewNode(func(n *Node, ctx sdk.Context) {
		boot(n, ctx)
		if err := n.App.ProtoRevKeeper.UpdateProfitsByDenom(ctx, "uosmo", osmomath.NewInt(8962388)); err != nil {
			panic(err)
		}
	})
	defer n.Close()
	imp := exportImport(t, n)
	defer imp.Close()
	for _, x := range []*Node{n, imp} {
		if _, err := x.RunBlock(5*time.Second, nil, nil); err != nil {
			t.Fatal(err)
		}
	}
	a := n.App.ProtoRevKeeper.GetAllProtocolRevenue(n.ReadCtx()).CyclicArbTracker
	b := imp.App.ProtoRevKeeper.GetAllProtocolRevenue(imp.ReadCtx()).CyclicArbTracker
	if sdk.Coins(a.CyclicArb).String() != sdk.Coins(b.CyclicArb).String() || a.HeightAccountingStartsFrom != b.HeightAccountingStartsFrom {
		t.Fatalf("cyclic-arb revenue: source %v since %d, imported %v since %d", a.CyclicArb, a.HeightAccountingStartsFrom, b.CyclicArb, b.HeightAccountingStartsFrom)
	}
	if len(a.CyclicArb) == 0 {
		t.Fatal("harness: source reports no cyclic-arb revenue")
	}
}

// TestRegress_C19_valset_zero_share_delegation: MsgDelegateToValidatorSet of an amount whose share for one validator
// truncates to zero left a delegation record with zero shares; the staking invariant asserted by InitChain then rejected
// every export of that state (fixed in x/valset-pref DelegateToValidatorSet: such a validator is skipped).
func TestRegress_C19_valset_zero_share_delegation(t *testing.T) {
	n := NewNode(Bootstrap(defaultCfg()))
	defer n.Close()
	pk := ed25519.GenPrivKeyFromSecret([]byte("c19-val-regress")).PubKey()
	cv, err := stakingtypes.NewMsgCreateValidator(sdk.ValAddress(Actor(0)).String(), pk, coin(Bond, 5_000_000),
		stakingtypes.NewDescription("v", "", "", "", ""), stakingtypes.NewCommissionRates(osmomath.NewDecWithPrec(5, 2), osmomath.NewDecWithPrec(20, 2), osmomath.NewDecWithPrec(1, 2)), osmomath.OneInt())
	if err != nil {
		t.Fatal(err)
	}
	mustTx(t, n, 5*time.Second, 0, cv)
	vals := n.view().vals
	if len(vals) < 2 {
		t.Fatalf("harness: %d validators", len(vals))
	}
	mustTx(t, n, 5*time.Second, 1, valsettypes.NewMsgSetValidatorSetPreference(Actor(1), []valsettypes.ValidatorPreference{{ValOperAddress: vals[0], Weight: osmomath.NewDecWithPrec(5, 1)}, {ValOperAddress: vals[1], Weight: osmomath.NewDecWithPrec(5, 1)}}))
	mustTx(t, n, 5*time.Second, 1, valsettypes.NewMsgDelegateToValidatorSet(Actor(1), coin(Bond, 1)))
	dels, _ := n.App.StakingKeeper.GetAllDelegations(n.ReadCtx())
	for _, d := range dels {
		if !d.Shares.IsPositive() {
			t.Fatalf("delegation with non-positive shares after MsgDelegateToValidatorSet(1): %v", d)
		}
	}
	var imp *Node
	func() {
		defer func() {
			if r := recover(); r != nil {
				t.Fatalf("InitChain on the exported state panicked: %v", r)
			}
		}()
		imp = exportImport(t, n)
	}()
	imp.Close()
}

// TestRegress_C19_scenario_gauge_reference_order: a fixed history in which a gauge reference list is reordered by a
// finishing gauge (three gauges with one start time paying over 1, 3 and 3 epochs) before the export; the node
// initialised from the export must distribute in the same order in the following epoch (seed c19d).
func TestRegress_C19_scenario_gauge_reference_order(t *testing.T) {
	cfg := defaultCfg()
	cfg.BootGauges = [3]int{1, 3, 3}
	leader := NewNode(Bootstrap(cfg))
	defer leader.Close()
	p := Plan{Cfg: cfg, ExportAt: 1}
	var want []BlockResult
	reordered := false
	for i := 0; i < 3; i++ {
		blk := Block{Dt: 24*time.Hour + time.Second, Votes: leader.Votes()}
		br, err := leader.RunBlock(blk.Dt, nil, blk.Votes)
		if err != nil {
			t.Fatal(err)
		}
		p.Blocks = append(p.Blocks, blk)
		want = append(want, br)
		if i == 0 {
			last := uint64(0)
			for _, g := range leader.App.IncentivesKeeper.GetActiveGauges(leader.ReadCtx()) {
				if g.Id < last {
					reordered = true
				}
				last = g.Id
			}
		}
	}
	if !reordered {
		t.Fatalf("harness: the scenario no longer reorders the gauge reference list before the export")
	}
	if out := replicate(p, want, 2); out.msg != "" {
		t.Fatalf("%s", out.msg)
	}
}

// TestRegress_C19_scenario_valset_without_preference: a fixed history in which a delegator with three uneven staking
// delegations and no stored validator-set preference repeatedly sends MsgDelegateToValidatorSet with amounts that do not
// split evenly (the module derives the weights from the delegations; the last entry of the derived list receives the
// truncation remainder). Every replica must end with the same delegations (seed c19e: list built by ranging over a map).
func TestRegress_C19_scenario_valset_without_preference(t *testing.T) {
	cfg := defaultCfg()
	leader := NewNode(Bootstrap(cfg))
	defer leader.Close()
	p := Plan{Cfg: cfg}
	var want []BlockResult
	run := func(a int, msg sdk.Msg) {
		tx, err := leader.SignTx(a, 0, 6_000_000, stdFee(), msg)
		if err != nil {
			t.Fatal(err)
		}
		blk := Block{Dt: 5 * time.Second, Txs: [][]byte{tx}, Kinds: []string{fmt.Sprintf("a%d:%T", a, msg)}, Votes: leader.Votes()}
		br, err := leader.RunBlock(blk.Dt, blk.Txs, blk.Votes)
		if err != nil {
			t.Fatal(err)
		}
		if r := DecodeTxResult(br.Tx[0]); r.Code != 0 {
			t.Fatalf("harness: %T rejected: %s", msg, r.Log)
		}
		p.Blocks = append(p.Blocks, blk)
		want = append(want, br)
	}
	for _, a := range []int{0, 2, 3} {
		pk := ed25519.GenPrivKeyFromSecret([]byte(fmt.Sprintf("c19-val-scenario-%d", a))).PubKey()
		cv, err := stakingtypes.NewMsgCreateValidator(sdk.ValAddress(Actor(a)).String(), pk, coin(Bond, 5_000_000+int64(a)),
			stakingtypes.NewDescription(fmt.Sprintf("v%d", a), "", "", "", ""), stakingtypes.NewCommissionRates(osmomath.NewDecWithPrec(5, 2), osmomath.NewDecWithPrec(20, 2), osmomath.NewDecWithPrec(1, 2)), osmomath.OneInt())
		if err != nil {
			t.Fatal(err)
		}
		run(a, cv)
	}
	vals := leader.view().vals
	if len(vals) < 4 {
		t.Fatalf("harness: %d validators", len(vals))
	}
	for i, v := range vals {
		run(1, &stakingtypes.MsgDelegate{DelegatorAddress: Actor(1).String(), ValidatorAddress: v, Amount: coin(Bond, 1_000_003+int64(i)*777_777)})
	}
	for i := 0; i < 6; i++ {
		run(1, valsettypes.NewMsgDelegateToValidatorSet(Actor(1), coin(Bond, 7_777_777+int64(i))))
	}
	if out := replicate(p, want, 4); out.msg != "" {
		t.Fatalf("%s", out.msg)
	}
}

// TestRegress_C19_scenario_taker_fee_share_after_restart: governance-set taker-fee share agreements exist since genesis;
// every replica executes the same swaps of a denom with an agreement, sent both as gamm and as poolmanager messages, and the
// noisy replicas rebuild the application from its database before them. Every replica must skim the same amounts
// (the agreements live in an in-memory cache of the pool manager that a restarted node refills in its first BeginBlock).
func TestRegress_C19_scenario_taker_fee_share_after_restart(t *testing.T) {
	cfg := defaultCfg()
	cfg.TakerFee = "0.01"
	cfg.Alloyed = true
	leader := NewNode(Bootstrap(cfg))
	defer leader.Close()
	p := Plan{Cfg: cfg, Restarts: []int{1}}
	var want []BlockResult
	run := func(a int, msg sdk.Msg) {
		tx, err := leader.SignTx(a, 0, 6_000_000, stdFee(), msg)
		if err != nil {
			t.Fatal(err)
		}
		blk := Block{Dt: 5 * time.Second, Txs: [][]byte{tx}, Kinds: []string{fmt.Sprintf("a%d:%T", a, msg)}, Votes: leader.Votes()}
		br, err := leader.RunBlock(blk.Dt, blk.Txs, blk.Votes)
		if err != nil {
			t.Fatal(err)
		}
		if r := DecodeTxResult(br.Tx[0]); r.Code != 0 {
			t.Fatalf("harness: %T rejected: %s", msg, r.Log)
		}
		p.Blocks = append(p.Blocks, blk)
		want = append(want, br)
	}
	run(0, &banktypes.MsgSend{FromAddress: Actor(0).String(), ToAddress: Actor(1).String(), Amount: sdk.NewCoins(coin("uion", 1000))})
	run(1, &gammtypes.MsgSwapExactAmountIn{Sender: Actor(1).String(), Routes: []pmtypes.SwapAmountInRoute{{PoolId: 1, TokenOutDenom: Bond}}, TokenIn: coin("uion", 50_000_000), TokenOutMinAmount: osmomath.OneInt()})
	run(2, &pmtypes.MsgSwapExactAmountIn{Sender: Actor(2).String(), Routes: []pmtypes.SwapAmountInRoute{{PoolId: 1, TokenOutDenom: Bond}}, TokenIn: coin("uion", 70_000_000), TokenOutMinAmount: osmomath.OneInt()})
	acc, err := leader.App.PoolManagerKeeper.GetAllTakerFeeShareAccumulators(leader.ReadCtx())
	if err != nil || len(acc) == 0 {
		t.Fatalf("harness: the leader skimmed nothing (%v, %v)", acc, err)
	}
	if out := replicate(p, want, 2); out.msg != "" {
		t.Fatalf("%s", out.msg)
	}
}

// TestRegress_C19_mint_provisions_after_reduction: the emission has been reduced twice (period 1 epoch, factor 2/3) when
// the state is exported; the node initialised from the export must report the reduced provisions and mint the same
// amounts as its source at the following epochs (fixed: InitGenesis reset the provisions to the genesis parameter).
func TestRegress_C19_mint_provisions_after_reduction(t *testing.T) {
	cfg := defaultCfg()
	cfg.MintReductionPeriod = 1
	leader := NewNode(Bootstrap(cfg))
	defer leader.Close()
	p := Plan{Cfg: cfg, ExportAt: 3}
	var want []BlockResult
	for i := 0; i < 5; i++ {
		blk := Block{Dt: 24*time.Hour + time.Second, Votes: leader.Votes()}
		br, err := leader.RunBlock(blk.Dt, nil, blk.Votes)
		if err != nil {
			t.Fatal(err)
		}
		p.Blocks = append(p.Blocks, blk)
		want = append(want, br)
	}
	got := leader.App.MintKeeper.GetMinter(leader.ReadCtx()).EpochProvisions
	if !got.LT(leader.App.MintKeeper.GetParams(leader.ReadCtx()).GenesisEpochProvisions) {
		t.Fatalf("harness: the scenario no longer reduces the provisions before the export (provisions %s)", got)
	}
	if out := replicate(p, want, 2); out.msg != "" {
		t.Fatalf("%s", out.msg)
	}
}
