package c19

import (
	"bytes"
	"testing"
	"time"

	sdk "github.com/cosmos/cosmos-sdk/types"

	"github.com/osmosis-labs/osmosis/osmomath"
	pmtypes "github.com/osmosis-labs/osmosis/v31/x/poolmanager/types"
)

// TestRegress_C19_import_with_lock: a state that holds period locks must be importable with default options
// (fixed: crisis asserted the lockup invariant before lockup had loaded its genesis).
func TestRegress_C19_import_with_lock(t *testing.T) {
	n := NewNode(Bootstrap(defaultCfg()))
	defer n.Close()
	if len(n.App.LockupKeeper.GetAccountPeriodLocks(n.ReadCtx(), Actor(0))) == 0 {
		t.Fatal("bootstrap created no lock")
	}
	raw, _, err := n.Export()
	if err != nil {
		t.Fatal(err)
	}
	var imp *Node
	func() {
		defer func() {
			if r := recover(); r != nil {
				t.Fatalf("InitChain on the exported state panicked: %v", r)
			}
		}()
		imp, err = NewNodeFromExport(raw, n.Height, n.Time)
	}()
	if err != nil {
		t.Fatalf("import failed: %v", err)
	}
	imp.Close()
}

// TestRegress_C19_epoch_start_height: an imported node keeps the start height of the running epochs and does not
// rerun the superfluid epoch-start logic in its first block (fixed in x/epochs AddEpochInfo).
func TestRegress_C19_epoch_start_height(t *testing.T) {
	n := NewNode(Bootstrap(defaultCfg()))
	defer n.Close()
	// day epoch ends here; multipliers are computed from the pool as it is now
	if _, err := n.RunBlock(24*time.Hour+time.Second, nil, n.Votes()); err != nil {
		t.Fatal(err)
	}
	// move the price of the superfluid pool (pool 2) after the epoch start
	mustTx(t, n, 5*time.Second, 1, &pmtypes.MsgSwapExactAmountIn{Sender: Actor(1).String(), Routes: []pmtypes.SwapAmountInRoute{{PoolId: 2, TokenOutDenom: "uosmo"}}, TokenIn: coin(Bond, 5_000_000_000), TokenOutMinAmount: osmomath.OneInt()})
	imp := exportImport(t, n)
	defer imp.Close()
	for _, x := range []*Node{n, imp} {
		if _, err := x.RunBlock(5*time.Second, nil, nil); err != nil {
			t.Fatal(err)
		}
	}
	_, pa, _ := n.Export()
	_, pb, err := imp.Export()
	if err != nil {
		t.Fatal(err)
	}
	for _, m := range []string{"epochs", "superfluid"} {
		if !bytes.Equal(pa[m], pb[m]) {
			t.Fatalf("module %s differs on the imported node\n%s", m, diffStr(string(pa[m]), string(pb[m])))
		}
	}
}

// TestRegress_C19_protorev_snapshot: profits exist, the accounting snapshot is empty (accounting from a height at which
// there was no profit); the imported node must report the same cyclic-arb revenue (fixed in x/protorev InitGenesis).
func TestRegress_C19_protorev_snapshot(t *testing.T) {
	boot := Bootstrap(defaultCfg())
	n := NewNode(func(n *Node, ctx sdk.Context) {
		boot(n, ctx)
		if err := n.App.ProtoRevKeeper.UpdateProfitsByDenom(ctx, "uosmo", osmomath.NewInt(8962388)); err != nil {
			panic(err)
		}
	})
	defer n.Close()
	imp := exportImport(t, n)
	defer imp.Close()
	for _, x := range []*Node{n, imp} {
		if _, err := x.RunBlock(5*time.Second, nil, nil); err != nil {
			t.Fatal(err)
		}
	}
	a := n.App.ProtoRevKeeper.GetAllProtocolRevenue(n.ReadCtx()).CyclicArbTracker
	b := imp.App.ProtoRevKeeper.GetAllProtocolRevenue(imp.ReadCtx()).CyclicArbTracker
	if sdk.Coins(a.CyclicArb).String() != sdk.Coins(b.CyclicArb).String() || a.HeightAccountingStartsFrom != b.HeightAccountingStartsFrom {
		t.Fatalf("cyclic-arb revenue: source %v since %d, imported %v since %d", a.CyclicArb, a.HeightAccountingStartsFrom, b.CyclicArb, b.HeightAccountingStartsFrom)
	}
	if len(a.CyclicArb) == 0 {
		t.Fatal("harness: source reports no cyclic-arb revenue")
	}
}
