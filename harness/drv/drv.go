// Package drv is the shared glue between the rapid properties and the /verif/check driver:
// tier/seed handling, counters, distinct non-trivial case hashing, sample capture, stats output.
package drv

import (
	"encoding/json"
	"flag"
	"fmt"
	"hash/fnv"
	"os"
	"sort"
	"strconv"
	"sync"
	"testing"

	"pgregory.net/rapid"
)

const maxHashes = 1 << 20

// Cfg configures one rapid property.
type Cfg struct {
	Name     string // sub-check name, unique in the package
	Rule     string // how cases are generated and what makes one non-trivial
	Quick    int    // rapid.checks in the quick tier (per shard)
	Thorough int    // rapid.checks in the thorough tier (per shard)
	Steps    int    // rapid.steps (0 = leave default)
	TSteps   int    // rapid.steps in thorough tier (0 = Steps)
}

type TestStats struct {
	Name     string           `json:"name"`
	Rule     string           `json:"rule"`
	Evals    int64            `json:"evals"`
	Hashes   []uint64         `json:"hashes"`
	NTTotal  int64            `json:"nt_total"`
	Classes  map[string]int64 `json:"classes"`
	Excluded map[string]int64 `json:"excluded"`
	Samples  []string         `json:"samples"`
	Failed   bool             `json:"failed"`
	Checks   int              `json:"checks_requested"`
	Exh      bool             `json:"exhaustive"`
	BulkDist int64            `json:"bulk_distinct"` // distinct-by-construction cases of enumerations (not hashed)
	hset     map[uint64]struct{}
}

var (
	mu    sync.Mutex
	tests = map[string]*TestStats{}
	order []string
)

// Tier returns "quick" or "thorough".
func Tier() string {
	if os.Getenv("VERIF_TIER") == "thorough" {
		return "thorough"
	}
	return "quick"
}

func Thorough() bool { return Tier() == "thorough" }

// Shard returns (index, count) of this process among the driver's shard processes.
func Shard() (int, int) {
	i, _ := strconv.Atoi(os.Getenv("VERIF_SHARD"))
	n, _ := strconv.Atoi(os.Getenv("VERIF_SHARDS"))
	if n <= 0 {
		n = 1
	}
	return i, n
}

// Seed returns the VERIF_SEED value.
func Seed() int {
	s, _ := strconv.Atoi(os.Getenv("VERIF_SEED"))
	return s
}

// Scale lets the driver scale the number of cases (VERIF_SCALE, float, default 1).
func scale() float64 {
	f, err := strconv.ParseFloat(os.Getenv("VERIF_SCALE"), 64)
	if err != nil || f <= 0 {
		return 1
	}
	return f
}

func get(name, rule string) *TestStats {
	mu.Lock()
	defer mu.Unlock()
	ts := tests[name]
	if ts == nil {
		ts = &TestStats{Name: name, Rule: rule, Classes: map[string]int64{}, Excluded: map[string]int64{}, hset: map[uint64]struct{}{}}
		tests[name] = ts
		order = append(order, name)
	}
	return ts
}

// Case collects what one generated case looked like.
type Case struct {
	ts      *TestStats
	classes []string
	excl    []string
	ntKey   string
	nt      bool
	sample  string
	ok      bool
}

func (c *Case) Class(name string)   { c.classes = append(c.classes, name) }
func (c *Case) Exclude(name string) { c.excl = append(c.excl, name) }

// NonTrivial marks the case non-trivial; key is its canonical text (hashed for distinctness).
func (c *Case) NonTrivial(key string) { c.nt = true; c.ntKey = key }
func (c *Case) IsNonTrivial() bool    { return c.nt }

// Sample sets the human-readable description of the case.
func (c *Case) Sample(s string) { c.sample = s }
func (c *Case) Samplef(f string, a ...any) {
	c.sample = fmt.Sprintf(f, a...)
}

func (c *Case) finish() {
	if !c.ok {
		return
	}
	ts := c.ts
	mu.Lock()
	defer mu.Unlock()
	ts.Evals++
	for _, k := range c.classes {
		ts.Classes[k]++
	}
	for _, k := range c.excl {
		ts.Excluded[k]++
	}
	if c.nt {
		ts.NTTotal++
		h := fnv.New64a()
		h.Write([]byte(c.ntKey))
		v := h.Sum64()
		if _, ok := ts.hset[v]; !ok && len(ts.hset) < maxHashes {
			ts.hset[v] = struct{}{}
			n := len(ts.hset)
			// keep first 3 and then the 10th, 100th, 1000th ... distinct non-trivial cases
			if c.sample != "" && len(ts.Samples) < 8 && (n <= 3 || n == 10 || n == 100 || n == 1000 || n == 10000 || n == 100000) {
				s := c.sample
				if len(s) > 1500 {
					s = s[:1500] + "…"
				}
				ts.Samples = append(ts.Samples, s)
			}
		}
	}
}

// Check runs prop under rapid with the tier's case count and records statistics.
func Check(t *testing.T, cfg Cfg, prop func(rt *rapid.T, c *Case)) {
	ts := get(cfg.Name, cfg.Rule)
	n := cfg.Quick
	steps := cfg.Steps
	if Thorough() {
		n = cfg.Thorough
		if cfg.TSteps > 0 {
			steps = cfg.TSteps
		}
	}
	n = int(float64(n) * scale())
	if n < 1 {
		n = 1
	}
	ts.Checks = n
	if os.Getenv("VERIF_REPLAY") == "" {
		must(flag.Set("rapid.checks", strconv.Itoa(n)))
	}
	if steps > 0 {
		must(flag.Set("rapid.steps", strconv.Itoa(steps)))
	}
	if s := os.Getenv("VERIF_RAPID_SEED"); s != "" {
		must(flag.Set("rapid.seed", s))
	}
	t.Cleanup(func() {
		if t.Failed() {
			mu.Lock()
			ts.Failed = true
			mu.Unlock()
		}
	})
	rapid.Check(t, func(rt *rapid.T) {
		c := &Case{ts: ts}
		defer c.finish()
		prop(rt, c)
		c.ok = true
	})
}

// Enumerate records an exhaustive (non-rapid) enumeration in the same statistics.
func Enumerate(t *testing.T, cfg Cfg, body func(c func() *Case)) {
	ts := get(cfg.Name, cfg.Rule)
	ts.Exh = true
	t.Cleanup(func() {
		if t.Failed() {
			mu.Lock()
			ts.Failed = true
			mu.Unlock()
		}
	})
	body(func() *Case { return &Case{ts: ts} })
}

// Bulk records n enumerated cases that are pairwise distinct by construction (e.g. consecutive ticks),
// nt of which are non-trivial by the rule, without hashing each of them.
func Bulk(name string, n, nt int64, sample string) {
	mu.Lock()
	defer mu.Unlock()
	ts := tests[name]
	ts.Evals += n
	ts.NTTotal += nt
	ts.BulkDist += nt
	if sample != "" && len(ts.Samples) < 8 {
		ts.Samples = append(ts.Samples, sample)
	}
}

// BulkClass adds n to a class counter of an enumeration.
func BulkClass(name, class string, n int64) {
	mu.Lock()
	defer mu.Unlock()
	tests[name].Classes[class] += n
}

// Done finishes a Case created through Enumerate.
func (c *Case) Done() { c.ok = true; c.finish() }

func must(err error) {
	if err != nil {
		panic(err)
	}
}

// Main is called from TestMain; it writes the statistics file named by VERIF_STATS.
func Main(m *testing.M) {
	code := m.Run()
	if p := os.Getenv("VERIF_STATS"); p != "" {
		mu.Lock()
		out := []*TestStats{}
		for _, n := range order {
			ts := tests[n]
			ts.Hashes = []uint64{}
			for h := range ts.hset {
				ts.Hashes = append(ts.Hashes, h)
			}
			sort.Slice(ts.Hashes, func(i, j int) bool { return ts.Hashes[i] < ts.Hashes[j] })
			out = append(out, ts)
		}
		mu.Unlock()
		b, _ := json.Marshal(map[string]any{"exit": code, "tests": out})
		_ = os.WriteFile(p, b, 0o644)
	}
	os.Exit(code)
}

// ---- known findings -------------------------------------------------------------------------

type finding struct {
	Property  string `json:"property"`
	ID        string `json:"id"`
	Status    string `json:"status"`
	Signature string `json:"signature"`
}

var (
	kfOnce sync.Once
	kf     map[string]string
)

// Known reports whether finding id is listed with status "known" in /verif/known_findings.json.
// Only then may a generator steer around its signature (counting the exclusion).
func Known(id string) bool {
	kfOnce.Do(func() {
		kf = map[string]string{}
		root := os.Getenv("VERIF_ROOT")
		if root == "" {
			root = "/verif"
		}
		b, err := os.ReadFile(root + "/known_findings.json")
		if err != nil {
			return
		}
		var f struct {
			Findings []finding `json:"findings"`
		}
		if json.Unmarshal(b, &f) == nil {
			for _, x := range f.Findings {
				kf[x.ID] = x.Status
			}
		}
	})
	return kf[id] == "known"
}

// Reproduced is printed by TestKnown_* reproducers when the listed finding still reproduces.
func Reproduced(t *testing.T, id string) { fmt.Printf("REPRODUCED %s\n", id) }
