package c14

import (
	"fmt"
	"math/big"
	"testing"

	"pgregory.net/rapid"

	"github.com/osmosis-labs/osmosis/osmomath"
	clmath "github.com/osmosis-labs/osmosis/v31/x/concentrated-liquidity/math"
	cltypes "github.com/osmosis-labs/osmosis/v31/x/concentrated-liquidity/types"

	"verif/harness/drv"
	"verif/harness/ref"
)

func TestMain(m *testing.M) { drv.Main(m) }

const (
	decade   = int64(9_000_000)
	minV2    = int64(-270_000_000) // extended low range (price 1e-30)
	minCurV2 = minV2 - 1           // documented twin of minV2
	minInit  = int64(-108_000_000) // launch / swap-reachable low end (price 1e-12)
	minCur   = minInit - 1
	maxTick  = int64(342_000_000) // price 1e38
)

var (
	P36 = ref.Pow10(36)
	P18 = ref.Pow10(18)
)

func floorDiv(a, b int64) int64 {
	q := a / b
	if (a%b != 0) && ((a < 0) != (b < 0)) {
		q--
	}
	return q
}

// refPrice returns price(t)*10^36 from the documented formula with floor division:
// q = floor(t/9e6), r = t - 9e6 q, price = 10^q (1 + r 1e-6).
func refPrice(t int64) *big.Int {
	if t == minCurV2 {
		t = minV2
	}
	q := floorDiv(t, decade)
	r := t - q*decade
	// (10^6 + r) * 10^(q-6) * 10^36 = (10^6 + r) * 10^(30+q)
	n := big.NewInt(1_000_000 + r)
	return n.Mul(n, ref.Pow10(int(30+q)))
}

func ceilSqrt(n *big.Int) *big.Int {
	r := new(big.Int).Sqrt(n)
	if new(big.Int).Mul(r, r).Cmp(n) < 0 {
		r.Add(r, ref.One)
	}
	return r
}

// refSqrt returns the documented sqrt price of tick t scaled by 10^36: the least 18-decimal value
// (launch range) or 36-decimal value (extended range) whose square is >= price(t).
func refSqrt(t int64) *big.Int {
	n := refPrice(t)
	if t >= minInit {
		return new(big.Int).Mul(ceilSqrt(n), P18)
	}
	return ceilSqrt(new(big.Int).Mul(n, P36))
}

func bd(v *big.Int) osmomath.BigDec {
	return osmomath.NewBigDecFromBigIntWithPrec(new(big.Int).Set(v), 36)
}

// refTickOf returns max{t in [minCur, maxTick] : refSqrt(t) <= s} or false if s < refSqrt(minCur).
func refTickOf(s *big.Int) (int64, bool) {
	lo, hi := minCur, maxTick
	if refSqrt(lo).Cmp(s) > 0 {
		return 0, false
	}
	for lo < hi {
		mid := lo + (hi-lo+1)/2
		if refSqrt(mid).Cmp(s) <= 0 {
			lo = mid
		} else {
			hi = mid - 1
		}
	}
	return lo, true
}

// checkTick verifies everything the property says about one tick; returns its sqrt price.
func checkTick(fail func(string, ...any), t int64, inverse bool) *big.Int {
	p, err := clmath.TickToPrice(t)
	if err != nil {
		fail("TickToPrice(%d): %v", t, err)
	}
	want := refPrice(t)
	if p.BigInt().Cmp(want) != 0 {
		fail("TickToPrice(%d) = %s, documented formula gives %s/1e36", t, p, want)
	}
	s, err := clmath.TickToSqrtPrice(t)
	if err != nil {
		fail("TickToSqrtPrice(%d): %v", t, err)
	}
	ws := refSqrt(t)
	if s.BigInt().Cmp(ws) != 0 {
		fail("TickToSqrtPrice(%d) = %s, least grid value whose square reaches the price is %s/1e36", t, s, ws)
	}
	if t >= minInit && (s.LT(cltypes.MinSqrtPriceBigDec) || s.GT(cltypes.MaxSqrtPriceBigDec)) {
		fail("TickToSqrtPrice(%d) = %s outside [MinSqrtPrice, MaxSqrtPrice]", t, s)
	}
	if t != minCurV2 {
		back, err := clmath.CalculatePriceToTick(p)
		if err != nil || back != t {
			fail("CalculatePriceToTick(TickToPrice(%d)) = %d, %v", t, back, err)
		}
	}
	if inverse && t >= minInit {
		back, err := clmath.CalculateSqrtPriceToTick(s)
		if err != nil || back != t {
			fail("CalculateSqrtPriceToTick(TickToSqrtPrice(%d)) = %d, %v", t, back, err)
		}
	}
	return ws
}

func genTick(rt *rapid.T, label string, lo, hi int64) int64 {
	var t int64
	switch rapid.IntRange(0, 5).Draw(rt, label+"Shape") {
	case 0: // decade boundary
		k := rapid.Int64Range(floorDiv(lo, decade), floorDiv(hi, decade)).Draw(rt, label+"Dec")
		t = k*decade + rapid.Int64Range(-3, 3).Draw(rt, label+"Off")
	case 1: // range ends and special ticks
		t = rapid.SampledFrom([]int64{minCurV2, minV2, minV2 + 1, minCur, minInit, minInit + 1, -1, 0, 1, maxTick - 2, maxTick - 1, maxTick}).Draw(rt, label+"Edge")
	case 2:
		t = rapid.Int64Range(-2000, 2000).Draw(rt, label+"Near0")
	default:
		t = rapid.Int64Range(lo, hi).Draw(rt, label)
	}
	if t < lo {
		t = lo
	}
	if t > hi {
		t = hi
	}
	return t
}

const sampledRule = "ticks drawn boundary-biased (decade edges 9e6*k +-3, range ends, V2 special ticks, near zero, uniform) over [-270000001, 342000000]; for each tick: TickToPrice == floor-division formula exactly, TickToSqrtPrice == least 18/36-decimal value whose square reaches the price, strictly/weakly increasing versus the neighbours, price->tick and sqrt->tick round trips; plus sqrt prices s in {S(t), S(t)+-1e-36, S(t)+-1e-18, a 36-decimal value inside the sub-1e-18 window below S(t), S(t+1)-1e-36, uniform in the bucket} must map to max{t': S(t') <= s} (independent binary search over the reference map); out-of-range ticks/prices must be rejected; non-trivial = tick within 2 of a decade boundary or a probe strictly between grid points; distinct by (tick, probe)"

func TestPropTicksSampled(t *testing.T) {
	drv.Check(t, drv.Cfg{Name: "ticks-sampled", Rule: sampledRule, Quick: 2500, Thorough: 100000}, func(rt *rapid.T, c *drv.Case) {
		fail := func(f string, a ...any) { rt.Fatalf(f, a...) }
		tk := genTick(rt, "t", minCurV2, maxTick)
		s0 := checkTick(fail, tk, true)
		// neighbours: strictly increasing price (except the documented twin), non-decreasing sqrt price
		if tk < maxTick {
			p0, p1 := refPrice(tk), refPrice(tk+1)
			a, _ := clmath.TickToPrice(tk)
			b, err := clmath.TickToPrice(tk + 1)
			if err != nil {
				rt.Fatalf("TickToPrice(%d): %v", tk+1, err)
			}
			if tk != minCurV2 && !b.GT(a) {
				rt.Fatalf("TickToPrice not strictly increasing at %d: %s then %s", tk, a, b)
			}
			_ = p0
			_ = p1
			s1 := checkTick(fail, tk+1, true)
			if s1.Cmp(s0) < 0 {
				rt.Fatalf("TickToSqrtPrice decreasing at %d", tk)
			}
		}
		nt := false
		if m := ((tk % decade) + decade) % decade; m <= 2 || m >= decade-2 {
			nt = true
			c.Class("decade-boundary")
		}
		// sqrt-price probes (swap-reachable range only)
		if tk >= minInit && tk < maxTick {
			sNext := refSqrt(tk + 1)
			var s *big.Int
			kind := rapid.IntRange(0, 8).Draw(rt, "probe")
			switch kind {
			case 0:
				s = new(big.Int).Set(s0)
			case 1:
				s = new(big.Int).Add(s0, ref.One)
			case 2:
				s = new(big.Int).Sub(s0, ref.One)
			case 3:
				s = new(big.Int).Add(s0, P18)
			case 4:
				s = new(big.Int).Sub(s0, P18)
			case 5: // inside the window (S(t) - 1e-18, S(t)): 36-decimal value just below the 18-decimal edge
				s = new(big.Int).Sub(s0, big.NewInt(rapid.Int64Range(1, 999_999_999_999_999_999).Draw(rt, "below")))
			case 6:
				s = new(big.Int).Sub(sNext, ref.One)
			case 7: // uniform inside the bucket, 36 decimals
				w := new(big.Int).Sub(sNext, s0)
				k := big.NewInt(rapid.Int64Range(0, 1<<40).Draw(rt, "frac"))
				s = new(big.Int).Mul(w, k)
				s.Rsh(s, 40).Add(s, s0)
			default: // uniform inside the bucket, 18 decimals
				w := new(big.Int).Sub(sNext, s0)
				k := big.NewInt(rapid.Int64Range(0, 1<<40).Draw(rt, "frac"))
				s = new(big.Int).Mul(w, k)
				s.Rsh(s, 40).Add(s, s0)
				s.Quo(s, P18).Mul(s, P18)
			}
			got, err := clmath.CalculateSqrtPriceToTick(bd(s))
			want, ok := refTickOf(s)
			inRange := s.Cmp(cltypes.MinSqrtPriceBigDec.BigInt()) >= 0 && s.Cmp(cltypes.MaxSqrtPriceBigDec.BigInt()) <= 0
			switch {
			case inRange && (err != nil || got != want):
				rt.Fatalf("CalculateSqrtPriceToTick(%s/1e36) = %d, %v; the bucket containing it is tick %d (S(%d)=%s, S(%d)=%s)", s, got, err, want, want, refSqrt(want), want+1, refSqrt(want+1))
			case !inRange && err == nil && (!ok || got != want):
				rt.Fatalf("CalculateSqrtPriceToTick(%s/1e36) outside the supported range returned tick %d which does not contain it", s, got)
			}
			c.Class(fmt.Sprintf("probe=%d", kind))
			if kind == 5 || kind == 7 || kind == 2 || kind == 1 {
				nt = true
			}
			if nt {
				c.NonTrivial(fmt.Sprintf("%d|%s", tk, s))
				c.Samplef("tick %d: price %s/1e36 sqrt %s/1e36; probe kind %d s=%s/1e36 -> tick %d", tk, refPrice(tk), s0, kind, s, got)
			}
		} else if nt {
			c.NonTrivial(fmt.Sprintf("%d", tk))
			c.Samplef("tick %d: price %s/1e36 sqrt %s/1e36", tk, refPrice(tk), s0)
		}
	})
}

const rejectRule = "out-of-range inputs: ticks below -270000001 or above 342000000 (just outside, far outside, and on/around decade boundaries 9e6*k beyond the range), prices/sqrt prices below the minimum or above the maximum (sqrt prices also anywhere in the extended V2 range 1e-15..1e-6, which the tick->price direction knows but no pool may hold), negative prices; oracle: an error, never a value; plus RoundDownTickToSpacing(t, sp) for t in +-4e8 (edges biased) and sp in {1,10,100,1000} or 1..1e6: result == sp*floor(t/sp) <= t when inside [-270000000, 342000000], else an error; non-trivial = negative tick not divisible by the spacing or an input just outside a bound; distinct by inputs"

func TestPropRejectAndSpacing(t *testing.T) {
	drv.Check(t, drv.Cfg{Name: "reject-and-spacing", Rule: rejectRule, Quick: 20000, Thorough: 600000}, func(rt *rapid.T, c *drv.Case) {
		switch rapid.IntRange(0, 3).Draw(rt, "kind") {
		case 0: // out-of-range ticks
			var tk int64
			switch low := rapid.Bool().Draw(rt, "low"); rapid.IntRange(0, 2).Draw(rt, "oorShape") {
			case 0: // decade boundaries beyond the range (the conversion is piecewise per decade of 9e6 ticks; +-3 around them)
				k := rapid.Int64Range(39, 400).Draw(rt, "decadesOut")
				if low {
					k = -rapid.Int64Range(31, 400).Draw(rt, "decadesOutLow")
				}
				tk = k*decade + rapid.Int64Range(-3, 3).Draw(rt, "off")
				if tk >= minCurV2 && tk <= maxTick {
					tk = maxTick + 1
				}
				c.Class("out-of-range-decade-boundary-tick")
			case 1: // just outside
				if low {
					tk = minCurV2 - rapid.Int64Range(1, 5).Draw(rt, "d")
				} else {
					tk = maxTick + rapid.Int64Range(1, 5).Draw(rt, "d")
				}
			default:
				if low {
					tk = minCurV2 - rapid.Int64Range(1, 1<<40).Draw(rt, "d")
				} else {
					tk = maxTick + rapid.Int64Range(1, 1<<40).Draw(rt, "d")
				}
			}
			if p, err := clmath.TickToPrice(tk); err == nil {
				rt.Fatalf("TickToPrice(%d) out of range returned %s", tk, p)
			}
			if s, err := clmath.TickToSqrtPrice(tk); err == nil {
				rt.Fatalf("TickToSqrtPrice(%d) out of range returned %s", tk, s)
			}
			c.NonTrivial(fmt.Sprintf("tick|%d", tk))
			c.Samplef("tick %d rejected", tk)
		case 1: // out-of-range prices
			var p *big.Int
			switch rapid.IntRange(0, 2).Draw(rt, "pk") {
			case 0:
				p = new(big.Int).Add(cltypes.MaxSpotPriceBigDec.BigInt(), big.NewInt(rapid.Int64Range(1, 1<<60).Draw(rt, "d")))
			case 1:
				p = big.NewInt(rapid.Int64Range(0, 999_999).Draw(rt, "tiny")) // below 1e-30
			default:
				p = big.NewInt(-rapid.Int64Range(1, 1<<60).Draw(rt, "neg"))
			}
			if tk, err := clmath.CalculatePriceToTick(bd(p)); err == nil {
				rt.Fatalf("CalculatePriceToTick(%s/1e36) out of range returned %d", p, tk)
			}
			c.NonTrivial("price|" + p.String())
			c.Samplef("price %s/1e36 rejected", p)
		case 2: // out-of-range sqrt prices
			var s *big.Int
			high := rapid.Bool().Draw(rt, "high")
			if high {
				s = new(big.Int).Add(cltypes.MaxSqrtPriceBigDec.BigInt(), big.NewInt(rapid.Int64Range(1, 1<<60).Draw(rt, "d")))
			} else {
				// below the minimum sqrt price: just below it, or anywhere in the extended range down to the sqrt price of the
				// lowest V2 tick (the conversion knows those ticks, but a sqrt price there is below what a pool may hold)
				switch rapid.IntRange(0, 2).Draw(rt, "lowShape") {
				case 0:
					s = new(big.Int).Sub(cltypes.MinSqrtPriceBigDec.BigInt(), big.NewInt(rapid.Int64Range(1, 1<<62).Draw(rt, "d")))
				case 1:
					tk := genTick(rt, "extTick", minV2, minCur-2)
					s0, s1 := refSqrt(tk), refSqrt(tk+1)
					w := new(big.Int).Sub(s1, s0)
					k := big.NewInt(rapid.Int64Range(0, 1<<40).Draw(rt, "frac"))
					s = new(big.Int).Mul(w, k)
					s.Rsh(s, 40).Add(s, s0)
					c.Class("sqrt-price-in-extended-range")
				default:
					// log-uniform between 1e-15 and 1e-6 (36-decimal integers 1e21 .. 1e30)
					e := rapid.IntRange(21, 29).Draw(rt, "exp")
					m := rapid.Int64Range(1_000_000, 9_999_999).Draw(rt, "mant")
					s = new(big.Int).Mul(big.NewInt(m), new(big.Int).Exp(big.NewInt(10), big.NewInt(int64(e-6)), nil))
					if s.Cmp(cltypes.MinSqrtPriceBigDec.BigInt()) >= 0 {
						s = new(big.Int).Sub(cltypes.MinSqrtPriceBigDec.BigInt(), big.NewInt(m))
					}
					c.Class("sqrt-price-in-extended-range")
				}
			}
			tk, err := clmath.CalculateSqrtPriceToTick(bd(s))
			if high && err == nil {
				rt.Fatalf("CalculateSqrtPriceToTick(%s/1e36) above the maximum returned %d", s, tk)
			}
			if !high && err == nil {
				// Just below MinSqrtPrice the code deliberately still answers (the current tick may sit one
				// below the lowest initialisable tick). What must never happen is a tick that does not
				// contain the price, or one far outside the swap-reachable range.
				if tk < minCur-1 || refSqrt(tk).Cmp(s) > 0 || refSqrt(tk+1).Cmp(s) <= 0 {
					rt.Fatalf("CalculateSqrtPriceToTick(%s/1e36) below the minimum returned tick %d which does not contain it", s, tk)
				}
				c.Class("below-min-answered")
			}
			c.NonTrivial("sqrt|" + s.String())
			c.Samplef("sqrt price %s/1e36 rejected", s)
		default:
			var sp int64
			if rapid.Bool().Draw(rt, "authorised") {
				sp = rapid.SampledFrom([]int64{1, 10, 100, 1000}).Draw(rt, "sp")
			} else {
				sp = rapid.Int64Range(1, 1_000_000).Draw(rt, "sp")
			}
			var tk int64
			switch rapid.IntRange(0, 3).Draw(rt, "tk") {
			case 0:
				tk = minV2 + rapid.Int64Range(-2000, 2000).Draw(rt, "off")
			case 1:
				tk = maxTick + rapid.Int64Range(-2000, 2000).Draw(rt, "off")
			case 2:
				tk = rapid.Int64Range(-3000, 3000).Draw(rt, "near0")
			default:
				tk = rapid.Int64Range(-400_000_000, 400_000_000).Draw(rt, "t")
			}
			want := floorDiv(tk, sp) * sp
			got, err := clmath.RoundDownTickToSpacing(tk, sp)
			if want > maxTick || want < minV2 {
				if err == nil {
					rt.Fatalf("RoundDownTickToSpacing(%d,%d) = %d is out of range, expected an error", tk, sp, got)
				}
			} else if err != nil || got != want || got > tk {
				rt.Fatalf("RoundDownTickToSpacing(%d,%d) = %d, %v; want %d", tk, sp, got, err, want)
			}
			if tk < 0 && tk%sp != 0 {
				c.NonTrivial(fmt.Sprintf("sp|%d|%d", tk, sp))
				c.Samplef("RoundDownTickToSpacing(%d,%d) = %d", tk, sp, got)
			}
		}
	})
}

const exhRule = "exhaustive enumeration of consecutive ticks: quick tier = windows of +-1500 ticks around every decade boundary 9e6*k (k=-30..38) and both range ends; thorough tier = the whole range [-270000001, 342000000] split over the shard processes; per tick: price formula, sqrt price == least grid value, monotone vs. previous tick, price->tick round trip, and on the swap-reachable range sqrt->tick round trip plus the probe S(t)-1e-36 -> t-1; all enumerated ticks are distinct by construction and counted non-trivial"

func TestPropTicksExhaustive(t *testing.T) {
	name := "ticks-exhaustive"
	drv.Enumerate(t, drv.Cfg{Name: name, Rule: exhRule}, func(_ func() *drv.Case) {
		fail := func(f string, a ...any) { t.Fatalf(f, a...) }
		run := func(lo, hi int64) {
			var prevS *big.Int
			var prevP *big.Int
			n := int64(0)
			for tk := lo; tk <= hi; tk++ {
				s := checkTick(fail, tk, true)
				p := refPrice(tk)
				if prevS != nil {
					if s.Cmp(prevS) < 0 {
						fail("sqrt price decreasing at %d", tk)
					}
					if tk-1 != minCurV2 && p.Cmp(prevP) <= 0 {
						fail("price not strictly increasing at %d", tk)
					}
				}
				if tk > minInit {
					got, err := clmath.CalculateSqrtPriceToTick(bd(new(big.Int).Sub(s, ref.One)))
					if err != nil || got != tk-1 {
						fail("CalculateSqrtPriceToTick(S(%d) - 1e-36) = %d, %v; want %d", tk, got, err, tk-1)
					}
				}
				prevS, prevP = s, p
				n++
			}
			drv.Bulk(name, n, n, fmt.Sprintf("ticks %d..%d (%d consecutive)", lo, hi, n))
		}
		shard, shards := drv.Shard()
		if drv.Thorough() {
			total := maxTick - minCurV2 + 1
			per := (total + int64(shards) - 1) / int64(shards)
			lo := minCurV2 + int64(shard)*per
			hi := lo + per - 1
			if hi > maxTick {
				hi = maxTick
			}
			if lo <= hi {
				// overlap one tick with the previous chunk so monotonicity is checked across chunk borders
				if lo > minCurV2 {
					lo--
				}
				run(lo, hi)
			}
			return
		}
		// quick: windows; decade k handled by shard k mod shards
		i := 0
		for k := int64(-30); k <= 38; k++ {
			if i%shards == shard {
				lo, hi := k*decade-1500, k*decade+1500
				if lo < minCurV2 {
					lo = minCurV2
				}
				if hi > maxTick {
					hi = maxTick
				}
				run(lo, hi)
			}
			i++
		}
		if shard == 0 {
			run(minCur-1500, minInit+1500)
		}
	})
}
