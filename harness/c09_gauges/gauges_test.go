package c09

import (
	"fmt"
	"math/big"
	"os"
	"sort"
	"strings"
	"testing"
	"time"

	sdk "github.com/cosmos/cosmos-sdk/types"
	authtypes "github.com/cosmos/cosmos-sdk/x/auth/types"
	"pgregory.net/rapid"

	"github.com/osmosis-labs/osmosis/osmomath"
	"github.com/osmosis-labs/osmosis/v31/x/gamm/pool-models/balancer"
	"github.com/osmosis-labs/osmosis/v31/x/incentives/types"
	lockuptypes "github.com/osmosis-labs/osmosis/v31/x/lockup/types"

	"verif/harness/chain"
	"verif/harness/drv"
)

func TestMain(m *testing.M) { drv.Main(m) }

const rule = "state machine on the real application: MsgCreateGauge (perpetual / N-epoch, by-duration on a lockable duration, reward coins in uosmo and in a denom valued through a protorev-registered pool, start time past/now/future), MsgAddToGauge, lock / extend-lock / begin-unlock (whole or partial) / reward-receiver changes between epochs, minimum-value parameter changes, and epoch ends driven through the real x/epochs BeginBlocker (so the incentives hook runs in its hook context); oracle per epoch computed from state read before the epoch block (reward receivers from the harness's own record of accepted redirect messages, inherited by a split-off lock): every qualifying lock's receiver gets floor(remaining x lockAmt / (lockSum x remainingEpochs)) per coin unless below the minimum value (own denom: amount < min; other denom: compared through the pool's own CalcOutAmtGivenIn; the <=100-unit single-coin anti-spam rule as coded), gauge distributed coins grow by the same total, sum distributed <= deposited, module balance >= undistributed remainder of unfinished gauges, upcoming -> active at the first epoch end with blockTime >= start, non-perpetual gauges finish after exactly N paying epochs and then neither pay nor accept top-ups; non-trivial = >= 2 qualifying locks with different receivers, >= 3 epochs and a lock change between epochs; distinct by history hash"

const lockDenom = "lptoken"

type mgauge struct {
	id        uint64
	perpetual bool
	n         uint64
	dur       time.Duration
	start     time.Time
	coins     map[string]*big.Int
	distr     map[string]*big.Int
	filled    uint64
	active    bool
	finished  bool
}

func coin(d string, a *big.Int) sdk.Coin { return sdk.NewCoin(d, osmomath.NewIntFromBigInt(a)) }

func cmap(cs sdk.Coins) map[string]*big.Int {
	out := map[string]*big.Int{}
	for _, c := range cs {
		out[c.Denom] = c.Amount.BigInt()
	}
	return out
}

func get(m map[string]*big.Int, d string) *big.Int {
	if v := m[d]; v != nil {
		return v
	}
	return new(big.Int)
}

func TestPropGauges(t *testing.T) {
	drv.Check(t, drv.Cfg{Name: "gauges", Rule: rule, Quick: 200, Thorough: 8000, Steps: 30, TSteps: 60}, func(rt *rapid.T, cs *drv.Case) {
		c := chain.New(t)
		ik := c.App.IncentivesKeeper
		huge := new(big.Int).Exp(big.NewInt(10), big.NewInt(24), nil)
		for a := 0; a < 5; a++ {
			c.Fund(chain.Actor(a), sdk.NewCoins(coin("uosmo", huge), coin("rwd", huge), coin(lockDenom, huge), coin("nrt", huge), coin("stake", huge)))
		}
		// a pool that values "rwd" in uosmo, registered with protorev (the route the minimum-value rule uses)
		msg := balancer.NewMsgCreateBalancerPool(chain.Actor(4), balancer.PoolParams{SwapFee: osmomath.ZeroDec(), ExitFee: osmomath.ZeroDec()},
			[]balancer.PoolAsset{{Weight: osmomath.NewInt(1), Token: sdk.NewInt64Coin("uosmo", 1_000_000_000_000)}, {Weight: osmomath.NewInt(1), Token: sdk.NewInt64Coin("rwd", 3_000_000_000_000)}}, "")
		if r := c.Exec(&msg); !r.OK() {
			rt.Fatalf("harness: create valuation pool: %v", r.Err)
		}
		valPool := c.App.PoolManagerKeeper.GetNextPoolId(c.Ctx) - 1
		c.App.ProtoRevKeeper.SetPoolForDenomPair(c.Ctx, "uosmo", "rwd", valPool)
		durs := ik.GetLockableDurations(c.Ctx)
		if len(durs) == 0 {
			rt.Fatalf("harness: no lockable durations")
		}
		params := ik.GetParams(c.Ctx)
		params.MinValueForDistribution = sdk.NewInt64Coin("uosmo", 10)
		ik.SetParams(c.Ctx, params)
		epochID := params.DistrEpochIdentifier
		modAddr := authtypes.NewModuleAddress(types.ModuleName)
		// start epoch counting
		c.App.EpochsKeeper.BeginBlocker(c.Ctx)

		gauges := map[uint64]*mgauge{}
		var hist []string
		epochs, lockChanges := 0, 0
		lastEpochAt := 0
		twoReceivers := false
		receiverOf := map[uint64]string{} // lock id -> reward receiver set by the owner (absent: the owner)
		stale := drv.Known("C09-finish-unpaid-epoch")

		readGauge := func(id uint64) *types.Gauge {
			g, err := ik.GetGaugeByID(c.Ctx, id)
			if err != nil {
				rt.Fatalf("gauge %d vanished: %v", id, err)
			}
			return g
		}
		// the live locks, read record by record (ids 1..last): the reference must not go through the lockup module's
		// reference indexes, which are what the distribution itself iterates
		lockIDs := func() []lockuptypes.PeriodLock {
			var ls []lockuptypes.PeriodLock
			for id := uint64(1); id <= c.App.LockupKeeper.GetLastLockID(c.Ctx); id++ {
				if l, err := c.App.LockupKeeper.GetLockByID(c.Ctx, id); err == nil && l != nil {
					ls = append(ls, *l)
				}
			}
			return ls
		}
		invariants := func() {
			need := map[string]*big.Int{}
			for id, g := range gauges {
				real := readGauge(id)
				rc, rd := cmap(real.Coins), cmap(real.DistributedCoins)
				for _, d := range []string{"uosmo", "rwd"} {
					if get(rc, d).Cmp(get(g.coins, d)) != 0 || get(rd, d).Cmp(get(g.distr, d)) != 0 {
						rt.Fatalf("gauge %d: coins %s distributed %s, model coins %v distributed %v [history %v]", id, real.Coins, real.DistributedCoins, g.coins, g.distr, hist)
					}
					if get(rd, d).Cmp(get(rc, d)) > 0 {
						rt.Fatalf("gauge %d distributed %s%s, more than was deposited %s", id, get(rd, d), d, get(rc, d))
					}
					if !g.finished {
						if need[d] == nil {
							need[d] = new(big.Int)
						}
						need[d].Add(need[d], new(big.Int).Sub(get(rc, d), get(rd, d)))
					}
				}
				if real.FilledEpochs != g.filled {
					rt.Fatalf("gauge %d: filled epochs %d, model %d [history %v]", id, real.FilledEpochs, g.filled, hist)
				}
			}
			for d, v := range need {
				if bal := c.Bal(modAddr, d).Amount.BigInt(); bal.Cmp(v) < 0 {
					rt.Fatalf("incentives module holds %s%s, less than the undistributed remainder %s of unfinished gauges [history %v]", bal, d, v, hist)
				}
			}
			status := func(list []types.Gauge) map[uint64]bool {
				m := map[uint64]bool{}
				for _, g := range list {
					m[g.Id] = true
				}
				return m
			}
			up, act, fin := status(ik.GetUpcomingGauges(c.Ctx)), status(ik.GetActiveGauges(c.Ctx)), status(ik.GetFinishedGauges(c.Ctx))
			for id, g := range gauges {
				if act[id] != (g.active && !g.finished) || fin[id] != g.finished || up[id] != (!g.active && !g.finished) {
					rt.Fatalf("gauge %d status upcoming=%v active=%v finished=%v, model active=%v finished=%v (filled %d of %d) [history %v]", id, up[id], act[id], fin[id], g.active, g.finished, g.filled, g.n, hist)
				}
			}
		}

		actions := map[string]func(*rapid.T){
			"createGauge": func(rt *rapid.T) {
				if len(gauges) >= 6 {
					rt.Skip("enough gauges")
				}
				owner := rapid.IntRange(0, 4).Draw(rt, "owner")
				perpetual := rapid.Bool().Draw(rt, "perpetual")
				n := uint64(1)
				if !perpetual {
					n = uint64(rapid.IntRange(1, 5).Draw(rt, "epochs"))
				}
				dur := durs[rapid.IntRange(0, len(durs)-1).Draw(rt, "duration")]
				coins := sdk.Coins{}
				amt := func(l string) *big.Int {
					return new(big.Int).Mul(big.NewInt(rapid.Int64Range(101, 999).Draw(rt, l+"M")), new(big.Int).Exp(big.NewInt(10), big.NewInt(int64(rapid.IntRange(1, 12).Draw(rt, l+"E"))), nil))
				}
				switch rapid.IntRange(0, 2).Draw(rt, "rewardKind") {
				case 0:
					coins = sdk.NewCoins(coin("uosmo", amt("u")))
				case 1:
					coins = sdk.NewCoins(coin("rwd", amt("r")))
				default:
					coins = sdk.NewCoins(coin("uosmo", amt("u")), coin("rwd", amt("r")))
				}
				start := c.Ctx.BlockTime()
				switch rapid.IntRange(0, 4).Draw(rt, "startKind") {
				case 0:
					start = start.Add(-time.Hour)
				case 1:
					start = start.Add(time.Duration(rapid.Int64Range(1, int64(20*24*time.Hour)).Draw(rt, "startIn")))
				case 2, 3:
					// exactly the block time of the k-th next epoch end (and its +-1ns neighbours): "active at its start time"
					ei := c.App.EpochsKeeper.GetEpochInfo(c.Ctx, epochID)
					end := ei.CurrentEpochStartTime.Add(ei.Duration).Add(time.Second)
					if !end.After(c.Ctx.BlockTime()) {
						end = c.Ctx.BlockTime().Add(time.Second)
					}
					start = end.Add(time.Duration(rapid.IntRange(0, 3).Draw(rt, "startEpochs")) * ei.Duration).Add(time.Duration(rapid.IntRange(-1, 1).Draw(rt, "startNs")))
					cs.Class("start-on-epoch-block-time")
				}
				m := &types.MsgCreateGauge{IsPerpetual: perpetual, Owner: chain.Actor(owner).String(), DistributeTo: lockuptypes.QueryCondition{LockQueryType: lockuptypes.ByDuration, Denom: lockDenom, Duration: dur}, Coins: coins, StartTime: start, NumEpochsPaidOver: n}
				r := c.Exec(m)
				if !r.OK() {
					rt.Fatalf("MsgCreateGauge %v failed: %v", m, r.Err)
				}
				id := ik.GetLastGaugeID(c.Ctx)
				gauges[id] = &mgauge{id: id, perpetual: perpetual, n: n, dur: dur, start: start, coins: cmap(coins), distr: map[string]*big.Int{}}
				hist = append(hist, fmt.Sprintf("gauge#%d perp=%v n=%d dur=%s %s start%+d", id, perpetual, n, dur, coins, int64(start.Sub(c.Ctx.BlockTime())/time.Second)))
			},
			"addToGauge": func(rt *rapid.T) {
				if len(gauges) == 0 {
					rt.Skip("no gauges")
				}
				ids := make([]uint64, 0)
				for id := range gauges {
					ids = append(ids, id)
				}
				sort.Slice(ids, func(i, j int) bool { return ids[i] < ids[j] })
				id := ids[rapid.IntRange(0, len(ids)-1).Draw(rt, "gauge")]
				g := gauges[id]
				d := rapid.SampledFrom([]string{"uosmo", "rwd"}).Draw(rt, "denom")
				amt := big.NewInt(rapid.Int64Range(1, 1_000_000_000).Draw(rt, "amt"))
				r := c.Exec(&types.MsgAddToGauge{Owner: chain.Actor(rapid.IntRange(0, 4).Draw(rt, "owner")).String(), GaugeId: id, Rewards: sdk.NewCoins(coin(d, amt))})
				if g.finished && !(stale && !g.perpetual && g.filled < g.n) {
					if r.OK() {
						rt.Fatalf("MsgAddToGauge to finished gauge %d succeeded", id)
					}
					return
				}
				if g.finished && !r.OK() {
					return
				}
				if !r.OK() {
					rt.Fatalf("MsgAddToGauge(#%d, %s%s) failed: %v", id, amt, d, r.Err)
				}
				g.coins[d] = new(big.Int).Add(get(g.coins, d), amt)
				hist = append(hist, fmt.Sprintf("add#%d %s%s", id, amt, d))
			},
			"lock": func(rt *rapid.T) {
				o := rapid.IntRange(0, 2).Draw(rt, "owner")
				dur := durs[rapid.IntRange(0, len(durs)-1).Draw(rt, "duration")]
				if rapid.IntRange(0, 3).Draw(rt, "offGrid") == 0 {
					dur += time.Duration(rapid.Int64Range(-1, 1).Draw(rt, "durOff"))
				}
				amt := big.NewInt(rapid.Int64Range(1, 1_000_000_000).Draw(rt, "amt"))
				if r := c.Exec(lockuptypes.NewMsgLockTokens(chain.Actor(o), dur, sdk.NewCoins(coin(lockDenom, amt)))); !r.OK() {
					rt.Fatalf("lock: %v", r.Err)
				}
				lockChanges++
				hist = append(hist, fmt.Sprintf("lock o%d %s %s", o, amt, dur))
			},
			"beginUnlock": func(rt *rapid.T) {
				ls := lockIDs()
				if len(ls) == 0 {
					rt.Skip("no locks")
				}
				l := ls[rapid.IntRange(0, len(ls)-1).Draw(rt, "lock")]
				owner, _ := sdk.AccAddressFromBech32(l.Owner)
				// the whole lock, or a part of it (the lock is split: the part starts unlocking under a new id, the remainder
				// stays bonded under the old one - both keep qualifying until the part has matured)
				var part sdk.Coins
				if rapid.Bool().Draw(rt, "partial") && len(l.Coins) == 1 && l.Coins[0].Amount.GT(osmomath.OneInt()) {
					part = sdk.NewCoins(sdk.NewCoin(l.Coins[0].Denom, osmomath.NewInt(rapid.Int64Range(1, l.Coins[0].Amount.Int64()-1).Draw(rt, "partAmt"))))
				}
				if r := c.Exec(lockuptypes.NewMsgBeginUnlocking(owner, l.ID, part)); r.OK() {
					lockChanges++
					if part != nil {
						cs.Class("partial-begin-unlock")
					}
					// the part that was split off is the same owner's lock with the same reward receiver
					var resp lockuptypes.MsgBeginUnlockingResponse
					if err := r.Unpack(&resp); err == nil && resp.UnlockingLockID != l.ID {
						if to, ok := receiverOf[l.ID]; ok {
							receiverOf[resp.UnlockingLockID] = to
							cs.Class("split-of-redirected-lock")
						}
					}
					hist = append(hist, fmt.Sprintf("unlock #%d %s", l.ID, part))
				}
			},
			"extend": func(rt *rapid.T) {
				ls := lockIDs()
				if len(ls) == 0 {
					rt.Skip("no locks")
				}
				l := ls[rapid.IntRange(0, len(ls)-1).Draw(rt, "lock")]
				owner, _ := sdk.AccAddressFromBech32(l.Owner)
				dur := durs[rapid.IntRange(0, len(durs)-1).Draw(rt, "duration")] + time.Duration(rapid.Int64Range(0, 1).Draw(rt, "durOff"))
				// only a longer duration on a lock that is not unlocking is accepted; the lock then qualifies for more gauges
				if r := c.Exec(lockuptypes.NewMsgExtendLockup(owner, l.ID, dur)); r.OK() {
					lockChanges++
					cs.Class("lock-extended")
					hist = append(hist, fmt.Sprintf("extend #%d -> %s", l.ID, dur))
				}
			},
			"setReceiver": func(rt *rapid.T) {
				ls := lockIDs()
				if len(ls) == 0 {
					rt.Skip("no locks")
				}
				l := ls[rapid.IntRange(0, len(ls)-1).Draw(rt, "lock")]
				owner, _ := sdk.AccAddressFromBech32(l.Owner)
				to := chain.Actor(rapid.IntRange(0, 3).Draw(rt, "receiver"))
				if r := c.Exec(lockuptypes.NewMsgSetRewardReceiverAddress(owner, to, l.ID)); r.OK() {
					lockChanges++
					receiverOf[l.ID] = to.String()
					hist = append(hist, fmt.Sprintf("recv #%d -> %s", l.ID, to.String()[len(to.String())-4:]))
				}
			},
			"minValue": func(rt *rapid.T) {
				p := ik.GetParams(c.Ctx)
				p.MinValueForDistribution = sdk.NewInt64Coin("uosmo", rapid.SampledFrom([]int64{1, 10, 10000, 1_000_000}).Draw(rt, "min"))
				ik.SetParams(c.Ctx, p)
				hist = append(hist, "min="+p.MinValueForDistribution.String())
			},
			"epoch": func(rt *rapid.T) {
				ei := c.App.EpochsKeeper.GetEpochInfo(c.Ctx, epochID)
				end := ei.CurrentEpochStartTime.Add(ei.Duration).Add(time.Second)
				if end.Before(c.Ctx.BlockTime()) {
					end = c.Ctx.BlockTime().Add(time.Second)
				}
				c.Ctx = c.Ctx.WithBlockTime(end).WithBlockHeight(c.Ctx.BlockHeight() + 1)
				now := end
				// ---- expectation from the state before the epoch block ----
				locks := lockIDs()
				minV := ik.GetParams(c.Ctx).MinValueForDistribution
				minOther := map[string]*big.Int{}
				expect := map[string]map[string]*big.Int{} // receiver -> denom -> amount
				ids := make([]uint64, 0)
				for id := range gauges {
					ids = append(ids, id)
				}
				sort.Slice(ids, func(i, j int) bool { return ids[i] < ids[j] })
				receivers := map[string]bool{}
				for _, id := range ids {
					g := gauges[id]
					if g.finished {
						continue
					}
					if !g.active && !now.Before(g.start) {
						g.active = true
					}
					if !g.active {
						continue
					}
					var q []lockuptypes.PeriodLock
					lockSum := new(big.Int)
					for _, l := range locks {
						if len(l.Coins) == 1 && l.Coins[0].Denom == lockDenom && l.Duration >= g.dur {
							q = append(q, l)
							lockSum.Add(lockSum, l.Coins[0].Amount.BigInt())
						}
					}
					remainEpochs := uint64(1)
					if !g.perpetual {
						remainEpochs = g.n - g.filled
					}
					staleFinish := !g.perpetual && g.n <= g.filled+1
					if len(q) == 0 || lockSum.Sign() == 0 {
						// no qualifying lock: not a paying epoch
						if staleFinish {
							if stale {
								g.finished = true // listed finding: finished without having paid its last epoch
								cs.Exclude("C09-finish-unpaid-epoch")
							}
						}
						continue
					}
					remain := map[string]*big.Int{}
					nz := 0
					var only string
					for _, d := range []string{"rwd", "uosmo"} {
						remain[d] = new(big.Int).Sub(get(g.coins, d), get(g.distr, d))
						if remain[d].Sign() > 0 {
							nz++
							only = d
						}
					}
					spam := nz == 0 || (nz == 1 && remain[only].Cmp(big.NewInt(100)) <= 0)
					if !spam {
						den := new(big.Int).Mul(lockSum, new(big.Int).SetUint64(remainEpochs))
						for _, l := range q {
							// the receiver is what the owner's accepted messages made it (the harness's own record, inherited by a
							// split), never what the lock record under test says
							recv := l.Owner
							if to, ok := receiverOf[l.ID]; ok {
								recv = to
							}
							for _, d := range []string{"rwd", "uosmo"} {
								if remain[d].Sign() == 0 {
									continue
								}
								a := new(big.Int).Mul(l.Coins[0].Amount.BigInt(), remain[d])
								a.Quo(a, den)
								if d == minV.Denom {
									if a.Cmp(minV.Amount.BigInt()) < 0 {
										cs.Class("below-minimum-skipped")
										continue
									}
								} else {
									mo, ok := minOther[d]
									if !ok {
										// value of the minimum in denom d through the registered pool (its own calculation)
										pool, err := c.App.GAMMKeeper.GetPoolAndPoke(c.Ctx, valPool)
										if err != nil {
											rt.Fatalf("harness: %v", err)
										}
										if minV.Amount.IsZero() {
											mo = new(big.Int)
										} else {
											o, err := pool.CalcOutAmtGivenIn(c.Ctx, sdk.NewCoins(minV), d, osmomath.ZeroDec())
											if err != nil {
												rt.Skip("valuation pool cannot price the minimum")
											}
											mo = o.Amount.BigInt()
										}
										minOther[d] = mo
									}
									if a.Cmp(mo) < 0 || (mo.Sign() == 0 && !minV.Amount.IsZero()) {
										cs.Class("below-minimum-skipped")
										continue
									}
								}
								if a.Sign() > 0 {
									if expect[recv] == nil {
										expect[recv] = map[string]*big.Int{}
									}
									expect[recv][d] = new(big.Int).Add(get(expect[recv], d), a)
									g.distr[d] = new(big.Int).Add(get(g.distr, d), a)
									receivers[recv] = true
								}
							}
						}
					} else {
						cs.Class("anti-spam-skip")
					}
					g.filled++
					if !g.perpetual && g.filled >= g.n {
						g.finished = true
					}
				}
				if len(receivers) >= 2 {
					twoReceivers = true
				}
				// ---- the real epoch ----
				before := map[string]map[string]*big.Int{}
				for a := 0; a < 5; a++ {
					before[chain.Actor(a).String()] = cmap(c.App.BankKeeper.GetAllBalances(c.Ctx, chain.Actor(a)))
				}
				epochBefore := c.App.EpochsKeeper.GetEpochInfo(c.Ctx, epochID).CurrentEpoch
				if os.Getenv("VERIF_DEBUG") != "" {
					fmt.Printf("DBG epoch: locks=%d listed=%d expect=%v hist=%v\n", len(locks), len(c.App.LockupKeeper.GetLocksLongerThanDurationDenom(c.Ctx, lockDenom, time.Millisecond)), expect, hist)
				}
				c.App.EpochsKeeper.BeginBlocker(c.Ctx)
				if got := c.App.EpochsKeeper.GetEpochInfo(c.Ctx, epochID).CurrentEpoch; got != epochBefore+1 {
					rt.Fatalf("harness: epoch did not tick (%d -> %d)", epochBefore, got)
				}
				for a := 0; a < 5; a++ {
					addr := chain.Actor(a).String()
					after := cmap(c.App.BankKeeper.GetAllBalances(c.Ctx, chain.Actor(a)))
					for _, d := range []string{"uosmo", "rwd"} {
						gotD := new(big.Int).Sub(get(after, d), get(before[addr], d))
						if gotD.Cmp(get(expect[addr], d)) != 0 {
							rt.Fatalf("epoch %d: actor %d received %s%s, pro-rata floor shares sum to %s [history %v]", epochBefore, a, gotD, d, get(expect[addr], d), hist)
						}
					}
				}
				epochs++
				if lockChanges > lastEpochAt {
					cs.Class("lock-change-between-epochs")
				}
				lastEpochAt = lockChanges
				hist = append(hist, fmt.Sprintf("EPOCH %d", epochBefore))
			},
			"": func(rt *rapid.T) { invariants() },
		}
		rt.Repeat(actions)
		if epochs >= 3 && twoReceivers && lockChanges > 0 {
			cs.NonTrivial(strings.Join(hist, ";"))
			cs.Sample(strings.Join(hist, "; "))
		}
	})
}

func setup2(t *testing.T) *chain.Chain {
	c := chain.New(t)
	huge := new(big.Int).Exp(big.NewInt(10), big.NewInt(20), nil)
	for a := 0; a < 3; a++ {
		c.Fund(chain.Actor(a), sdk.NewCoins(coin("uosmo", huge), coin(lockDenom, huge), coin("stake", huge)))
	}
	p := c.App.IncentivesKeeper.GetParams(c.Ctx)
	p.MinValueForDistribution = sdk.NewInt64Coin("uosmo", 10)
	c.App.IncentivesKeeper.SetParams(c.Ctx, p)
	c.App.EpochsKeeper.BeginBlocker(c.Ctx)
	return c
}

func endEpoch(c *chain.Chain) {
	id := c.App.IncentivesKeeper.GetParams(c.Ctx).DistrEpochIdentifier
	ei := c.App.EpochsKeeper.GetEpochInfo(c.Ctx, id)
	c.Ctx = c.Ctx.WithBlockTime(ei.CurrentEpochStartTime.Add(ei.Duration).Add(time.Second)).WithBlockHeight(c.Ctx.BlockHeight() + 1)
	c.App.EpochsKeeper.BeginBlocker(c.Ctx)
}

// TestRegress_C09_receiver_per_lock: the fixed finding must stay fixed.
func TestRegress_C09_receiver_per_lock(t *testing.T) {
	c := setup2(t)
	dur := c.App.IncentivesKeeper.GetLockableDurations(c.Ctx)[0]
	owner, other := chain.Actor(1), chain.Actor(0)
	r := c.Exec(lockuptypes.NewMsgLockTokens(owner, dur, sdk.NewCoins(sdk.NewInt64Coin(lockDenom, 1))))
	var l1 lockuptypes.MsgLockTokensResponse
	_ = r.Unpack(&l1)
	c.Exec(lockuptypes.NewMsgLockTokens(owner, dur+time.Hour, sdk.NewCoins(sdk.NewInt64Coin(lockDenom, 1))))
	if r := c.Exec(lockuptypes.NewMsgSetRewardReceiverAddress(owner, other, l1.ID)); !r.OK() {
		t.Fatalf("set receiver: %v", r.Err)
	}
	if r := c.Exec(&types.MsgCreateGauge{IsPerpetual: true, Owner: chain.Actor(2).String(), DistributeTo: lockuptypes.QueryCondition{LockQueryType: lockuptypes.ByDuration, Denom: lockDenom, Duration: dur}, Coins: sdk.NewCoins(sdk.NewInt64Coin("uosmo", 1010)), StartTime: c.Ctx.BlockTime(), NumEpochsPaidOver: 1}); !r.OK() {
		t.Fatalf("create gauge: %v", r.Err)
	}
	b0, b1 := c.Bal(other, "uosmo").Amount, c.Bal(owner, "uosmo").Amount
	endEpoch(c)
	if d0, d1 := c.Bal(other, "uosmo").Amount.Sub(b0), c.Bal(owner, "uosmo").Amount.Sub(b1); !d0.Equal(osmomath.NewInt(505)) || !d1.Equal(osmomath.NewInt(505)) {
		t.Fatalf("two equal locks with different reward receivers: receivers got %s and %s, want 505 each", d0, d1)
	}
}

// TestKnown_C09_finish_unpaid_epoch reproduces the listed finding.
func TestKnown_C09_finish_unpaid_epoch(t *testing.T) {
	c := setup2(t)
	dur := c.App.IncentivesKeeper.GetLockableDurations(c.Ctx)[0]
	if r := c.Exec(&types.MsgCreateGauge{IsPerpetual: false, Owner: chain.Actor(2).String(), DistributeTo: lockuptypes.QueryCondition{LockQueryType: lockuptypes.ByDuration, Denom: lockDenom, Duration: dur}, Coins: sdk.NewCoins(sdk.NewInt64Coin("uosmo", 1010)), StartTime: c.Ctx.BlockTime(), NumEpochsPaidOver: 1}); !r.OK() {
		t.Fatalf("create gauge: %v", r.Err)
	}
	id := c.App.IncentivesKeeper.GetLastGaugeID(c.Ctx)
	endEpoch(c)
	g, _ := c.App.IncentivesKeeper.GetGaugeByID(c.Ctx, id)
	for _, f := range c.App.IncentivesKeeper.GetFinishedGauges(c.Ctx) {
		if f.Id == id && g.FilledEpochs == 0 && g.DistributedCoins.IsZero() {
			drv.Reproduced(t, "C09-finish-unpaid-epoch")
		}
	}
}
