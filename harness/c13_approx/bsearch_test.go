package c13

import (
	"errors"
	"fmt"
	"math/big"
	"testing"

	"pgregory.net/rapid"

	"github.com/osmosis-labs/osmosis/osmomath"

	"verif/harness/drv"
	"verif/harness/ref"
)

const bsRule = "BinarySearch (Int) and BinarySearchBigDec over monotone non-decreasing f in {linear, cubic, step plateaus, saturating, failing}, random bounds, targets (inside, at the ends, outside the image), additive tolerance in {unset, 0, small, large}, multiplicative in {unset, 0, 1e-6, 1e-2}, rounding direction in {unconstrained, up, down}, iteration caps 1..300; oracle: on success an independent big.Int re-evaluation shows f(result) within both tolerances and on the requested side and result inside [lower, upper]; otherwise an error - never a wrong value; non-trivial = search succeeded after more than one probe; distinct by full parameter tuple"

type mono struct {
	name string
	f    func(x *big.Int) *big.Int // on raw integers (Int) or raw 1e36-scaled integers (BigDec)
}

func genMono(rt *rapid.T, scaled bool) mono {
	a := big.NewInt(rapid.Int64Range(1, 1000).Draw(rt, "fa"))
	b := big.NewInt(rapid.Int64Range(-1000, 1000).Draw(rt, "fb"))
	unit := big.NewInt(1)
	if scaled {
		unit = P36
	}
	switch rapid.IntRange(0, 3).Draw(rt, "fKind") {
	case 0:
		return mono{fmt.Sprintf("linear %s*x+%s", a, b), func(x *big.Int) *big.Int {
			r := new(big.Int).Mul(a, x)
			return r.Add(r, new(big.Int).Mul(b, unit))
		}}
	case 1:
		return mono{"cubic x^3", func(x *big.Int) *big.Int {
			r := new(big.Int).Mul(x, x)
			r.Mul(r, x)
			if scaled {
				r.Quo(r, new(big.Int).Mul(P36, P36))
			}
			return r
		}}
	case 2:
		k := new(big.Int).Mul(big.NewInt(rapid.Int64Range(2, 5000).Draw(rt, "plateau")), unit)
		return mono{fmt.Sprintf("step floor(x/%s)*%s", k, k), func(x *big.Int) *big.Int {
			return new(big.Int).Mul(ref.DivFloor(x, k), k)
		}}
	default:
		capv := new(big.Int).Mul(big.NewInt(rapid.Int64Range(0, 100000).Draw(rt, "cap")), unit)
		return mono{fmt.Sprintf("saturating min(%s*x,%s)", a, capv), func(x *big.Int) *big.Int {
			r := new(big.Int).Mul(a, x)
			if r.Cmp(capv) > 0 {
				return new(big.Int).Set(capv)
			}
			return r
		}}
	}
}

func genTol(rt *rapid.T) (osmomath.ErrTolerance, string) {
	var e osmomath.ErrTolerance
	switch rapid.IntRange(0, 3).Draw(rt, "addKind") {
	case 0: // unset
	case 1:
		e.AdditiveTolerance = osmomath.ZeroDec()
	case 2:
		e.AdditiveTolerance = osmomath.NewDec(rapid.Int64Range(1, 50).Draw(rt, "addSmall"))
	default:
		e.AdditiveTolerance = osmomath.NewDec(rapid.Int64Range(1, 1<<40).Draw(rt, "addLarge"))
	}
	switch rapid.IntRange(0, 3).Draw(rt, "mulKind") {
	case 0:
	case 1:
		e.MultiplicativeTolerance = osmomath.ZeroDec()
	case 2:
		e.MultiplicativeTolerance = osmomath.NewDecWithPrec(1, 6)
	default:
		e.MultiplicativeTolerance = osmomath.NewDecWithPrec(1, 2)
	}
	e.RoundingDir = rapid.SampledFrom([]osmomath.RoundingDirection{osmomath.RoundUnconstrained, osmomath.RoundUp, osmomath.RoundDown}).Draw(rt, "dir")
	return e, fmt.Sprintf("add=%v mul=%v dir=%d", e.AdditiveTolerance, e.MultiplicativeTolerance, e.RoundingDir)
}

// meets re-evaluates the documented tolerance on exact rationals; scale is the raw units per 1.
func meets(e osmomath.ErrTolerance, target, image *big.Int, scale *big.Int) (bool, string) {
	if e.RoundingDir == osmomath.RoundUp && target.Cmp(image) > 0 {
		return false, "image below the target although rounding up was requested"
	}
	if e.RoundingDir == osmomath.RoundDown && target.Cmp(image) < 0 {
		return false, "image above the target although rounding down was requested"
	}
	diff := new(big.Rat).SetFrac(new(big.Int).Abs(new(big.Int).Sub(target, image)), scale)
	if !e.AdditiveTolerance.IsNil() {
		add := new(big.Rat).SetFrac(e.AdditiveTolerance.BigInt(), P18)
		if diff.Cmp(add) > 0 {
			return false, fmt.Sprintf("|target-image| = %s exceeds the additive tolerance %s", diff.FloatString(6), add.FloatString(6))
		}
		if e.AdditiveTolerance.IsZero() {
			return true, ""
		}
	}
	if !e.MultiplicativeTolerance.IsNil() && !e.MultiplicativeTolerance.IsZero() {
		mn := new(big.Int).Abs(target)
		if ia := new(big.Int).Abs(image); ia.Cmp(mn) < 0 {
			mn = ia
		}
		if mn.Sign() == 0 {
			return diff.Sign() == 0, "multiplicative tolerance with a zero operand"
		}
		rel := new(big.Rat).Quo(diff, new(big.Rat).SetFrac(mn, scale))
		lim := new(big.Rat).SetFrac(e.MultiplicativeTolerance.BigInt(), P18)
		lim.Add(lim, big.NewRat(1, 1_000_000_000_000_000_000)) // one ulp for the rounded division
		if rel.Cmp(lim) > 0 {
			return false, fmt.Sprintf("relative error %s exceeds the multiplicative tolerance", rel.FloatString(20))
		}
	}
	return true, ""
}

func TestPropBinarySearch(t *testing.T) {
	drv.Check(t, drv.Cfg{Name: "binary-search", Rule: bsRule, Quick: 6000, Thorough: 250000}, func(rt *rapid.T, c *drv.Case) {
		scaled := rapid.Bool().Draw(rt, "bigdec")
		fn := genMono(rt, scaled)
		unit := big.NewInt(1)
		if scaled {
			unit = P36
		}
		// bounds are non-negative (every caller searches amounts)
		lo := new(big.Int).Mul(big.NewInt(rapid.Int64Range(0, 1000).Draw(rt, "lo")), unit)
		maxSpan := 90
		if !scaled {
			maxSpan = 78
		}
		span := randBits(rt, "span", rapid.IntRange(1, maxSpan).Draw(rt, "spanBits"))
		if scaled {
			span.Mul(span, ref.Pow10(rapid.IntRange(0, 36).Draw(rt, "spanShift")))
		}
		hi := new(big.Int).Add(lo, span)
		// target: image of a point inside, of an end, or outside the image
		var target *big.Int
		switch rapid.IntRange(0, 4).Draw(rt, "targetKind") {
		case 0:
			target = fn.f(lo)
		case 1:
			target = fn.f(hi)
		case 2:
			target = new(big.Int).Add(fn.f(hi), new(big.Int).Mul(big.NewInt(rapid.Int64Range(1, 1000).Draw(rt, "above")), unit))
		default:
			k := big.NewInt(rapid.Int64Range(0, 1<<30).Draw(rt, "k"))
			x := new(big.Int).Mul(span, k)
			x.Rsh(x, 30).Add(x, lo)
			target = fn.f(x)
			target.Add(target, big.NewInt(rapid.Int64Range(-3, 3).Draw(rt, "tOff")))
		}
		tol, tolStr := genTol(rt)
		iters := rapid.SampledFrom([]int{1, 2, 8, 40, 128, 300}).Draw(rt, "iters")
		failAt := -1
		if rapid.IntRange(0, 9).Draw(rt, "fFails") == 0 {
			failAt = rapid.IntRange(0, 5).Draw(rt, "failAt")
		}
		probes := 0
		var res *big.Int
		var err error
		if scaled {
			var r osmomath.BigDec
			r, err = osmomath.BinarySearchBigDec(func(x osmomath.BigDec) osmomath.BigDec {
				probes++
				return bd(fn.f(x.BigInt()))
			}, bd(lo), bd(hi), bd(target), tol, iters)
			if err == nil {
				res = r.BigInt()
			}
		} else {
			if target.BitLen() > 250 || hi.BitLen() > 250 {
				rt.Skip("outside sdk Int")
			}
			var r osmomath.Int
			r, err = osmomath.BinarySearch(func(x osmomath.Int) (osmomath.Int, error) {
				if probes == failAt {
					probes++
					return osmomath.Int{}, errors.New("f failed")
				}
				probes++
				return osmomath.NewIntFromBigInt(fn.f(x.BigInt())), nil
			}, osmomath.NewIntFromBigInt(lo), osmomath.NewIntFromBigInt(hi), osmomath.NewIntFromBigInt(target), tol, iters)
			if err == nil {
				res = r.BigInt()
			}
		}
		if probes > iters {
			rt.Fatalf("search probed f %d times with an iteration cap of %d", probes, iters)
		}
		if err != nil {
			c.Class("reported-error")
			return
		}
		if !scaled && failAt >= 0 && failAt < probes {
			rt.Fatalf("f failed at probe %d but the search returned %s", failAt, res)
		}
		if res.Cmp(lo) < 0 || res.Cmp(hi) > 0 {
			rt.Fatalf("result %s outside [%s,%s]", res, lo, hi)
		}
		img := fn.f(res)
		if ok, why := meets(tol, target, img, unit); !ok {
			rt.Fatalf("search(%s, [%s,%s], target=%s, %s, iters=%d, bigdec=%v) returned %s whose image %s does not meet the request: %s", fn.name, lo, hi, target, tolStr, iters, scaled, res, img, why)
		}
		c.Class(fmt.Sprintf("dir=%d", tol.RoundingDir))
		if probes > 1 {
			c.NonTrivial(fmt.Sprintf("%s|%s|%s|%s|%s|%d|%v", fn.name, lo, hi, target, tolStr, iters, scaled))
			c.Samplef("%s on [%s,%s] target=%s %s iters=%d bigdec=%v -> %s after %d probes", fn.name, lo, hi, target, tolStr, iters, scaled, res, probes)
		}
	})
}

const cmpRule = "ErrTolerance.Compare / CompareDec / CompareBigDec on random (expected, actual) pairs close together and far apart with every tolerance setting; oracle: result 0 iff the documented conditions (direction, additive, multiplicative) hold on exact rationals, otherwise the sign of expected-actual (direction violations report their own sign); non-trivial = pair within 2x of a tolerance boundary; distinct by tuple"

func TestPropCompare(t *testing.T) {
	drv.Check(t, drv.Cfg{Name: "err-tolerance-compare", Rule: cmpRule, Quick: 10000, Thorough: 400000}, func(rt *rapid.T, c *drv.Case) {
		tol, tolStr := genTol(rt)
		exp := rapid.Int64Range(0, 1<<45).Draw(rt, "expected")
		var act int64
		switch rapid.IntRange(0, 2).Draw(rt, "actKind") {
		case 0:
			act = exp + rapid.Int64Range(-60, 60).Draw(rt, "near")
		case 1:
			act = exp + exp/1_000_000*rapid.Int64Range(-3, 3).Draw(rt, "rel") + rapid.Int64Range(-2, 2).Draw(rt, "j")
		default:
			act = rapid.Int64Range(0, 1<<45).Draw(rt, "actual")
		}
		if act < 0 {
			act = 0
		}
		E, A := big.NewInt(exp), big.NewInt(act)
		okI, _ := meets(tol, E, A, big.NewInt(1))
		sign := E.Cmp(A)
		for _, v := range []string{"Int", "Dec", "BigDec"} {
			var got int
			switch v {
			case "Int":
				got = tol.Compare(osmomath.NewInt(exp), osmomath.NewInt(act))
			case "Dec":
				got = tol.CompareDec(osmomath.NewDec(exp), osmomath.NewDec(act))
			default:
				got = tol.CompareBigDec(osmomath.NewBigDec(exp), osmomath.NewBigDec(act))
			}
			if okI {
				// multiplicative tolerance with a zero operand and zero diff: the code reports "not equal"; that is conservative, allowed
				if got != 0 && !(E.Sign() == 0 || A.Sign() == 0) {
					rt.Fatalf("%s compare(expected=%d, actual=%d, %s) = %d but the pair is within tolerance", v, exp, act, tolStr, got)
				}
			} else {
				if got == 0 {
					rt.Fatalf("%s compare(expected=%d, actual=%d, %s) = 0 but the pair violates the tolerance", v, exp, act, tolStr)
				}
				if sign != 0 && got != sign {
					// a direction violation reports the direction sign, which equals the comparison sign as well
					rt.Fatalf("%s compare(expected=%d, actual=%d, %s) = %d, sign of expected-actual is %d", v, exp, act, tolStr, got, sign)
				}
			}
		}
		c.NonTrivial(fmt.Sprintf("%d|%d|%s", exp, act, tolStr))
		c.Samplef("compare(%d,%d,%s) within=%v", exp, act, tolStr, okI)
	})
}
