package c13

import (
	"fmt"
	"math/big"
	"testing"

	"pgregory.net/rapid"

	"github.com/osmosis-labs/osmosis/osmomath"

	"verif/harness/drv"
	"verif/harness/ref"
)

func TestMain(m *testing.M) { drv.Main(m) }

var (
	P36 = ref.Pow10(36)
	P18 = ref.Pow10(18)
)

func bd(v *big.Int) osmomath.BigDec {
	return osmomath.NewBigDecFromBigIntWithPrec(new(big.Int).Set(v), 36)
}
func dec(v *big.Int) osmomath.Dec { return osmomath.NewDecFromBigIntWithPrec(new(big.Int).Set(v), 18) }

// untouched fails if a call changed the value of an operand it was given: the functions take their operands by value
// but Dec/BigDec wrap a pointer, so an in-place update inside the function makes every later evaluation "for the same
// input" operate on a different number. ops are (name, value after the call, value before the call) triples.
type operand struct {
	name          string
	after, before *big.Int
}

func untouched(rt *rapid.T, fn string, ops ...operand) {
	for _, o := range ops {
		if o.after.Cmp(o.before) != 0 {
			rt.Fatalf("%s changed its operand %s in place: it was %s and is %s after the call", fn, o.name, o.before, o.after)
		}
	}
}

func tenPowF(n int) *big.Float { // 10^-n
	return ref.Fquo(ref.F(1), ref.FI(ref.Pow10(n)))
}

func try(f func()) (panicked bool, msg any) {
	defer func() {
		if r := recover(); r != nil {
			panicked, msg = true, r
		}
	}()
	f()
	return
}

func randBits(rt *rapid.T, label string, bits int) *big.Int {
	if bits <= 0 {
		return new(big.Int)
	}
	n := (bits + 7) / 8
	bz := rapid.SliceOfN(rapid.Byte(), n, n).Draw(rt, label+"Bytes")
	v := new(big.Int).SetBytes(bz)
	v.SetBit(v, bits-1, 1)
	for i := bits; i < n*8; i++ {
		v.SetBit(v, i, 0)
	}
	return v
}

// ---- self-test of the reference functions ----------------------------------------------------

func TestRegressRefSelfTest(t *testing.T) {
	tiny := tenPowF(250)
	for _, k := range []int{-100, -1, 0, 1, 7, 511} {
		x := ref.Exp2(ref.F(float64(k)))
		if ref.Fabs(ref.Fsub(ref.Log2(x), ref.F(float64(k)))).Cmp(tiny) > 0 {
			t.Fatalf("ref: log2(2^%d) off", k)
		}
	}
	for _, s := range []string{"0.000001", "0.5", "0.999999999", "1.0000001", "1.9999", "3", "123456789.125", "1e300"} {
		x, _ := new(big.Float).SetPrec(ref.Prec).SetString(s)
		if ref.RelErr(ref.Exp2(ref.Log2(x)), x).Cmp(tiny) > 0 {
			t.Fatalf("ref: exp2(log2(%s)) off", s)
		}
		// pow(x, 3/7)^7 == x^3
		y := ref.Pow(x, ref.Fquo(ref.F(3), ref.F(7)))
		y7 := ref.F(1)
		for i := 0; i < 7; i++ {
			y7 = ref.Fmul(y7, y)
		}
		x3 := ref.Fmul(x, ref.Fmul(x, x))
		if ref.RelErr(y7, x3).Cmp(tiny) > 0 {
			t.Fatalf("ref: pow(%s,3/7)^7 != x^3", s)
		}
	}
}

// ---- Exp2 -----------------------------------------------------------------------------------

const exp2Rule = "x in [0,512] as a 36-decimal value: uniform, exact integers, integers +- k ulp, 0, 512, and the outside neighbours (negative, 512+1ulp must fail); oracle: 1024-bit big.Float 2^x, |r/2^x - 1| <= 1e-18; non-trivial = x not an integer; distinct by x"

func TestPropExp2(t *testing.T) {
	max := new(big.Int).Mul(big.NewInt(512), P36)
	tol := tenPowF(18)
	drv.Check(t, drv.Cfg{Name: "exp2", Rule: exp2Rule, Quick: 4000, Thorough: 120000}, func(rt *rapid.T, c *drv.Case) {
		var x *big.Int
		switch rapid.IntRange(0, 6).Draw(rt, "shape") {
		case 0, 1:
			x = randBits(rt, "x", rapid.IntRange(0, 129).Draw(rt, "bits"))
			x.Mod(x, new(big.Int).Add(max, ref.One))
		case 2:
			x = new(big.Int).Mul(big.NewInt(int64(rapid.IntRange(0, 512).Draw(rt, "int"))), P36)
		case 3:
			x = new(big.Int).Mul(big.NewInt(int64(rapid.IntRange(0, 512).Draw(rt, "int"))), P36)
			x.Add(x, big.NewInt(int64(rapid.IntRange(-3, 3).Draw(rt, "off"))))
		case 4: // small fractions
			x = randBits(rt, "x", rapid.IntRange(0, 120).Draw(rt, "bits"))
		case 5: // outside the domain
			if rapid.Bool().Draw(rt, "neg") {
				x = new(big.Int).Neg(randBits(rt, "x", rapid.IntRange(1, 130).Draw(rt, "bits")))
			} else {
				x = new(big.Int).Add(max, randBits(rt, "x", rapid.IntRange(1, 130).Draw(rt, "bits")))
			}
		default:
			x = new(big.Int).Mul(big.NewInt(int64(rapid.IntRange(0, 511).Draw(rt, "int"))), P36)
			x.Add(x, new(big.Int).Mul(big.NewInt(int64(rapid.IntRange(1, 999).Draw(rt, "milli"))), ref.Pow10(33)))
		}
		var r osmomath.BigDec
		X := bd(x)
		pan, msg := try(func() { r = osmomath.Exp2(X) })
		if !pan {
			untouched(rt, "Exp2", operand{"x", X.BigInt(), x})
		}
		if x.Sign() < 0 || x.Cmp(max) > 0 {
			if !pan {
				rt.Fatalf("Exp2(%s/1e36) outside [0,512] returned %s instead of failing", x, r)
			}
			c.Class("out-of-domain")
			c.NonTrivial("out|" + x.String())
			c.Samplef("Exp2(%s/1e36) -> fails as documented", x)
			return
		}
		if pan {
			rt.Fatalf("Exp2(%s/1e36) inside the domain panicked: %v", x, msg)
		}
		want := ref.Exp2(ref.FScaled(x, 36))
		got := ref.FScaled(r.BigInt(), 36)
		if e := ref.RelErr(got, want); e.Cmp(tol) > 0 {
			rt.Fatalf("Exp2(%s/1e36) = %s, true %s, relative error %s > 1e-18", x, r, want.Text('g', 50), e.Text('g', 6))
		}
		if !ref.Exact(x, P36) {
			c.NonTrivial(x.String())
			c.Samplef("Exp2(%s/1e36) = %s", x, r)
		}
	})
}

// ---- logarithms -----------------------------------------------------------------------------

const logRule = "x = any positive 36-decimal value with bit length uniform in [1,1144] (so binary exponent -119..1024), powers of two exactly, values within a few ulp of 1 and 2, smallest and largest; functions LogBase2/Ln/TickLog/CustomBaseLog(base in (0,1)u(1,2^40)); oracle: 1024-bit reference, |r - log2 x| <= 1e-32 and for derived bases the same error propagated through the division (du + |r| dv)/|log2 b| + 1 ulp; exact powers of two must give the integer exactly; x<=0 and illegal bases must fail; non-trivial = x not a power of two; distinct by (fn,x,base)"

func genPos(rt *rapid.T, label string, maxBits int) *big.Int {
	switch rapid.IntRange(0, 7).Draw(rt, label+"Shape") {
	case 0: // 2^k representable: k in [-36, 1020]
		k := rapid.IntRange(-36, maxBits-122).Draw(rt, label+"K")
		v := new(big.Int).Set(P36)
		if k >= 0 {
			v.Lsh(v, uint(k))
		} else {
			v.Rsh(v, uint(-k))
		}
		return v
	case 1: // near 1
		v := new(big.Int).Set(P36)
		return v.Add(v, big.NewInt(int64(rapid.IntRange(-1000, 1000).Draw(rt, label+"Off"))))
	case 2: // near 2
		v := new(big.Int).Mul(P36, ref.Two)
		return v.Add(v, big.NewInt(int64(rapid.IntRange(-1000, 1000).Draw(rt, label+"Off"))))
	case 3:
		return big.NewInt(int64(rapid.IntRange(1, 1000).Draw(rt, label+"Tiny"))) // few ulps
	case 4:
		v := new(big.Int).Lsh(ref.One, uint(maxBits))
		return v.Sub(v, big.NewInt(int64(rapid.IntRange(1, 1000).Draw(rt, label+"Below"))))
	default:
		return randBits(rt, label, rapid.IntRange(1, maxBits).Draw(rt, label+"Bits"))
	}
}

func TestPropLog(t *testing.T) {
	e32 := tenPowF(32)
	ulp := tenPowF(36)
	drv.Check(t, drv.Cfg{Name: "logarithms", Rule: logRule, Quick: 1500, Thorough: 40000}, func(rt *rapid.T, c *drv.Case) {
		fn := rapid.SampledFrom([]string{"LogBase2", "LogBase2", "Ln", "TickLog", "CustomBaseLog"}).Draw(rt, "fn")
		var x *big.Int
		if rapid.IntRange(0, 14).Draw(rt, "bad") == 0 {
			x = new(big.Int).Neg(randBits(rt, "xneg", rapid.IntRange(0, 200).Draw(rt, "nbits")))
		} else {
			x = genPos(rt, "x", 1144)
		}
		var base *big.Int
		if fn == "CustomBaseLog" {
			switch rapid.IntRange(0, 9).Draw(rt, "baseShape") {
			case 0:
				base = new(big.Int).Set(P36) // base 1: illegal
			case 1:
				base = new(big.Int).Neg(randBits(rt, "bneg", rapid.IntRange(0, 100).Draw(rt, "bnbits")))
			case 2:
				base = new(big.Int).Mul(big.NewInt(int64(rapid.IntRange(2, 1000).Draw(rt, "bint"))), P36)
			case 3: // bases close to one: huge amplification
				base = new(big.Int).Add(P36, ref.Pow10(rapid.IntRange(20, 35).Draw(rt, "bclose")))
			default:
				base = genPos(rt, "b", 160)
			}
		}
		var r osmomath.BigDec
		X := bd(x)
		var B osmomath.BigDec
		if base != nil {
			B = bd(base)
		}
		pan, msg := try(func() {
			switch fn {
			case "LogBase2":
				r = X.LogBase2()
			case "Ln":
				r = X.Ln()
			case "TickLog":
				r = X.TickLog()
			default:
				r = X.CustomBaseLog(B)
			}
		})
		if !pan {
			untouched(rt, fn, operand{"x", X.BigInt(), x})
			if base != nil {
				untouched(rt, fn, operand{"base", B.BigInt(), base})
			}
		}
		illegal := x.Sign() <= 0 || (base != nil && (base.Sign() <= 0 || base.Cmp(P36) == 0))
		if illegal {
			if !pan {
				rt.Fatalf("%s(x=%s/1e36, base=%v) outside the domain returned %s", fn, x, base, r)
			}
			c.Class("out-of-domain")
			return
		}
		if pan {
			// a derived logarithm may overflow the 1144-bit bound for bases extremely close to 1: that is a loud failure, allowed
			if fn == "CustomBaseLog" {
				c.Class("loud-failure")
				return
			}
			rt.Fatalf("%s(%s/1e36) panicked inside the domain: %v", fn, x, msg)
		}
		xf := ref.FScaled(x, 36)
		lx := ref.Log2(xf)
		got := ref.FScaled(r.BigInt(), 36)
		var want, tol *big.Float
		switch fn {
		case "LogBase2":
			want, tol = lx, e32
			if x.BitLen() > 0 && new(big.Int).And(x, new(big.Int).Sub(x, ref.One)).Sign() == 0 || isPow2Scaled(x) {
				// exact power of two times 10^36? handled below
			}
		default:
			var lb, dv *big.Float
			switch fn {
			case "Ln":
				lb, dv = ref.Log2(ref.Exp(ref.F(1))), ulp
			case "TickLog":
				lb, dv = ref.Log2(ref.FScaled(big.NewInt(10001), 4)), ulp
			default:
				lb, dv = ref.Log2(ref.FScaled(base, 36)), e32
			}
			want = ref.Fquo(lx, lb)
			// |d(u/v)| <= (du + |r| dv)/|v| ; plus one ulp for the rounding of the final quotient
			tol = ref.Fadd(ref.Fquo(ref.Fadd(e32, ref.Fmul(ref.Fabs(want), dv)), ref.Fabs(lb)), ulp)
		}
		if d := ref.Fabs(ref.Fsub(got, want)); d.Cmp(tol) > 0 {
			rt.Fatalf("%s(x=%s/1e36, base=%v) = %s, true %s: error %s exceeds %s", fn, x, base, r, want.Text('f', 45), d.Text('g', 6), tol.Text('g', 6))
		}
		if k, ok := pow2Exp(x); ok && fn == "LogBase2" {
			if r.BigInt().Cmp(new(big.Int).Mul(big.NewInt(int64(k)), P36)) != 0 {
				rt.Fatalf("LogBase2(2^%d) = %s, must be the integer exactly", k, r)
			}
			c.Class("power-of-two")
			return
		}
		c.Class("fn=" + fn)
		c.NonTrivial(fmt.Sprintf("%s|%s|%v", fn, x, base))
		c.Samplef("%s(%s/1e36%s) = %s", fn, x, baseStr(base), r)
	})
}

func baseStr(b *big.Int) string {
	if b == nil {
		return ""
	}
	return ", base " + b.String() + "/1e36"
}

func isPow2Scaled(x *big.Int) bool { _, ok := pow2Exp(x); return ok }

// pow2Exp reports whether x/1e36 is exactly 2^k.
func pow2Exp(x *big.Int) (int, bool) {
	for k := -36; k <= 1024; k++ {
		v := new(big.Int).Set(P36)
		if k >= 0 {
			v.Lsh(v, uint(k))
		} else {
			if new(big.Int).Rem(P36, new(big.Int).Lsh(ref.One, uint(-k))).Sign() != 0 {
				continue
			}
			v.Rsh(v, uint(-k))
		}
		if v.Cmp(x) == 0 {
			return k, true
		}
		if k >= 0 && v.Cmp(x) > 0 {
			break
		}
	}
	return 0, false
}

// ---- Pow ------------------------------------------------------------------------------------

const powRule = "Pow(base, exp) with base in (0,2) drawn near 0, near 1, near 2, uniform, and as reserve ratios b/(b+a); exponent in [0, 64) drawn as weight ratios w1/w2, 0, 1/2, integers and arbitrary 18-decimal values; plus PowApprox directly with precision 1e-8; base<=0 and base>=2 must fail; oracle: 1024-bit x^y with tolerance = base^floor(exp) * 1e-8 * max(1, |x|/(1-|x|)) (x = base-1: the Maclaurin tail bound of the series' stopping rule, alternating for x>0) + 1e-15 rounding allowance; an iteration-limit / overflow panic is a loud failure (counted); non-trivial = fractional exponent; distinct by (base,exp)"

func TestPropPow(t *testing.T) {
	two := new(big.Int).Mul(ref.Two, P18)
	drv.Check(t, drv.Cfg{Name: "pow", Rule: powRule, Quick: 4000, Thorough: 120000}, func(rt *rapid.T, c *drv.Case) {
		var b *big.Int
		switch rapid.IntRange(0, 7).Draw(rt, "baseShape") {
		case 0: // near zero
			b = randBits(rt, "b", rapid.IntRange(1, 50).Draw(rt, "bits"))
		case 1: // near one
			b = new(big.Int).Add(P18, big.NewInt(rapid.Int64Range(-1_000_000_000, 1_000_000_000).Draw(rt, "off")))
		case 2: // near two
			b = new(big.Int).Sub(two, big.NewInt(rapid.Int64Range(0, 1_000_000_000).Draw(rt, "off")))
		case 3: // out of domain
			if rapid.Bool().Draw(rt, "low") {
				b = new(big.Int).Neg(randBits(rt, "b", rapid.IntRange(0, 70).Draw(rt, "bits")))
			} else {
				b = new(big.Int).Add(two, randBits(rt, "b", rapid.IntRange(0, 70).Draw(rt, "bits")))
			}
		case 4: // reserve ratio B/(B+a)
			B := rapid.Int64Range(1, 1<<50).Draw(rt, "B")
			a := rapid.Int64Range(1, 1<<50).Draw(rt, "a")
			b = new(big.Int).Quo(new(big.Int).Mul(big.NewInt(B), P18), big.NewInt(B+a))
		default:
			b = big.NewInt(rapid.Int64Range(1, 2_000_000_000_000_000_000-1).Draw(rt, "b"))
		}
		var e *big.Int
		switch rapid.IntRange(0, 6).Draw(rt, "expShape") {
		case 0:
			e = new(big.Int)
		case 1:
			e = new(big.Int).Quo(P18, ref.Two)
		case 2:
			e = new(big.Int).Mul(big.NewInt(int64(rapid.IntRange(0, 40).Draw(rt, "eint"))), P18)
		case 3, 4: // weight ratio
			w1 := rapid.Int64Range(1, 1<<20).Draw(rt, "w1")
			w2 := rapid.Int64Range(1, 1<<20).Draw(rt, "w2")
			e = new(big.Int).Quo(new(big.Int).Mul(big.NewInt(w1), P18), big.NewInt(w2))
			if e.Cmp(new(big.Int).Mul(big.NewInt(64), P18)) >= 0 {
				e.Mod(e, new(big.Int).Mul(big.NewInt(64), P18))
			}
		default:
			e = big.NewInt(rapid.Int64Range(0, 4_000_000_000_000_000_000).Draw(rt, "e"))
		}
		direct := rapid.IntRange(0, 3).Draw(rt, "direct") == 0 && e.Cmp(P18) < 0 && b.Sign() > 0 && b.Cmp(two) <= 0
		var r osmomath.Dec
		B, E := dec(b), dec(e)
		pan, msg := try(func() {
			if direct {
				r = osmomath.PowApprox(B, E, osmomath.GetPowPrecision())
			} else {
				r = osmomath.Pow(B, E)
			}
		})
		if !pan {
			untouched(rt, "Pow", operand{"base", B.BigInt(), b}, operand{"exponent", E.BigInt(), e})
		}
		if b.Sign() <= 0 || (!direct && b.Cmp(two) >= 0) {
			if !pan {
				rt.Fatalf("Pow(%s/1e18, %s/1e18) outside the domain returned %s", b, e, r)
			}
			c.Class("out-of-domain")
			return
		}
		if pan {
			c.Class("loud-failure")
			_ = msg
			return
		}
		bf, ef := ref.FScaled(b, 18), ref.FScaled(e, 18)
		want := ref.Pow(bf, ef)
		got := ref.FScaled(r.BigInt(), 18)
		x := ref.Fabs(ref.Fsub(bf, ref.F(1)))
		amp := ref.F(1)
		if bf.Cmp(ref.F(1)) < 0 { // same-sign series: geometric tail bound
			if a := ref.Fquo(x, ref.Fsub(ref.F(1), x)); a.Cmp(amp) > 0 {
				amp = a
			}
		}
		ipow := ref.Pow(bf, ref.FI(new(big.Int).Quo(e, P18)))
		tol := ref.Fadd(ref.Fmul(ipow, ref.Fmul(tenPowF(8), amp)), ref.Fmul(tenPowF(15), ref.Fadd(ref.F(1), want)))
		frac := !ref.Exact(e, P18)
		if !frac {
			tol = ref.Fmul(tenPowF(15), ref.Fadd(ref.F(1), want)) // integer powers: rounding only
		}
		if d := ref.Fabs(ref.Fsub(got, want)); d.Cmp(tol) > 0 {
			rt.Fatalf("Pow(%s/1e18, %s/1e18) = %s, true %s: error %s exceeds %s (series tail amplification %s)", b, e, r, want.Text('f', 30), d.Text('g', 6), tol.Text('g', 6), amp.Text('g', 6))
		}
		if frac {
			c.NonTrivial(b.String() + "|" + e.String())
			c.Samplef("Pow(%s/1e18, %s/1e18) = %s", b, e, r)
		}
	})
}

// ---- monotone square roots ------------------------------------------------------------------

const sqrtRule = "MonotonicSqrt (18 dec) and MonotonicSqrtBigDec (36 dec): d drawn with bit length uniform up to 315 / 1000 bits, perfect squares +- 1 ulp, inputs a whole number of 32/64/128-bit words above a perfect square (d*scale = r^2 + k*2^w, constructed), 0, 1 ulp; pairs d1<=d2 with gap 1 ulp, small, large; negative must error; oracle (big.Int): r^2 >= d and (r-1ulp)^2 < d (least such value), r1 <= r2; non-trivial = d not a perfect square; distinct by (variant,d)"

func TestPropSqrt(t *testing.T) {
	drv.Check(t, drv.Cfg{Name: "monotonic-sqrt", Rule: sqrtRule, Quick: 6000, Thorough: 300000}, func(rt *rapid.T, c *drv.Case) {
		big36 := rapid.Bool().Draw(rt, "bigdec")
		scale, maxBits := P18, 250
		if big36 {
			scale, maxBits = P36, 1000
		}
		gen := func(label string) *big.Int {
			switch rapid.IntRange(0, 6).Draw(rt, label+"Shape") {
			case 0:
				return big.NewInt(int64(rapid.IntRange(0, 5).Draw(rt, label+"Small")))
			case 1: // perfect square (of a grid value) +- 1
				s := randBits(rt, label, rapid.IntRange(0, maxBits/2).Draw(rt, label+"Bits"))
				v := new(big.Int).Mul(s, s)
				v.Quo(v, scale)
				return v.Add(v, big.NewInt(int64(rapid.IntRange(-1, 1).Draw(rt, label+"Off")))).Abs(v)
			case 2:
				// limb-aligned shortfall: d*scale = r^2 + k*2^w (w = 32, 64, 128), the input lies a whole number of machine
				// words above a perfect square, so its low words equal those of r^2 although r is not its exact root.
				// scale = 2^p 5^p: r is a multiple of 2^(p/2), k solves r^2 + k 2^w = 0 (mod 5^p), and r is large enough
				// for floor(sqrt(r^2 + k 2^w)) = r.
				pw := 18
				ws := []int{32, 64}
				if big36 {
					pw, ws = 36, []int{64, 128}
				}
				w := ws[rapid.IntRange(0, len(ws)-1).Draw(rt, label+"Word")]
				five := new(big.Int).Exp(big.NewInt(5), big.NewInt(int64(pw)), nil)
				half := new(big.Int).Lsh(ref.One, uint(pw/2))
				r := randBits(rt, label, five.BitLen()+w+rapid.IntRange(1, 30).Draw(rt, label+"Extra"))
				r.SetBit(r, five.BitLen()+w, 1) // at least 2^(bits(5^p)+w)
				r.Sub(r, new(big.Int).Mod(r, half))
				for new(big.Int).Mod(r, big.NewInt(5)).Sign() == 0 {
					r.Add(r, half)
				}
				twoW := new(big.Int).Lsh(ref.One, uint(w))
				inv := new(big.Int).ModInverse(new(big.Int).Mod(twoW, five), five)
				k := new(big.Int).Mul(r, r)
				k.Neg(k).Mul(k, inv).Mod(k, five)
				if k.Sign() == 0 {
					k.Set(five)
				}
				n := new(big.Int).Mul(r, r)
				n.Add(n, new(big.Int).Mul(k, twoW))
				q, rem := new(big.Int).QuoRem(n, scale, new(big.Int))
				if rem.Sign() != 0 || new(big.Int).Sqrt(n).Cmp(r) != 0 {
					rt.Fatalf("harness: limb-aligned construction broken (rem %s)", rem)
				}
				c.Class("limb-aligned-shortfall")
				return q
			default:
				return randBits(rt, label, rapid.IntRange(0, maxBits).Draw(rt, label+"Bits"))
			}
		}
		sqrt := func(d *big.Int) (*big.Int, error) {
			if big36 {
				D := bd(d)
				r, err := osmomath.MonotonicSqrtBigDec(D)
				if err != nil {
					return nil, err
				}
				untouched(rt, "MonotonicSqrtBigDec", operand{"d", D.BigInt(), d})
				return r.BigInt(), nil
			}
			D := dec(d)
			r, err := osmomath.MonotonicSqrt(D)
			if err != nil {
				return nil, err
			}
			untouched(rt, "MonotonicSqrt", operand{"d", D.BigInt(), d})
			return r.BigInt(), nil
		}
		if rapid.IntRange(0, 19).Draw(rt, "neg") == 0 {
			d := new(big.Int).Neg(randBits(rt, "dn", rapid.IntRange(1, 100).Draw(rt, "nb")))
			if _, err := sqrt(d); err == nil {
				rt.Fatalf("sqrt of negative %s did not error", d)
			}
			c.Class("negative")
			return
		}
		d1 := gen("d1")
		var d2 *big.Int
		switch rapid.IntRange(0, 2).Draw(rt, "gap") {
		case 0:
			d2 = new(big.Int).Add(d1, ref.One)
		case 1:
			d2 = new(big.Int).Add(d1, big.NewInt(rapid.Int64Range(0, 1<<40).Draw(rt, "gapSmall")))
		default:
			d2 = new(big.Int).Add(d1, gen("d2"))
		}
		check := func(d *big.Int) *big.Int {
			orig := new(big.Int).Set(d)
			r, err := sqrt(d)
			if err != nil {
				rt.Fatalf("sqrt(%s): %v", d, err)
			}
			// r^2 >= d*scale  and (r-1)^2 < d*scale   (values scaled by `scale`)
			ds := new(big.Int).Mul(orig, scale)
			if new(big.Int).Mul(r, r).Cmp(ds) < 0 {
				rt.Fatalf("sqrt(%s/scale) = %s/scale: square is below the input", orig, r)
			}
			if r.Sign() > 0 {
				rm := new(big.Int).Sub(r, ref.One)
				if new(big.Int).Mul(rm, rm).Cmp(ds) >= 0 {
					rt.Fatalf("sqrt(%s/scale) = %s/scale is not the least value whose square reaches the input", orig, r)
				}
			}
			return r
		}
		r1, r2 := check(d1), check(d2)
		if r1.Cmp(r2) > 0 {
			rt.Fatalf("sqrt not monotone: sqrt(%s)=%s > sqrt(%s)=%s", d1, r1, d2, r2)
		}
		c.Class(fmt.Sprintf("bigdec=%v", big36))
		c.NonTrivial(fmt.Sprintf("%v|%s|%s", big36, d1, d2))
		c.Samplef("sqrt36=%v d1=%s d2=%s -> %s, %s", big36, d1, d2, r1, r2)
	})
}

// ---- significant-figure rounding ------------------------------------------------------------

const sigRule = "SigFigRound(d, 10^s): d positive over 36 decades (18-decimal grid) incl. exact halves and 0; s in 1..18; oracle: with k the least shift making d*10^k >= 0.1 and u = 10^-(s+k) the unit of the last kept digit, |r - d| <= u/2 + 1 ulp; zero maps to zero; non-trivial = d has more than s significant digits; distinct by (d,s)"

func TestPropSigFig(t *testing.T) {
	drv.Check(t, drv.Cfg{Name: "sigfig-round", Rule: sigRule, Quick: 6000, Thorough: 200000}, func(rt *rapid.T, c *drv.Case) {
		s := rapid.IntRange(1, 18).Draw(rt, "s")
		var d *big.Int
		switch rapid.IntRange(0, 4).Draw(rt, "shape") {
		case 0:
			d = new(big.Int)
		case 1:
			d = randBits(rt, "d", rapid.IntRange(1, 120).Draw(rt, "bits"))
		case 2: // digits then a 5 then zeros: exact half at some digit
			m := big.NewInt(rapid.Int64Range(1, 1_000_000_000).Draw(rt, "m"))
			d = new(big.Int).Add(new(big.Int).Mul(m, big.NewInt(10)), big.NewInt(5))
			d.Mul(d, ref.Pow10(rapid.IntRange(0, 20).Draw(rt, "shift")))
		default:
			d = big.NewInt(rapid.Int64Range(1, 1<<62).Draw(rt, "d"))
		}
		D := dec(d)
		r := osmomath.SigFigRound(D, osmomath.NewIntFromBigInt(ref.Pow10(s)))
		untouched(rt, "SigFigRound", operand{"d", D.BigInt(), d})
		if d.Sign() == 0 {
			if !r.IsZero() {
				rt.Fatalf("SigFigRound(0) = %s", r)
			}
			return
		}
		// k = least k>=0 with d*10^k >= 0.1  (d scaled by 1e18: d*10^k >= 1e17)
		k := 0
		for t := new(big.Int).Set(d); t.Cmp(ref.Pow10(17)) < 0; k++ {
			t.Mul(t, ref.Ten)
		}
		// u = 10^-(s+k) in 1e18 units = 10^(18-s-k) ; may be below one ulp
		diff := new(big.Rat).SetInt(new(big.Int).Sub(r.BigInt(), d))
		diff.Abs(diff)
		u := new(big.Rat).SetFrac(ref.Pow10(18), ref.Pow10(s+k)) // in ulps
		bound := new(big.Rat).Add(new(big.Rat).Quo(u, big.NewRat(2, 1)), big.NewRat(1, 1))
		if diff.Cmp(bound) > 0 {
			rt.Fatalf("SigFigRound(%s/1e18, 10^%d) = %s moved the value by %s ulp; half a unit of the last kept digit (k=%d) is %s ulp", d, s, r, diff.FloatString(1), k, bound.FloatString(1))
		}
		if diff.Sign() != 0 {
			c.NonTrivial(fmt.Sprintf("%s|%d", d, s))
			c.Samplef("SigFigRound(%s/1e18, 10^%d) = %s", d, s, r)
		}
	})
}


// TestRegress_C13_sigfig_input: SigFigRound scaled a caller's value below 0.1 in place (fixed).
func TestRegress_C13_sigfig_input(t *testing.T) {
	d := osmomath.MustNewDecFromStr("0.0012345")
	r := osmomath.SigFigRound(d, osmomath.NewInt(100))
	if !d.Equal(osmomath.MustNewDecFromStr("0.0012345")) {
		t.Fatalf("SigFigRound(0.0012345, 100) changed its argument to %s", d)
	}
	if !r.Equal(osmomath.MustNewDecFromStr("0.0012")) {
		t.Fatalf("SigFigRound(0.0012345, 100) = %s", r)
	}
}
