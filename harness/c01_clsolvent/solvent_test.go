package c01

import (
	"fmt"
	"strings"
	"testing"

	"pgregory.net/rapid"

	"verif/harness/clsim"
	"verif/harness/drv"
)

func TestMain(m *testing.M) { drv.Main(m) }

const rule = "same CL state machine as C07 (one pool of the real application, tx semantics, all spacings/spread factors/scaling regimes, 4 actors, LP/swap/claim/transfer/incentive/time operations with amounts over 30 decades); oracle on a discarded branch after every step (quick tier: every 3rd step and at the end): sum of claimable spread rewards <= spread-reward account, sum of claimable+forfeitable incentives <= incentive account, then every unlocked position - in a generated order - collects both reward kinds and withdraws fully and every one of these transactions must succeed, the pool ends un-initialised and the remainder in the pool and spread-reward accounts is bounded rounding dust; an owner's withdrawal or claim that fails during the history is a violation too; non-trivial = >= 2 positions, a swap that changed the tick and a withdrawal or claim after it; distinct by history hash"

func TestPropSolvency(t *testing.T) {
	every := 3
	if drv.Thorough() {
		every = 1
	}
	drv.Check(t, drv.Cfg{Name: "cl-solvency", Rule: rule, Quick: 500, Thorough: 4000, Steps: 30, TSteps: 60}, func(rt *rapid.T, c *drv.Case) {
		s := clsim.New(rt, t)
		s.StrictExit = true
		acts := s.Actions()
		step := 0
		acts[""] = func(rt *rapid.T) {
			step++
			s.CheckBookkeeping(rt) // keeps MaxTicks current; bookkeeping failures surface under C07 as well
			if step%every == 0 {
				s.CheckSolvency(rt)
			}
		}
		rt.Repeat(acts)
		s.CheckSolvency(rt)
		for k, n := range s.Classes {
			if n > 0 {
				c.Class(k)
			}
		}
		if s.Classes["swap-changed-tick"] > 0 && (s.Classes["full-withdrawal"]+s.Classes["partial-withdrawal"]+s.Classes["collect-spread"]) > 0 && s.LPOps >= 3 {
			c.NonTrivial(s.Describe() + "|" + strings.Join(s.Hist, ";"))
			c.Sample(fmt.Sprintf("%s :: %s", s.Describe(), strings.Join(s.Hist, "; ")))
		}
	})
}
