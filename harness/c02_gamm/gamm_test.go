package c02

import (
	"fmt"
	"math/big"
	"sort"
	"strings"
	"testing"
	"time"

	sdk "github.com/cosmos/cosmos-sdk/types"
	banktypes "github.com/cosmos/cosmos-sdk/x/bank/types"
	"pgregory.net/rapid"

	"github.com/osmosis-labs/osmosis/osmomath"
	"github.com/osmosis-labs/osmosis/v31/app"
	"github.com/osmosis-labs/osmosis/v31/x/gamm/pool-models/balancer"
	"github.com/osmosis-labs/osmosis/v31/x/gamm/pool-models/stableswap"
	gammtypes "github.com/osmosis-labs/osmosis/v31/x/gamm/types"
	pmtypes "github.com/osmosis-labs/osmosis/v31/x/poolmanager/types"
	txfeestypes "github.com/osmosis-labs/osmosis/v31/x/txfees/types"

	"verif/harness/chain"
	"verif/harness/drv"
)

func TestMain(m *testing.M) { drv.Main(m) }

const rule = "state machine on the real application (tx semantics): 3 funded actors and one poor actor (1000 units of each denom: its messages mostly name amounts it does not own and must fail as a whole), 5 shared denoms; half of the stableswap pools with a scaling-factor controller who re-scales the live pool (others rejected); create balancer pools (2-5 assets, weights 1..2^20-1, spread 0..5%; a third of them weight-changing: start now..+1h, duration 1m..1d, target entries carrying creation amounts, zero or arbitrary token fields) with block time advancing by 1s..3d between messages, and stableswap pools (2-5 assets, scaling factors 1..1e6), MsgJoinPool, MsgJoinSwapExternAmountIn, MsgJoinSwapShareAmountOut, MsgExitPool (incl. dust exits of 1..1000 share units), MsgExitSwapShareAmountIn, MsgExitSwapExternAmountOut, 1-3 hop MsgSwapExactAmountIn/Out (a fifth of the exact-in swaps with a minimum output that cannot be met: computed, then rejected), split routes exact-in and exact-out through poolmanager, two-message transactions whose second message fails (the first message's swap is rolled back with it), direct bank sends to a pool address, default/per-pair taker fee changes; oracle after every step: bank balance of each pool account == reserves the pool reports + directly sent, bank supply of each gamm/pool/N == total shares the pool reports, supply of every non-share denom unchanged, and around every message the balance deltas of all tracked accounts (actors, pools, every module account) sum to zero per denom; single-hop swaps: taker-fee collector receives exactly in - floor(in(1-f)) (exact in) or ceil(x/(1-f)) - x (exact out); failed messages leave the digest unchanged; non-trivial = >= 2 pools touched, a multi-hop swap, a single-asset join or exit and a failed message; distinct by history hash"

var denoms = []string{"aaa", "bbb", "ccc", "ddd", "uosmo"}

type world struct {
	c                        *chain.Chain
	pools                    []uint64
	isStab                   map[uint64]bool
	controller               map[uint64]int                 // stableswap pools with a scaling-factor controller: pool id -> actor
	direct                   map[uint64]map[string]*big.Int // coins sent straight to a pool address
	tracked                  []sdk.AccAddress
	hist                     []string
	classes                  map[string]bool
	multiHop, single, failed bool
}

func coin(d string, a *big.Int) sdk.Coin { return sdk.NewCoin(d, osmomath.NewIntFromBigInt(a)) }

func (w *world) pool(id uint64) gammtypes.CFMMPoolI {
	p, err := w.c.App.GAMMKeeper.GetCFMMPool(w.c.Ctx, id)
	if err != nil {
		panic(err)
	}
	return p
}

func (w *world) supply() map[string]*big.Int {
	out := map[string]*big.Int{}
	w.c.App.BankKeeper.IterateTotalSupply(w.c.Ctx, func(c sdk.Coin) bool {
		out[c.Denom] = c.Amount.BigInt()
		return false
	})
	return out
}

func (w *world) snapshot() map[string]map[string]*big.Int {
	out := map[string]map[string]*big.Int{}
	for _, a := range w.tracked {
		m := map[string]*big.Int{}
		for _, c := range w.c.App.BankKeeper.GetAllBalances(w.c.Ctx, a) {
			m[c.Denom] = c.Amount.BigInt()
		}
		out[a.String()] = m
	}
	return out
}

func (w *world) invariants(rt *rapid.T) {
	ctx := w.c.Ctx
	for _, id := range w.pools {
		p := w.pool(id)
		liq := p.GetTotalPoolLiquidity(ctx)
		bal := w.c.App.BankKeeper.GetAllBalances(ctx, p.GetAddress())
		ds := map[string]bool{}
		for _, c := range liq {
			ds[c.Denom] = true
		}
		for _, c := range bal {
			ds[c.Denom] = true
		}
		for d := range ds {
			want := new(big.Int).Set(liq.AmountOf(d).BigInt())
			if x := w.direct[id][d]; x != nil {
				want.Add(want, x)
			}
			if bal.AmountOf(d).BigInt().Cmp(want) != 0 {
				rt.Fatalf("pool %d account holds %s%s but the pool reports reserves %s (+ %v sent directly) [history %v]", id, bal.AmountOf(d), d, liq.AmountOf(d), w.direct[id][d], w.hist)
			}
		}
		shareDenom := gammtypes.GetPoolShareDenom(id)
		sup := w.c.App.BankKeeper.GetSupply(ctx, shareDenom).Amount
		if !sup.Equal(p.GetTotalShares()) {
			rt.Fatalf("pool %d: supply of %s is %s but the pool reports %s total shares [history %v]", id, shareDenom, sup, p.GetTotalShares(), w.hist)
		}
	}
}

func genAmt(rt *rapid.T, label string, ref *big.Int) *big.Int {
	switch rapid.IntRange(0, 5).Draw(rt, label+"Shape") {
	case 0:
		return big.NewInt(rapid.Int64Range(1, 1000).Draw(rt, label+"Tiny"))
	case 1:
		v := new(big.Int).Mul(ref, big.NewInt(rapid.Int64Range(20, 150).Draw(rt, label+"Pct")))
		return v.Quo(v, big.NewInt(100)).Add(v, big.NewInt(1))
	default:
		v := new(big.Int).Mul(ref, big.NewInt(rapid.Int64Range(1, 100_000).Draw(rt, label+"Ppm")))
		v.Quo(v, big.NewInt(1_000_000))
		if v.Sign() == 0 {
			v.SetInt64(1)
		}
		return v
	}
}

func TestPropGamm(t *testing.T) {
	drv.Check(t, drv.Cfg{Name: "gamm-conservation", Rule: rule, Quick: 200, Thorough: 4000, Steps: 30, TSteps: 60}, func(rt *rapid.T, cs *drv.Case) {
		c := chain.New(t)
		w := &world{c: c, isStab: map[uint64]bool{}, controller: map[uint64]int{}, direct: map[uint64]map[string]*big.Int{}, classes: map[string]bool{}}
		huge, _ := new(big.Int).SetString("1000000000000000000000000000000", 10)
		for a := 0; a < 3; a++ {
			var cs sdk.Coins
			for _, d := range denoms {
				cs = cs.Add(coin(d, huge))
			}
			c.Fund(chain.Actor(a), cs)
			w.tracked = append(w.tracked, chain.Actor(a))
		}
		// a poor actor: can pay fees but almost never the amounts it names - a message whose funds are missing must fail as a
		// whole (or, when it happens to be affordable, satisfy the same accounting)
		{
			var cs sdk.Coins
			for _, d := range denoms {
				cs = cs.Add(coin(d, big.NewInt(1000)))
			}
			c.Fund(chain.Actor(3), cs)
			w.tracked = append(w.tracked, chain.Actor(3))
		}
		maccs := app.ModuleAccountAddrs()
		names := make([]string, 0, len(maccs))
		for n := range maccs {
			names = append(names, n)
		}
		sort.Strings(names)
		for _, n := range names {
			a, _ := sdk.AccAddressFromBech32(n)
			w.tracked = append(w.tracked, a)
		}
		feeCollector := c.App.AccountKeeper.GetModuleAddress(txfeestypes.TakerFeeCollectorName)
		whitelisted := false

		// run executes msg and checks per-message accounting
		run := func(what string, msg sdk.Msg, mustOK bool) (chain.ExecResult, map[string]map[string]*big.Int, map[string]map[string]*big.Int) {
			before, sup0, dig := w.snapshot(), w.supply(), ""
			if !mustOK {
				dig = c.Digest()
			}
			r := c.Exec(msg)
			if !r.OK() {
				if mustOK {
					rt.Fatalf("harness: %s failed: %v", what, r.Err)
				}
				if c.Digest() != dig {
					rt.Fatalf("%s failed (%v) but changed state", what, r.Err)
				}
				w.failed = true
				w.classes["rejected:"+strings.SplitN(what, " ", 2)[0]] = true
				return r, before, before
			}
			// a pool may have been created: track it
			after := w.snapshot()
			sup1 := w.supply()
			all := map[string]bool{}
			for d := range sup0 {
				all[d] = true
			}
			for d := range sup1 {
				all[d] = true
			}
			for d := range all {
				if strings.HasPrefix(d, "gamm/pool/") {
					continue
				}
				a, b := sup0[d], sup1[d]
				if a == nil {
					a = new(big.Int)
				}
				if b == nil {
					b = new(big.Int)
				}
				if a.Cmp(b) != 0 {
					rt.Fatalf("%s changed the total supply of %s from %s to %s [history %v]", what, d, a, b, w.hist)
				}
			}
			w.classes["ok:"+strings.SplitN(what, " ", 2)[0]] = true
			return r, before, after
		}
		// conservation: deltas over tracked accounts sum to zero per non-share denom
		conserve := func(what string, before, after map[string]map[string]*big.Int) {
			sum := map[string]*big.Int{}
			for acc, m := range after {
				for d, v := range m {
					if sum[d] == nil {
						sum[d] = new(big.Int)
					}
					sum[d].Add(sum[d], v)
				}
				for d, v := range before[acc] {
					if sum[d] == nil {
						sum[d] = new(big.Int)
					}
					sum[d].Sub(sum[d], v)
				}
			}
			for d, v := range sum {
				if strings.HasPrefix(d, "gamm/pool/") {
					continue
				}
				if v.Sign() != 0 {
					rt.Fatalf("%s: balance changes of trader, pools, fee collector and module accounts sum to %s%s instead of 0: funds were created or lost [history %v]", what, v, d, w.hist)
				}
			}
		}
		delta := func(before, after map[string]map[string]*big.Int, acc sdk.AccAddress, d string) *big.Int {
			a, b := before[acc.String()][d], after[acc.String()][d]
			if a == nil {
				a = new(big.Int)
			}
			if b == nil {
				b = new(big.Int)
			}
			return new(big.Int).Sub(b, a)
		}
		pickPool := func(rt *rapid.T) uint64 {
			if len(w.pools) == 0 {
				rt.Skip("no pools")
			}
			return w.pools[rapid.IntRange(0, len(w.pools)-1).Draw(rt, "pool")]
		}
		poolDenoms := func(id uint64) []string {
			var out []string
			for _, c := range w.pool(id).GetTotalPoolLiquidity(c.Ctx) {
				out = append(out, c.Denom)
			}
			return out
		}
		newPool := func(r chain.ExecResult, stab bool) {
			id := c.App.PoolManagerKeeper.GetNextPoolId(c.Ctx) - 1
			w.pools = append(w.pools, id)
			w.isStab[id] = stab
			w.direct[id] = map[string]*big.Int{}
			w.tracked = append(w.tracked, w.pool(id).GetAddress())
		}
		subset := func(rt *rapid.T) []string {
			n := rapid.IntRange(2, 5).Draw(rt, "nAssets")
			perm := rapid.Permutation(denoms).Draw(rt, "assetPerm")
			out := append([]string{}, perm[:n]...)
			sort.Strings(out)
			return out
		}
		route := func(rt *rapid.T, in string, hops int) ([]uint64, []string) {
			// random walk over pools sharing denoms
			var ids []uint64
			var outs []string
			cur := in
			for h := 0; h < hops; h++ {
				var cand []uint64
				for _, id := range w.pools {
					for _, d := range poolDenoms(id) {
						if d == cur {
							cand = append(cand, id)
						}
					}
				}
				if len(cand) == 0 {
					break
				}
				id := cand[rapid.IntRange(0, len(cand)-1).Draw(rt, "hopPool")]
				var others []string
				for _, d := range poolDenoms(id) {
					if d != cur {
						others = append(others, d)
					}
				}
				nxt := others[rapid.IntRange(0, len(others)-1).Draw(rt, "hopOut")]
				ids, outs, cur = append(ids, id), append(outs, nxt), nxt
			}
			return ids, outs
		}
		actions := map[string]func(*rapid.T){
			"createBalancer": func(rt *rapid.T) {
				if len(w.pools) >= 5 {
					rt.Skip("enough pools")
				}
				a := rapid.IntRange(0, 2).Draw(rt, "creator")
				var assets []balancer.PoolAsset
				for _, d := range subset(rt) {
					e := rapid.IntRange(3, 18).Draw(rt, "balExp"+d)
					amt := new(big.Int).Mul(big.NewInt(rapid.Int64Range(1, 999).Draw(rt, "balMant"+d)), new(big.Int).Exp(big.NewInt(10), big.NewInt(int64(e)), nil))
					assets = append(assets, balancer.PoolAsset{Weight: osmomath.NewInt(rapid.Int64Range(1, 1<<20-1).Draw(rt, "w"+d)), Token: coin(d, amt)})
				}
				fee := osmomath.NewDecWithPrec(rapid.Int64Range(0, 500).Draw(rt, "spreadBp"), 4)
				params := balancer.PoolParams{SwapFee: fee, ExitFee: osmomath.ZeroDec()}
				if rapid.IntRange(0, 2).Draw(rt, "weightChanging") == 0 {
					// a pool whose weights move linearly to target weights (liquidity bootstrapping): the target entries carry
					// a token field that is documented as ignored - the creation amounts, zero, or anything else
					var target []balancer.PoolAsset
					for _, as := range assets {
						tok := as.Token
						switch rapid.IntRange(0, 2).Draw(rt, "targetTokenField"+tok.Denom) {
						case 1:
							tok = sdk.NewCoin(tok.Denom, osmomath.ZeroInt())
						case 2:
							tok = sdk.NewCoin(tok.Denom, osmomath.NewInt(rapid.Int64Range(1, 1<<50).Draw(rt, "targetTok"+tok.Denom)))
						}
						target = append(target, balancer.PoolAsset{Weight: osmomath.NewInt(rapid.Int64Range(1, 1<<20-1).Draw(rt, "tw"+tok.Denom)), Token: tok})
					}
					params.SmoothWeightChangeParams = &balancer.SmoothWeightChangeParams{
						StartTime:         c.Ctx.BlockTime().Add(time.Duration(rapid.SampledFrom([]int64{0, int64(time.Minute), int64(time.Hour)}).Draw(rt, "lbpStartIn"))),
						Duration:          time.Duration(rapid.SampledFrom([]int64{int64(time.Minute), int64(time.Hour), int64(24 * time.Hour)}).Draw(rt, "lbpDuration")),
						TargetPoolWeights: target,
					}
					cs.Class("weight-changing-pool-created")
				}
				msg := balancer.NewMsgCreateBalancerPool(chain.Actor(a), params, assets, "")
				r, b0, b1 := run("createBalancer", &msg, false)
				if r.OK() {
					newPool(r, false)
					b1 = w.snapshotWithBase(b1)
					_ = b0
					w.hist = append(w.hist, fmt.Sprintf("createBalancer#%d fee=%s %v", w.pools[len(w.pools)-1], fee, assets))
				}
			},
			"advanceTime": func(rt *rapid.T) {
				dt := time.Duration(rapid.SampledFrom([]int64{int64(time.Second), int64(time.Minute), int64(30 * time.Minute), int64(time.Hour), int64(24 * time.Hour), int64(72 * time.Hour)}).Draw(rt, "dt"))
				c.Advance(dt)
				w.hist = append(w.hist, fmt.Sprintf("+%s", dt))
			},
			"createStable": func(rt *rapid.T) {
				if len(w.pools) >= 5 {
					rt.Skip("enough pools")
				}
				a := rapid.IntRange(0, 2).Draw(rt, "creator")
				var liq sdk.Coins
				var sfs []uint64
				for _, d := range subset(rt) {
					sf := uint64(rapid.SampledFrom([]int64{1, 1, 10, 1000, 1_000_000}).Draw(rt, "sf"+d))
					e := rapid.IntRange(6, 15).Draw(rt, "liqExp"+d)
					amt := new(big.Int).Mul(big.NewInt(rapid.Int64Range(1, 999).Draw(rt, "liqMant"+d)), new(big.Int).Exp(big.NewInt(10), big.NewInt(int64(e)), nil))
					amt.Mul(amt, new(big.Int).SetUint64(sf))
					liq = liq.Add(coin(d, amt))
					sfs = append(sfs, sf)
				}
				fee := osmomath.NewDecWithPrec(rapid.Int64Range(0, 500).Draw(rt, "spreadBp"), 4)
				msg := stableswap.NewMsgCreateStableswapPool(chain.Actor(a), stableswap.PoolParams{SwapFee: fee, ExitFee: osmomath.ZeroDec()}, liq, sfs, "")
				// half of the stableswap pools have a scaling-factor controller (their creator) who may re-scale the live pool
				if rapid.Bool().Draw(rt, "withController") {
					msg.ScalingFactorController = chain.Actor(a).String()
				}
				r, _, _ := run("createStable", &msg, false)
				if r.OK() {
					newPool(r, true)
					if msg.ScalingFactorController != "" {
						w.controller[w.pools[len(w.pools)-1]] = a
					}
					w.hist = append(w.hist, fmt.Sprintf("createStable#%d fee=%s %s sf=%v", w.pools[len(w.pools)-1], fee, liq, sfs))
				}
			},
			// re-scaling a live stableswap pool moves no funds and mints nothing: the generic invariants of run() and of the
			// step check apply (reserves == balances, supplies constant), and every later swap / join / exit runs on the new
			// factors. Somebody who is not the controller (or any sender on a pool without one) must be rejected without trace.
			"adjustScalingFactors": func(rt *rapid.T) {
				var stab []uint64
				for _, id := range w.pools {
					if w.isStab[id] {
						stab = append(stab, id)
					}
				}
				if len(stab) == 0 {
					rt.Skip("no stableswap pool")
				}
				id := stab[rapid.IntRange(0, len(stab)-1).Draw(rt, "stablePool")]
				var sfs []uint64
				for range poolDenoms(id) {
					sfs = append(sfs, uint64(rapid.SampledFrom([]int64{1, 1, 2, 10, 1000, 1_000_000}).Draw(rt, "newSf")))
				}
				ctl, has := w.controller[id]
				snd := rapid.IntRange(0, 3).Draw(rt, "adjSender")
				if has && rapid.IntRange(0, 3).Draw(rt, "byController") > 0 {
					snd = ctl
				}
				msg := &stableswap.MsgStableSwapAdjustScalingFactors{Sender: chain.Actor(snd).String(), PoolID: id, ScalingFactors: sfs}
				r, _, _ := run(fmt.Sprintf("adjustScalingFactors#%d %v by actor %d", id, sfs, snd), msg, false)
				if r.OK() {
					if !has || snd != ctl {
						rt.Fatalf("scaling factors of stableswap pool %d were changed by actor %d who is not its controller (has controller: %v, actor %d) [history %v]", id, snd, has, ctl, w.hist)
					}
					w.hist = append(w.hist, fmt.Sprintf("adjustScalingFactors#%d %v", id, sfs))
					w.classes["stableswap-rescaled"] = true
				}
			},
			"joinPool": func(rt *rapid.T) {
				id := pickPool(rt)
				a := rapid.IntRange(0, 3).Draw(rt, "actor")
				sh := genAmt(rt, "shares", w.pool(id).GetTotalShares().BigInt())
				var maxs sdk.Coins
				for _, d := range poolDenoms(id) {
					maxs = maxs.Add(coin(d, new(big.Int).Exp(big.NewInt(10), big.NewInt(29), nil)))
				}
				msg := &gammtypes.MsgJoinPool{Sender: chain.Actor(a).String(), PoolId: id, ShareOutAmount: osmomath.NewIntFromBigInt(sh), TokenInMaxs: maxs}
				r, b0, b1 := run(fmt.Sprintf("joinPool #%d %s", id, sh), msg, false)
				if r.OK() {
					conserve("MsgJoinPool", b0, b1)
					w.hist = append(w.hist, fmt.Sprintf("join#%d a%d %s", id, a, sh))
				}
			},
			"joinSwapExtern": func(rt *rapid.T) {
				id := pickPool(rt)
				a := rapid.IntRange(0, 3).Draw(rt, "actor")
				ds := poolDenoms(id)
				d := ds[rapid.IntRange(0, len(ds)-1).Draw(rt, "denom")]
				amt := genAmt(rt, "amt", w.pool(id).GetTotalPoolLiquidity(c.Ctx).AmountOf(d).BigInt())
				msg := &gammtypes.MsgJoinSwapExternAmountIn{Sender: chain.Actor(a).String(), PoolId: id, TokenIn: coin(d, amt), ShareOutMinAmount: osmomath.OneInt()}
				r, b0, b1 := run(fmt.Sprintf("joinSwapExtern #%d %s%s", id, amt, d), msg, false)
				if r.OK() {
					conserve("MsgJoinSwapExternAmountIn", b0, b1)
					w.single = true
					w.hist = append(w.hist, fmt.Sprintf("joinExtern#%d a%d %s%s", id, a, amt, d))
				}
			},
			"joinSwapShare": func(rt *rapid.T) {
				id := pickPool(rt)
				a := rapid.IntRange(0, 3).Draw(rt, "actor")
				ds := poolDenoms(id)
				d := ds[rapid.IntRange(0, len(ds)-1).Draw(rt, "denom")]
				sh := genAmt(rt, "shares", w.pool(id).GetTotalShares().BigInt())
				msg := &gammtypes.MsgJoinSwapShareAmountOut{Sender: chain.Actor(a).String(), PoolId: id, TokenInDenom: d, ShareOutAmount: osmomath.NewIntFromBigInt(sh), TokenInMaxAmount: osmomath.NewIntFromBigInt(new(big.Int).Exp(big.NewInt(10), big.NewInt(29), nil))}
				r, b0, b1 := run(fmt.Sprintf("joinSwapShare #%d %s via %s", id, sh, d), msg, false)
				if r.OK() {
					conserve("MsgJoinSwapShareAmountOut", b0, b1)
					w.single = true
					w.hist = append(w.hist, fmt.Sprintf("joinShare#%d a%d %s via %s", id, a, sh, d))
				}
			},
			"exitPool": func(rt *rapid.T) {
				id := pickPool(rt)
				a := rapid.IntRange(0, 3).Draw(rt, "actor")
				have := c.Bal(chain.Actor(a), gammtypes.GetPoolShareDenom(id)).Amount.BigInt()
				if have.Sign() == 0 {
					rt.Skip("no shares")
				}
				sh := genAmt(rt, "shares", have)
				if sh.Cmp(have) > 0 {
					sh = have
				}
				msg := &gammtypes.MsgExitPool{Sender: chain.Actor(a).String(), PoolId: id, ShareInAmount: osmomath.NewIntFromBigInt(sh), TokenOutMins: sdk.Coins{}}
				r, b0, b1 := run(fmt.Sprintf("exitPool #%d %s", id, sh), msg, false)
				if r.OK() {
					conserve("MsgExitPool", b0, b1)
					w.hist = append(w.hist, fmt.Sprintf("exit#%d a%d %s", id, a, sh))
				}
			},
			"exitSwapShare": func(rt *rapid.T) {
				id := pickPool(rt)
				a := rapid.IntRange(0, 3).Draw(rt, "actor")
				have := c.Bal(chain.Actor(a), gammtypes.GetPoolShareDenom(id)).Amount.BigInt()
				if have.Sign() == 0 {
					rt.Skip("no shares")
				}
				ds := poolDenoms(id)
				d := ds[rapid.IntRange(0, len(ds)-1).Draw(rt, "denom")]
				sh := genAmt(rt, "shares", have)
				if sh.Cmp(have) > 0 {
					sh = have
				}
				msg := &gammtypes.MsgExitSwapShareAmountIn{Sender: chain.Actor(a).String(), PoolId: id, TokenOutDenom: d, ShareInAmount: osmomath.NewIntFromBigInt(sh), TokenOutMinAmount: osmomath.OneInt()}
				r, b0, b1 := run(fmt.Sprintf("exitSwapShare #%d %s->%s", id, sh, d), msg, false)
				if r.OK() {
					conserve("MsgExitSwapShareAmountIn", b0, b1)
					w.single = true
					w.hist = append(w.hist, fmt.Sprintf("exitShare#%d a%d %s->%s", id, a, sh, d))
				}
			},
			"exitSwapExtern": func(rt *rapid.T) {
				id := pickPool(rt)
				a := rapid.IntRange(0, 3).Draw(rt, "actor")
				have := c.Bal(chain.Actor(a), gammtypes.GetPoolShareDenom(id)).Amount
				if have.IsZero() {
					rt.Skip("no shares")
				}
				ds := poolDenoms(id)
				d := ds[rapid.IntRange(0, len(ds)-1).Draw(rt, "denom")]
				amt := genAmt(rt, "amt", w.pool(id).GetTotalPoolLiquidity(c.Ctx).AmountOf(d).BigInt())
				msg := &gammtypes.MsgExitSwapExternAmountOut{Sender: chain.Actor(a).String(), PoolId: id, TokenOut: coin(d, amt), ShareInMaxAmount: have}
				r, b0, b1 := run(fmt.Sprintf("exitSwapExtern #%d %s%s", id, amt, d), msg, false)
				if r.OK() {
					conserve("MsgExitSwapExternAmountOut", b0, b1)
					w.single = true
					w.hist = append(w.hist, fmt.Sprintf("exitExtern#%d a%d %s%s", id, a, amt, d))
				}
			},
			"swapIn": func(rt *rapid.T) {
				if len(w.pools) == 0 {
					rt.Skip("no pools")
				}
				a := rapid.IntRange(0, 3).Draw(rt, "actor")
				in := denoms[rapid.IntRange(0, len(denoms)-1).Draw(rt, "in")]
				ids, outs := route(rt, in, rapid.IntRange(1, 3).Draw(rt, "hops"))
				if len(ids) == 0 {
					rt.Skip("no route")
				}
				amt := genAmt(rt, "amt", w.pool(ids[0]).GetTotalPoolLiquidity(c.Ctx).AmountOf(in).BigInt())
				var routes []pmtypes.SwapAmountInRoute
				for i := range ids {
					routes = append(routes, pmtypes.SwapAmountInRoute{PoolId: ids[i], TokenOutDenom: outs[i]})
				}
				mutated := false
				if rapid.IntRange(0, 5).Draw(rt, "repeatDenom") == 0 {
					// hop i is asked to pay out the denom it takes in
					i := rapid.IntRange(0, len(routes)-1).Draw(rt, "repeatAt")
					if i == 0 {
						routes[i].TokenOutDenom = in
					} else {
						routes[i].TokenOutDenom = routes[i-1].TokenOutDenom
					}
					mutated = true
					cs.Class("exact-in-route-with-a-denom-repeated")
				}
				minOut := osmomath.OneInt()
				if rapid.IntRange(0, 4).Draw(rt, "impossibleMinOut") == 0 {
					// a limit that cannot be met: the swap is computed (and the pool objects touched) before it is rejected
					minOut = osmomath.NewIntFromBigInt(new(big.Int).Exp(big.NewInt(10), big.NewInt(40), nil))
				}
				msg := &pmtypes.MsgSwapExactAmountIn{Sender: chain.Actor(a).String(), Routes: routes, TokenIn: coin(in, amt), TokenOutMinAmount: minOut}
				fee, _ := c.App.PoolManagerKeeper.GetTradingPairTakerFee(c.Ctx, in, outs[0])
				r, b0, b1 := run(fmt.Sprintf("swapIn %s%s via %v", amt, in, ids), msg, false)
				if r.OK() {
					conserve("MsgSwapExactAmountIn", b0, b1)
					revisits := false
					for _, o := range outs {
						if o == in {
							revisits = true
						}
					}
					if d := delta(b0, b1, chain.Actor(a), in); new(big.Int).Neg(d).Cmp(amt) != 0 && !revisits && !mutated {
						rt.Fatalf("exact-in swap of %s%s debited the trader %s", amt, in, new(big.Int).Neg(d))
					}
					if len(ids) == 1 && !whitelisted && !mutated {
						keep := new(big.Rat).Sub(big.NewRat(1, 1), new(big.Rat).SetFrac(fee.BigInt(), new(big.Int).Exp(big.NewInt(10), big.NewInt(18), nil)))
						after := new(big.Rat).Mul(keep, new(big.Rat).SetInt(amt))
						fl := new(big.Int).Quo(after.Num(), after.Denom())
						want := new(big.Int).Sub(amt, fl)
						if got := delta(b0, b1, feeCollector, in); got.Cmp(want) != 0 {
							rt.Fatalf("exact-in swap of %s%s with taker fee %s: collector received %s, formula in - floor(in(1-f)) = %s", amt, in, fee, got, want)
						}
					}
					if len(ids) > 1 {
						w.multiHop = true
					}
					w.hist = append(w.hist, fmt.Sprintf("swapIn a%d %s%s via %v->%v", a, amt, in, ids, outs))
				}
			},
			"swapOut": func(rt *rapid.T) {
				if len(w.pools) == 0 {
					rt.Skip("no pools")
				}
				a := rapid.IntRange(0, 3).Draw(rt, "actor")
				// build the route backwards from the out denom (reuse the walk, then reverse)
				out := denoms[rapid.IntRange(0, len(denoms)-1).Draw(rt, "out")]
				ids, ins := route(rt, out, rapid.IntRange(1, 3).Draw(rt, "hops"))
				if len(ids) == 0 {
					rt.Skip("no route")
				}
				amt := genAmt(rt, "amt", w.pool(ids[0]).GetTotalPoolLiquidity(c.Ctx).AmountOf(out).BigInt())
				var routes []pmtypes.SwapAmountOutRoute
				for i := len(ids) - 1; i >= 0; i-- {
					routes = append(routes, pmtypes.SwapAmountOutRoute{PoolId: ids[i], TokenInDenom: ins[i]})
				}
				// a route that ValidateBasic accepts but that names one denom twice in a row (hop i would trade a denom against
				// itself), or lets the first hop take the out denom: whatever the modules answer, the ledgers must stay consistent
				mutated := false
				if rapid.IntRange(0, 5).Draw(rt, "repeatDenom") == 0 {
					i := rapid.IntRange(0, len(routes)-1).Draw(rt, "repeatAt")
					if i+1 < len(routes) {
						routes[i].TokenInDenom = routes[i+1].TokenInDenom
					} else {
						routes[i].TokenInDenom = out
					}
					mutated = true
					cs.Class("exact-out-route-with-a-denom-repeated")
				}
				max := new(big.Int).Exp(big.NewInt(10), big.NewInt(29), nil)
				msg := &pmtypes.MsgSwapExactAmountOut{Sender: chain.Actor(a).String(), Routes: routes, TokenInMaxAmount: osmomath.NewIntFromBigInt(max), TokenOut: coin(out, amt)}
				r, b0, b1 := run(fmt.Sprintf("swapOut %s%s via %v", amt, out, ids), msg, false)
				if r.OK() {
					conserve("MsgSwapExactAmountOut", b0, b1)
					revisits := false
					for _, rr := range routes {
						if rr.TokenInDenom == out {
							revisits = true
						}
					}
					if d := delta(b0, b1, chain.Actor(a), out); d.Cmp(amt) != 0 && !revisits && !mutated {
						rt.Fatalf("exact-out swap for %s%s credited the trader %s", amt, out, d)
					}
					if len(ids) > 1 {
						w.multiHop = true
					}
					w.hist = append(w.hist, fmt.Sprintf("swapOut a%d %s%s via %v", a, amt, out, ids))
				}
			},
			"splitIn": func(rt *rapid.T) {
				if len(w.pools) == 0 {
					rt.Skip("no pools")
				}
				a := rapid.IntRange(0, 3).Draw(rt, "actor")
				in := denoms[rapid.IntRange(0, len(denoms)-1).Draw(rt, "in")]
				ids, outs := route(rt, in, 1)
				if len(ids) == 0 {
					rt.Skip("no route")
				}
				out := outs[0]
				var legs []pmtypes.SwapAmountInSplitRoute
				total := new(big.Int)
				seen := map[uint64]bool{}
				for _, id := range w.pools {
					has := map[string]bool{}
					for _, d := range poolDenoms(id) {
						has[d] = true
					}
					if has[in] && has[out] && !seen[id] && len(legs) < 3 {
						seen[id] = true
						amt := genAmt(rt, fmt.Sprintf("leg%d", id), w.pool(id).GetTotalPoolLiquidity(c.Ctx).AmountOf(in).BigInt())
						total.Add(total, amt)
						legs = append(legs, pmtypes.SwapAmountInSplitRoute{Pools: []pmtypes.SwapAmountInRoute{{PoolId: id, TokenOutDenom: out}}, TokenInAmount: osmomath.NewIntFromBigInt(amt)})
					}
				}
				msg := &pmtypes.MsgSplitRouteSwapExactAmountIn{Sender: chain.Actor(a).String(), Routes: legs, TokenInDenom: in, TokenOutMinAmount: osmomath.OneInt()}
				r, b0, b1 := run(fmt.Sprintf("splitIn %s%s over %d legs", total, in, len(legs)), msg, false)
				if r.OK() {
					conserve("MsgSplitRouteSwapExactAmountIn", b0, b1)
					w.hist = append(w.hist, fmt.Sprintf("splitIn a%d %s%s->%s legs=%d", a, total, in, out, len(legs)))
				}
			},
			// a transaction of two messages whose second message fails: the swap of the first message is rolled back with it
			// (anything the first message left in memory must not survive)
			"revertedTx": func(rt *rapid.T) {
				if len(w.pools) == 0 {
					rt.Skip("no pools")
				}
				a := rapid.IntRange(0, 2).Draw(rt, "actor")
				in := denoms[rapid.IntRange(0, len(denoms)-1).Draw(rt, "in")]
				ids, outs := route(rt, in, rapid.IntRange(1, 2).Draw(rt, "hops"))
				if len(ids) == 0 {
					rt.Skip("no route")
				}
				amt := genAmt(rt, "amt", w.pool(ids[0]).GetTotalPoolLiquidity(c.Ctx).AmountOf(in).BigInt())
				var routes []pmtypes.SwapAmountInRoute
				for i := range ids {
					routes = append(routes, pmtypes.SwapAmountInRoute{PoolId: ids[i], TokenOutDenom: outs[i]})
				}
				first := &pmtypes.MsgSwapExactAmountIn{Sender: chain.Actor(a).String(), Routes: routes, TokenIn: coin(in, amt), TokenOutMinAmount: osmomath.OneInt()}
				second := &banktypes.MsgSend{FromAddress: chain.Actor(3).String(), ToAddress: chain.Actor(0).String(), Amount: sdk.NewCoins(coin(in, new(big.Int).Exp(big.NewInt(10), big.NewInt(35), nil)))}
				dig := c.Digest()
				r := c.ExecTx(first, second)
				if r.OK() {
					rt.Fatalf("harness: a bank send of 1e35 by the poor actor succeeded")
				}
				if c.Digest() != dig {
					rt.Fatalf("a two-message transaction whose second message failed (%v) changed state [history %v]", r.Err, w.hist)
				}
				w.failed = true
				w.classes["reverted-two-message-tx"] = true
				w.hist = append(w.hist, fmt.Sprintf("revertedTx a%d swapIn %s%s via %v + failing send", a, amt, in, ids))
			},
			"splitOut": func(rt *rapid.T) {
				if len(w.pools) == 0 {
					rt.Skip("no pools")
				}
				a := rapid.IntRange(0, 3).Draw(rt, "actor")
				in := denoms[rapid.IntRange(0, len(denoms)-1).Draw(rt, "in")]
				ids, outs := route(rt, in, 1)
				if len(ids) == 0 {
					rt.Skip("no route")
				}
				out := outs[0]
				var legs []pmtypes.SwapAmountOutSplitRoute
				total := new(big.Int)
				for _, id := range w.pools {
					has := map[string]bool{}
					for _, d := range poolDenoms(id) {
						has[d] = true
					}
					if has[in] && has[out] && len(legs) < 3 {
						amt := genAmt(rt, fmt.Sprintf("leg%d", id), w.pool(id).GetTotalPoolLiquidity(c.Ctx).AmountOf(out).BigInt())
						total.Add(total, amt)
						legs = append(legs, pmtypes.SwapAmountOutSplitRoute{Pools: []pmtypes.SwapAmountOutRoute{{PoolId: id, TokenInDenom: in}}, TokenOutAmount: osmomath.NewIntFromBigInt(amt)})
					}
				}
				max := new(big.Int).Exp(big.NewInt(10), big.NewInt(29), nil)
				msg := &pmtypes.MsgSplitRouteSwapExactAmountOut{Sender: chain.Actor(a).String(), Routes: legs, TokenOutDenom: out, TokenInMaxAmount: osmomath.NewIntFromBigInt(max)}
				r, b0, b1 := run(fmt.Sprintf("splitOut %s%s over %d legs", total, out, len(legs)), msg, false)
				if r.OK() {
					conserve("MsgSplitRouteSwapExactAmountOut", b0, b1)
					if d := delta(b0, b1, chain.Actor(a), out); d.Cmp(total) != 0 && in != out {
						rt.Fatalf("split exact-out for %s%s credited the trader %s", total, out, d)
					}
					w.hist = append(w.hist, fmt.Sprintf("splitOut a%d %s<-%s%s legs=%d", a, in, total, out, len(legs)))
				}
			},
			"directSend": func(rt *rapid.T) {
				id := pickPool(rt)
				a := rapid.IntRange(0, 3).Draw(rt, "actor")
				d := denoms[rapid.IntRange(0, len(denoms)-1).Draw(rt, "denom")]
				amt := big.NewInt(rapid.Int64Range(1, 1_000_000).Draw(rt, "amt"))
				msg := &banktypes.MsgSend{FromAddress: chain.Actor(a).String(), ToAddress: w.pool(id).GetAddress().String(), Amount: sdk.NewCoins(coin(d, amt))}
				r, _, _ := run(fmt.Sprintf("directSend %s%s to #%d", amt, d, id), msg, false)
				if r.OK() {
					if w.direct[id][d] == nil {
						w.direct[id][d] = new(big.Int)
					}
					w.direct[id][d].Add(w.direct[id][d], amt)
					w.hist = append(w.hist, fmt.Sprintf("send %s%s->#%d", amt, d, id))
				}
			},
			"takerFee": func(rt *rapid.T) {
				fee := osmomath.NewDecWithPrec(rapid.Int64Range(0, 200).Draw(rt, "feeBp"), 4)
				if rapid.Bool().Draw(rt, "pair") {
					d0 := denoms[rapid.IntRange(0, len(denoms)-1).Draw(rt, "d0")]
					d1 := denoms[rapid.IntRange(0, len(denoms)-1).Draw(rt, "d1")]
					if d0 != d1 {
						c.App.PoolManagerKeeper.SetDenomPairTakerFee(c.Ctx, d0, d1, fee)
						w.hist = append(w.hist, fmt.Sprintf("takerFee %s/%s=%s", d0, d1, fee))
					}
				} else {
					p := c.App.PoolManagerKeeper.GetParams(c.Ctx)
					p.TakerFeeParams.DefaultTakerFee = fee
					c.App.PoolManagerKeeper.SetParams(c.Ctx, p)
					w.hist = append(w.hist, fmt.Sprintf("defaultTakerFee=%s", fee))
				}
			},
			"": func(rt *rapid.T) { w.invariants(rt) },
		}
		rt.Repeat(actions)
		for k := range w.classes {
			cs.Class(k)
		}
		touched := len(w.pools)
		if touched >= 2 && w.multiHop && w.single && w.failed {
			cs.NonTrivial(strings.Join(w.hist, ";"))
			cs.Sample(strings.Join(w.hist, "; "))
		}
	})
}

// snapshotWithBase is a no-op hook kept for symmetry (new pool accounts start empty).
func (w *world) snapshotWithBase(b map[string]map[string]*big.Int) map[string]map[string]*big.Int {
	return b
}

// TestRegress_C02_drained_asset: the fixed finding must stay fixed - a swap that would take the whole
// reserve of an asset either fails or leaves the reported reserves equal to the pool account's balance.
func TestRegress_C02_drained_asset(t *testing.T) {
	c := chain.New(t)
	a := chain.Actor(0)
	c.Fund(a, sdk.NewCoins(sdk.NewInt64Coin("bbb", 1_000_000), sdk.NewInt64Coin("ccc", 1_000_000), sdk.NewInt64Coin("uosmo", 10_000_000_000)))
	msg := balancer.NewMsgCreateBalancerPool(a, balancer.PoolParams{SwapFee: osmomath.ZeroDec(), ExitFee: osmomath.ZeroDec()},
		[]balancer.PoolAsset{{Weight: osmomath.NewInt(3263), Token: sdk.NewInt64Coin("bbb", 1000)}, {Weight: osmomath.NewInt(1), Token: sdk.NewInt64Coin("ccc", 1000)}}, "")
	if r := c.Exec(&msg); !r.OK() {
		t.Fatalf("create pool: %v", r.Err)
	}
	id := c.App.PoolManagerKeeper.GetNextPoolId(c.Ctx) - 1
	c.Exec(&pmtypes.MsgSwapExactAmountIn{Sender: a.String(), Routes: []pmtypes.SwapAmountInRoute{{PoolId: id, TokenOutDenom: "ccc"}}, TokenIn: sdk.NewInt64Coin("bbb", 13), TokenOutMinAmount: osmomath.OneInt()})
	p, _ := c.App.GAMMKeeper.GetCFMMPool(c.Ctx, id)
	for _, d := range []string{"bbb", "ccc"} {
		if got, rep := c.Bal(p.GetAddress(), d).Amount, p.GetTotalPoolLiquidity(c.Ctx).AmountOf(d); !got.Equal(rep) {
			t.Fatalf("pool account holds %s%s but the pool reports %s", got, d, rep)
		}
	}
}
