package c08

import (
	"math/big"
	"strings"
	"testing"
	"time"

	sdk "github.com/cosmos/cosmos-sdk/types"

	"pgregory.net/rapid"

	"github.com/osmosis-labs/osmosis/osmomath"
	cltypes "github.com/osmosis-labs/osmosis/v31/x/concentrated-liquidity/types"

	"verif/harness/chain"
	"verif/harness/clsim"
	"verif/harness/drv"
)

func TestMain(m *testing.M) { drv.Main(m) }

const rule = "the CL state machine of C01/C07 with reward structure forced: positions over the same range opened in the same block by different owners with different amounts, one-sided positions far from the price, swaps crossing ticks both ways between position events, claims / partial withdrawals / transfers at generated times, incentive records with generated rates, start times and all four authorised uptimes, both accumulator-scaling regimes; oracle around every swap: an exact big.Rat walk of the curve from the pre-swap state gives the spread charge and the active liquidity of every constant-liquidity bucket, and the claimable spread reward of every position must grow by its liquidity share of the charges of exactly the buckets it covers (nothing for buckets it does not cover), within the documented roundings (charge rounded up per bucket, growth per unit of liquidity truncated at the accumulator precision, 36-decimal sqrt-price granularity); oracle after every step: positions sharing range and join time and never modified have claimable spread rewards and incentives proportional to liquidity (|r2 L1 - r1 L2| <= 2(L1+L2); identical liquidity => identical amounts); a position the price never came near claims exactly nothing; on MsgCollectIncentives the owner's balance grows by exactly the collected (never the forfeited) amount; incentive coins are conserved (deposited == account balance + paid out) and balance - claimable - un-emitted - known-stranded is bounded truncation dust; spread-reward conservation is covered by C01's exit oracle which runs here too; non-trivial = a proportional pair or a never-in-range position was checked after a tick-crossing swap; distinct by history hash"

func TestPropRewards(t *testing.T) {
	drv.Check(t, drv.Cfg{Name: "cl-rewards", Rule: rule, Quick: 150, Thorough: 2200, Steps: 30, TSteps: 60}, func(rt *rapid.T, c *drv.Case) {
		s := clsim.New(rt, t)
		s.SpreadLedger = true
		s.IncLedger = clsim.NewIncLedger()
		s.StrictExit = true
		paidOut := map[string]*big.Int{}
		stranded := map[string]*big.Int{}
		add := func(m map[string]*big.Int, d string, v *big.Int) {
			if m[d] == nil {
				m[d] = new(big.Int)
			}
			m[d].Add(m[d], v)
		}
		known := drv.Known("C08-collect-forfeits-stranded")
		var preBal map[string]*big.Int
		incBal := func() map[string]*big.Int {
			out := map[string]*big.Int{}
			for _, d := range clsim.IncDenoms {
				out[d] = s.C.Bal(s.Pool().GetIncentivesAddress(), d).Amount.BigInt()
			}
			return out
		}
		s.OnCollectIncentives = func(id uint64, resp cltypes.MsgCollectIncentivesResponse) {
			rec := s.Known[id]
			for _, d := range clsim.IncDenoms {
				col := resp.CollectedIncentives.AmountOf(d).BigInt()
				// paid to the owner: exactly the collected amount
				_ = rec
				_ = col
			}
			if !resp.ForfeitedIncentives.IsZero() {
				for _, fc := range resp.ForfeitedIncentives {
					if known {
						add(stranded, fc.Denom, fc.Amount.BigInt())
						c.Exclude("C08-collect-forfeits-stranded")
					}
				}
			}
		}
		acts := s.Actions()
		acts["createSame"] = s.WrapLedger(s.CreateSameRange)
		acts["createSame2"] = s.WrapLedger(s.CreateSameRange)
		// wrap collectIncentives to observe the owner's balance
		acts["collectIncentive"] = s.WrapLedger(func(rt *rapid.T) {
			ids := s.SortedKnown()
			if len(ids) == 0 {
				rt.Skip("no positions")
			}
			id := ids[rapid.IntRange(0, len(ids)-1).Draw(rt, "pos")]
			owner := chain.Actor(s.Known[id].Owner)
			before := map[string]*big.Int{}
			for _, d := range clsim.IncDenoms {
				before[d] = s.C.Bal(owner, d).Amount.BigInt()
			}
			r := s.C.Exec(&cltypes.MsgCollectIncentives{PositionIds: []uint64{id}, Sender: owner.String()})
			if !r.OK() {
				rt.Fatalf("MsgCollectIncentives(#%d) by its owner failed: %v [history %v]", id, r.Err, s.Hist)
			}
			var resp cltypes.MsgCollectIncentivesResponse
			_ = r.Unpack(&resp)
			for _, d := range clsim.IncDenoms {
				got := new(big.Int).Sub(s.C.Bal(owner, d).Amount.BigInt(), before[d])
				if got.Cmp(resp.CollectedIncentives.AmountOf(d).BigInt()) != 0 {
					rt.Fatalf("MsgCollectIncentives(#%d): owner balance of %s grew by %s, collected %s, forfeited %s (forfeited incentives must not reach the forfeiting owner) [history %v]", id, d, got, resp.CollectedIncentives.AmountOf(d), resp.ForfeitedIncentives.AmountOf(d), s.Hist)
				}
			}
			rec := s.Known[id]
			rec.Mods++
			s.Known[id] = rec
			s.Claims++
			s.Gen++
			s.OnCollectIncentives(id, resp)
			if !resp.ForfeitedIncentives.IsZero() {
				s.Classes["claim-with-forfeiture"]++
			}
			s.Ev = &clsim.Event{Kind: "collectInc", ID: id, Owner: s.Known[id].Owner, Collected: resp.CollectedIncentives, Forfeited: resp.ForfeitedIncentives, HasResp: true}
			s.Hist = append(s.Hist, "collectInc#"+strings.TrimSpace(resp.CollectedIncentives.String())+" forfeited="+resp.ForfeitedIncentives.String())
		})
		// every action: incentive coins leaving the incentive account are "paid out"
		for name, f := range acts {
			f := f
			acts[name] = func(rt *rapid.T) {
				if len(s.Known) > 0 || s.PoolID != 0 {
					preBal = incBal()
				}
				dep0 := map[string]*big.Int{}
				for d, v := range s.IncentiveDeposited {
					dep0[d] = new(big.Int).Set(v)
				}
				f(rt)
				post := incBal()
				for _, d := range clsim.IncDenoms {
					depDelta := new(big.Int)
					if s.IncentiveDeposited[d] != nil {
						depDelta.Set(s.IncentiveDeposited[d])
					}
					if dep0[d] != nil {
						depDelta.Sub(depDelta, dep0[d])
					}
					// out = pre + deposited - post
					out := new(big.Int).Add(preBal[d], depDelta)
					out.Sub(out, post[d])
					add(paidOut, d, out)
				}
			}
		}
		step := 0
		acts[""] = func(rt *rapid.T) {
			step++
			s.CheckBookkeeping(rt)
			s.CheckRewardProportionality(rt)
			s.IncentiveAccounting(rt, paidOut, stranded)
			s.CheckIncentiveLedger(rt)
			if step%4 == 0 {
				s.CheckSolvency(rt)
			}
		}
		rt.Repeat(acts)
		if s.IncLedger.Checked > 0 {
			c.Class("incentive-ledger-nonzero-booking-checked")
		}
		if s.IncLedger.Claims > 0 {
			c.Class("incentive-ledger-claim-checked")
		}
		if s.IncLedger.Redep > 0 {
			c.Class("incentive-ledger-forfeit-redeposited")
		}
		for k, n := range s.Classes {
			if n > 0 {
				c.Class(k)
			}
		}
		if (s.Classes["proportional-pair-checked"] > 0 || s.Classes["never-in-range-checked"] > 0) && s.Classes["swap-changed-tick"] > 0 {
			c.NonTrivial(s.Describe() + "|" + strings.Join(s.Hist, ";"))
			c.Sample(s.Describe() + " :: " + strings.Join(s.Hist, "; "))
		}
	})
}

// TestKnown_C08_collect_forfeits_stranded reproduces the listed finding deterministically: a position
// claims incentives before the record's 1h uptime is met; the forfeited amount stays in the incentive
// account although no position can claim it and no record will emit it.
func TestKnown_C08_collect_forfeits_stranded(t *testing.T) {
	rapid.Check(t, func(rt *rapid.T) {
		s := clsim.New(rt, t)
		k := s.C.App.ConcentratedLiquidityKeeper
		owner := chain.Actor(0)
		r := s.C.Exec(&cltypes.MsgCreatePosition{PoolId: s.PoolID, Sender: owner.String(), LowerTick: -1000, UpperTick: 1000,
			TokensProvided: sdk.NewCoins(sdk.NewInt64Coin(clsim.D0, 1_000_000), sdk.NewInt64Coin(clsim.D1, 1_000_000)), TokenMinAmount0: osmomath.ZeroInt(), TokenMinAmount1: osmomath.ZeroInt()})
		if !r.OK() {
			rt.Fatalf("create position: %v", r.Err)
		}
		var cp cltypes.MsgCreatePositionResponse
		_ = r.Unpack(&cp)
		if err := s.C.Try(func(ctx sdk.Context) error {
			_, err := k.CreateIncentive(ctx, s.PoolID, chain.Actor(1), sdk.NewInt64Coin("inca", 1_000_000), osmomath.NewDec(100), ctx.BlockTime(), time.Hour)
			return err
		}); err != nil {
			rt.Fatalf("create incentive: %v", err)
		}
		s.C.Advance(10 * time.Minute)
		r = s.C.Exec(&cltypes.MsgCollectIncentives{PositionIds: []uint64{cp.PositionId}, Sender: owner.String()})
		var resp cltypes.MsgCollectIncentivesResponse
		_ = r.Unpack(&resp)
		forfeited := resp.ForfeitedIncentives.AmountOf("inca")
		if !r.OK() || !forfeited.IsPositive() {
			return // nothing forfeited: the finding does not reproduce
		}
		// what can still be claimed or emitted
		_ = k.UpdatePoolUptimeAccumulatorsToNow(s.C.Ctx, s.PoolID)
		recs, _ := k.GetAllIncentiveRecordsForPool(s.C.Ctx, s.PoolID)
		rem := osmomath.ZeroDec()
		for _, rec := range recs {
			rem = rem.Add(rec.IncentiveRecordBody.RemainingCoin.Amount)
		}
		ci, fi, _ := k.GetClaimableIncentives(s.C.Ctx, cp.PositionId)
		bal := s.C.Bal(s.Pool().GetIncentivesAddress(), "inca").Amount
		accounted := rem.TruncateInt().Add(ci.AmountOf("inca")).Add(fi.AmountOf("inca"))
		if bal.Sub(accounted).GTE(forfeited.SubRaw(2)) {
			drv.Reproduced(t, "C08-collect-forfeits-stranded")
		}
	})
}
