package c05

import (
	"fmt"
	"math/big"
	"sort"
	"strings"
	"testing"
	"time"

	sdk "github.com/cosmos/cosmos-sdk/types"
	"pgregory.net/rapid"

	"github.com/osmosis-labs/osmosis/osmomath"
	clmodel "github.com/osmosis-labs/osmosis/v31/x/concentrated-liquidity/model"
	cltypes "github.com/osmosis-labs/osmosis/v31/x/concentrated-liquidity/types"
	"github.com/osmosis-labs/osmosis/v31/x/gamm/pool-models/balancer"
	"github.com/osmosis-labs/osmosis/v31/x/gamm/pool-models/stableswap"
	pmtypes "github.com/osmosis-labs/osmosis/v31/x/poolmanager/types"

	"verif/harness/chain"
	"verif/harness/drv"
)

func TestMain(m *testing.M) { drv.Main(m) }

const rule = "a world of 4-6 pools (balancer - a third of them weight-changing, with the clock advanced into or past the change window before the routed message - stableswap, concentrated) over 4 shared denoms with generated reserves, spread factors, default and direction-specific per-pair taker fees, optional whitelisted sender and a prefix of random swaps; then one routed message of 1-4 hops (repeated pools allowed and classified) exact-in / exact-out / split-in; oracle on branches of the same state: (composition) routed execution == the hops executed one after another as single-hop messages - final amounts, trader/pool/fee-collector balances and the digest of all stores; split route == its legs as separate messages; (estimate) for routes visiting each pool at most once and a non-whitelisted sender the estimate query == executed amount and leaves the digest unchanged; (limits) with the true amount T learned on a branch, min-out/max-in in {T-1, T, T+1, far}: success implies received >= min and total debit (taker fees included) <= max, a violated limit must fail; non-trivial = >= 2 hops over >= 2 pool types with a non-zero taker fee; distinct by scenario hash"

var denoms = []string{"aaa", "bbb", "ccc", "ddd"}

func coin(d string, a *big.Int) sdk.Coin { return sdk.NewCoin(d, osmomath.NewIntFromBigInt(a)) }
func ci(d string, a int64) sdk.Coin      { return sdk.NewInt64Coin(d, a) }

type pinfo struct {
	id     uint64
	kind   string
	denoms []string
}

type world struct {
	c     *chain.Chain
	pools []pinfo
	lbp   bool // a weight-changing balancer pool exists
	cw    bool // a CosmWasm (transmuter) pool exists
}

func bigPow(e int) *big.Int { return new(big.Int).Exp(big.NewInt(10), big.NewInt(int64(e)), nil) }

func build(rt *rapid.T, t *testing.T) *world {
	c := chain.NewWithTransmuter(t)
	w := &world{c: c}
	huge := bigPow(30)
	for a := 0; a < 3; a++ {
		cs := sdk.NewCoins(coin("uosmo", huge))
		for _, d := range denoms {
			cs = cs.Add(coin(d, huge))
		}
		c.Fund(chain.Actor(a), cs)
	}
	c.App.PoolManagerKeeper.SetParam(c.Ctx, pmtypes.KeyAuthorizedQuoteDenoms, append([]string{"uosmo"}, denoms...))
	ccp := c.App.ConcentratedLiquidityKeeper.GetParams(c.Ctx)
	ccp.IsPermissionlessPoolCreationEnabled = true
	c.App.ConcentratedLiquidityKeeper.SetParams(c.Ctx, ccp)
	creator := chain.Actor(0)
	pair := func(label string) (string, string) {
		i := rapid.IntRange(0, len(denoms)-1).Draw(rt, label+"A")
		j := rapid.IntRange(0, len(denoms)-2).Draw(rt, label+"B")
		if j >= i {
			j++
		}
		a, b := denoms[i], denoms[j]
		if a > b {
			a, b = b, a
		}
		return a, b
	}
	amt := func(label string) *big.Int {
		return new(big.Int).Mul(big.NewInt(rapid.Int64Range(1, 999).Draw(rt, label+"M")), bigPow(rapid.IntRange(6, 14).Draw(rt, label+"E")))
	}
	nextID := func() uint64 { return c.App.PoolManagerKeeper.GetNextPoolId(c.Ctx) - 1 }
	kinds := []string{"balancer", "balancer", "stable", "cl", "cl"}
	n := rapid.IntRange(4, 6).Draw(rt, "nPools")
	withCW := rapid.IntRange(0, 3).Draw(rt, "cosmwasmPool") == 0
	for i := 0; i < n; i++ {
		kind := kinds[i%len(kinds)]
		if i >= len(kinds) {
			kind = rapid.SampledFrom([]string{"balancer", "stable", "cl"}).Draw(rt, "kind")
		}
		// one world in four replaces its last pool by a CosmWasm pool
		if i == n-1 && withCW {
			kind = "cw"
		}
		a, b := pair(fmt.Sprintf("p%d", i))
		fee := osmomath.NewDecWithPrec(rapid.Int64Range(0, 300).Draw(rt, fmt.Sprintf("fee%d", i)), 4)
		switch kind {
		case "balancer":
			assets := []balancer.PoolAsset{{Weight: osmomath.NewInt(rapid.Int64Range(1, 100).Draw(rt, "wa")), Token: coin(a, amt("ba"))}, {Weight: osmomath.NewInt(rapid.Int64Range(1, 100).Draw(rt, "wb")), Token: coin(b, amt("bb"))}}
			if rapid.Bool().Draw(rt, "third") {
				for _, d := range denoms {
					if d != a && d != b {
						assets = append(assets, balancer.PoolAsset{Weight: osmomath.NewInt(rapid.Int64Range(1, 100).Draw(rt, "wc")), Token: coin(d, amt("bc"))})
						break
					}
				}
			}
			params := balancer.PoolParams{SwapFee: fee, ExitFee: osmomath.ZeroDec()}
			if rapid.IntRange(0, 2).Draw(rt, "weightChanging") == 0 {
				// weights moving linearly to generated targets from now on; the world's clock is advanced below, so the routed
				// message meets the pool somewhere inside (or after) its change window
				var target []balancer.PoolAsset
				for _, as := range assets {
					target = append(target, balancer.PoolAsset{Weight: osmomath.NewInt(rapid.Int64Range(1, 100).Draw(rt, "tw"+as.Token.Denom)), Token: as.Token})
				}
				params.SmoothWeightChangeParams = &balancer.SmoothWeightChangeParams{StartTime: c.Ctx.BlockTime(),
					Duration: time.Duration(rapid.SampledFrom([]int64{int64(time.Hour), int64(24 * time.Hour)}).Draw(rt, "lbpDuration")), TargetPoolWeights: target}
				w.lbp = true
			}
			msg := balancer.NewMsgCreateBalancerPool(creator, params, assets, "")
			if r := c.Exec(&msg); !r.OK() {
				rt.Fatalf("harness: create balancer pool: %v", r.Err)
			}
			var ds []string
			for _, as := range assets {
				ds = append(ds, as.Token.Denom)
			}
			w.pools = append(w.pools, pinfo{nextID(), kind, ds})
		case "stable":
			base := amt("sa")
			liq := sdk.NewCoins(coin(a, base), coin(b, new(big.Int).Add(base, big.NewInt(rapid.Int64Range(0, 1_000_000).Draw(rt, "skew")))))
			msg := stableswap.NewMsgCreateStableswapPool(creator, stableswap.PoolParams{SwapFee: fee, ExitFee: osmomath.ZeroDec()}, liq, []uint64{1, 1}, "")
			if r := c.Exec(&msg); !r.OK() {
				rt.Fatalf("harness: create stableswap pool: %v", r.Err)
			}
			w.pools = append(w.pools, pinfo{nextID(), kind, []string{a, b}})
		case "cw":
			// a CosmWasm pool (transmuter v3): 1:1 between its two assets while the out-reserve lasts; quotes and swaps are
			// contract calls behind the same router
			x, y := amt("cwa"), amt("cwb")
			id, err := c.CreateTransmuterPool(creator, sdk.NewCoins(coin(a, x), coin(b, y)), fmt.Sprintf("alloy%d", i))
			if err != nil {
				rt.Fatalf("harness: %v", err)
			}
			w.pools = append(w.pools, pinfo{id, kind, []string{a, b}})
			w.cw = true
		default:
			spread := rapid.SampledFrom(cltypes.AuthorizedSpreadFactors).Draw(rt, "clSpread")
			msg := clmodel.NewMsgCreateConcentratedPool(creator, a, b, 100, spread)
			if r := c.Exec(&msg); !r.OK() {
				rt.Fatalf("harness: create CL pool: %v", r.Err)
			}
			id := nextID()
			x := amt("cla")
			// a wide position and a narrow one so that swaps cross a tick
			for _, rng := range [][2]int64{{-20_000_000, 20_000_000}, {-10_000, 10_000}, {5_000, 500_000}} {
				r := c.Exec(&cltypes.MsgCreatePosition{PoolId: id, Sender: creator.String(), LowerTick: rng[0], UpperTick: rng[1], TokensProvided: sdk.NewCoins(coin(a, x), coin(b, x)), TokenMinAmount0: osmomath.ZeroInt(), TokenMinAmount1: osmomath.ZeroInt()})
				if !r.OK() {
					rt.Fatalf("harness: create CL position: %v", r.Err)
				}
			}
			w.pools = append(w.pools, pinfo{id, kind, []string{a, b}})
		}
	}
	// taker fees: default and direction-specific overrides
	p := c.App.PoolManagerKeeper.GetParams(c.Ctx)
	p.TakerFeeParams.DefaultTakerFee = osmomath.NewDecWithPrec(rapid.Int64Range(0, 200).Draw(rt, "defaultTakerBp"), 4)
	if rapid.IntRange(0, 3).Draw(rt, "whitelist") == 0 {
		p.TakerFeeParams.ReducedFeeWhitelist = []string{chain.Actor(1).String()}
	}
	c.App.PoolManagerKeeper.SetParams(c.Ctx, p)
	for i := 0; i < rapid.IntRange(0, 6).Draw(rt, "nOverrides"); i++ {
		a := denoms[rapid.IntRange(0, len(denoms)-1).Draw(rt, "ovA")]
		b := denoms[rapid.IntRange(0, len(denoms)-1).Draw(rt, "ovB")]
		if a != b {
			c.App.PoolManagerKeeper.SetDenomPairTakerFee(c.Ctx, a, b, osmomath.NewDecWithPrec(rapid.Int64Range(0, 300).Draw(rt, "ovBp"), 4))
		}
	}
	// the clock moves on after the world is built (weight-changing pools have been written at their start time only)
	if w.lbp {
		c.Advance(time.Duration(rapid.SampledFrom([]int64{int64(time.Second), int64(20 * time.Minute), int64(time.Hour), int64(9 * time.Hour), int64(48 * time.Hour)}).Draw(rt, "clock")))
	}
	return w
}

func (w *world) reserve(p pinfo, d string) *big.Int {
	pi, err := w.c.App.PoolManagerKeeper.GetPool(w.c.Ctx, p.id)
	if err != nil {
		panic(err)
	}
	return w.c.Bal(pi.GetAddress(), d).Amount.BigInt()
}

// walk builds a route of up to hops hops starting with denom in.
func (w *world) walk(rt *rapid.T, in string, hops int) ([]pinfo, []string) {
	var ps []pinfo
	var outs []string
	cur := in
	for h := 0; h < hops; h++ {
		var cand []pinfo
		for _, p := range w.pools {
			for _, d := range p.denoms {
				if d == cur {
					cand = append(cand, p)
				}
			}
		}
		if len(cand) == 0 {
			break
		}
		p := cand[rapid.IntRange(0, len(cand)-1).Draw(rt, "hopPool")]
		var others []string
		for _, d := range p.denoms {
			if d != cur {
				others = append(others, d)
			}
		}
		nxt := others[rapid.IntRange(0, len(others)-1).Draw(rt, "hopOut")]
		ps, outs, cur = append(ps, p), append(outs, nxt), nxt
	}
	return ps, outs
}

func balSnap(c *chain.Chain, addrs []sdk.AccAddress) string {
	var sb strings.Builder
	for _, a := range addrs {
		sb.WriteString(a.String() + "=" + c.App.BankKeeper.GetAllBalances(c.Ctx, a).String() + ";")
	}
	return sb.String()
}

func TestPropRouter(t *testing.T) {
	drv.Check(t, drv.Cfg{Name: "router", Rule: rule, Quick: 300, Thorough: 15000}, func(rt *rapid.T, cs *drv.Case) {
		w := build(rt, t)
		c := w.c
		// prior activity
		for i := 0; i < rapid.IntRange(0, 4).Draw(rt, "prefix"); i++ {
			in := denoms[rapid.IntRange(0, len(denoms)-1).Draw(rt, "preIn")]
			ps, outs := w.walk(rt, in, 1)
			if len(ps) == 0 {
				continue
			}
			a := new(big.Int).Quo(w.reserve(ps[0], in), big.NewInt(rapid.Int64Range(20, 2000).Draw(rt, "preDiv")))
			if a.Sign() > 0 {
				c.Exec(&pmtypes.MsgSwapExactAmountIn{Sender: chain.Actor(2).String(), Routes: []pmtypes.SwapAmountInRoute{{PoolId: ps[0].id, TokenOutDenom: outs[0]}}, TokenIn: coin(in, a), TokenOutMinAmount: osmomath.OneInt()})
			}
		}
		sender := chain.Actor(rapid.IntRange(0, 1).Draw(rt, "sender")) // actor 1 may be whitelisted
		wl := c.App.PoolManagerKeeper.GetParams(c.Ctx).TakerFeeParams.ReducedFeeWhitelist
		whitelisted := len(wl) > 0 && wl[0] == sender.String()
		in := denoms[rapid.IntRange(0, len(denoms)-1).Draw(rt, "in")]
		ps, outs := w.walk(rt, in, rapid.IntRange(1, 4).Draw(rt, "hops"))
		if len(ps) == 0 {
			rt.Skip("no route")
		}
		out := outs[len(outs)-1]
		repeated, kinds := false, map[string]bool{}
		seen := map[uint64]bool{}
		for _, p := range ps {
			if seen[p.id] {
				repeated = true
			}
			seen[p.id] = true
			kinds[p.kind] = true
		}
		// denom revisits make the trader an intermediary in the judged denoms; keep them but classify
		revisit := false
		for i, o := range outs {
			if o == in || (i < len(outs)-1 && o == out) {
				revisit = true
			}
		}
		var tracked []sdk.AccAddress
		tracked = append(tracked, sender, c.App.AccountKeeper.GetModuleAddress("taker_fee_collector"))
		for _, p := range w.pools {
			pi, _ := c.App.PoolManagerKeeper.GetPool(c.Ctx, p.id)
			tracked = append(tracked, pi.GetAddress())
		}
		amtIn := new(big.Int).Quo(w.reserve(ps[0], in), big.NewInt(rapid.Int64Range(3, 100_000).Draw(rt, "amtDiv")))
		if amtIn.Sign() == 0 {
			amtIn.SetInt64(1)
		}
		desc := fmt.Sprintf("in=%s route=%v outs=%v whitelisted=%v", in, ids(ps), outs, whitelisted)
		mode := rapid.SampledFrom([]string{"exactIn", "exactIn", "exactOut", "exactOut", "splitIn", "splitIn", "splitOut", "splitOut"}).Draw(rt, "mode")
		switch mode {
		case "exactIn":
			var routes []pmtypes.SwapAmountInRoute
			for i := range ps {
				routes = append(routes, pmtypes.SwapAmountInRoute{PoolId: ps[i].id, TokenOutDenom: outs[i]})
			}
			// A: routed
			A := c.Branch()
			b0 := A.Bal(sender, out).Amount
			rA := A.Exec(&pmtypes.MsgSwapExactAmountIn{Sender: sender.String(), Routes: routes, TokenIn: coin(in, amtIn), TokenOutMinAmount: osmomath.OneInt()})
			// B: hop by hop
			B := c.Branch()
			cur := coin(in, amtIn)
			okB := true
			for i := range ps {
				bal0 := B.Bal(sender, outs[i]).Amount
				r := B.Exec(&pmtypes.MsgSwapExactAmountIn{Sender: sender.String(), Routes: routes[i : i+1], TokenIn: cur, TokenOutMinAmount: osmomath.OneInt()})
				if !r.OK() {
					okB = false
					break
				}
				var resp pmtypes.MsgSwapExactAmountInResponse
				_ = r.Unpack(&resp)
				_ = bal0
				cur = sdk.NewCoin(outs[i], resp.TokenOutAmount)
			}
			if rA.OK() != okB {
				rt.Fatalf("exact-in %s amt=%s: routed swap ok=%v (%v) but the hops one after another ok=%v", desc, amtIn, rA.OK(), rA.Err, okB)
			}
			if !rA.OK() {
				cs.Class("rejected")
				return
			}
			var respA pmtypes.MsgSwapExactAmountInResponse
			_ = rA.Unpack(&respA)
			if !respA.TokenOutAmount.Equal(cur.Amount) {
				rt.Fatalf("exact-in %s amt=%s: routed swap returned %s%s, the hops one after another return %s", desc, amtIn, respA.TokenOutAmount, out, cur.Amount)
			}
			if sa, sb := balSnap(A, tracked), balSnap(B, tracked); sa != sb {
				rt.Fatalf("exact-in %s amt=%s: balances after the routed swap differ from the composition:\n routed: %s\n hops:   %s", desc, amtIn, sa, sb)
			}
			if A.Digest() != B.Digest() {
				rt.Fatalf("exact-in %s amt=%s: state after the routed swap differs from the state after the hops executed one by one", desc, amtIn)
			}
			T := respA.TokenOutAmount
			got := A.Bal(sender, out).Amount.Sub(b0)
			// estimate
			if !repeated && !whitelisted {
				d0 := c.Digest()
				est, err := c.App.PoolManagerKeeper.MultihopEstimateOutGivenExactAmountIn(c.Ctx, routes, coin(in, amtIn))
				if c.Digest() != d0 {
					rt.Fatalf("estimate changed state (%s)", desc)
				}
				if err != nil || !est.Equal(T) {
					rt.Fatalf("exact-in %s amt=%s: estimate %v (err %v) but execution returned %s", desc, amtIn, est, err, T)
				}
				cs.Class("estimate-checked")
			}
			// limits
			lim := map[string]osmomath.Int{"T-1": T.SubRaw(1), "T": T, "T+1": T.AddRaw(1), "far": T.MulRaw(2).AddRaw(7)}
			for _, k := range []string{"T-1", "T", "T+1", "far"} {
				if !lim[k].IsPositive() {
					continue
				}
				L := c.Branch()
				l0 := L.Bal(sender, out).Amount
				r := L.Exec(&pmtypes.MsgSwapExactAmountIn{Sender: sender.String(), Routes: routes, TokenIn: coin(in, amtIn), TokenOutMinAmount: lim[k]})
				if r.OK() {
					if rec := L.Bal(sender, out).Amount.Sub(l0); rec.LT(lim[k]) && !revisit {
						rt.Fatalf("exact-in %s amt=%s min-out=%s: swap succeeded but delivered only %s%s", desc, amtIn, lim[k], rec, out)
					}
					if k == "T+1" || k == "far" {
						rt.Fatalf("exact-in %s amt=%s: true output %s but the swap succeeded with minimum %s", desc, amtIn, T, lim[k])
					}
				} else if k == "T-1" || k == "T" {
					rt.Fatalf("exact-in %s amt=%s: true output %s but the swap failed with minimum %s: %v", desc, amtIn, T, lim[k], r.Err)
				}
			}
			_ = got
		case "exactOut":
			if repeated {
				cs.Class("exact-out-repeated-pool-skipped")
				return
			}
			if whitelisted && len(ps) >= 2 && drv.Known("C05-exact-out-whitelist-plan") {
				cs.Exclude("C05-exact-out-whitelist-plan")
				return
			}
			// route given forward as (pool, tokenIn) pairs
			var routes []pmtypes.SwapAmountOutRoute
			curIn := in
			for i := range ps {
				routes = append(routes, pmtypes.SwapAmountOutRoute{PoolId: ps[i].id, TokenInDenom: curIn})
				curIn = outs[i]
			}
			amtOut := new(big.Int).Quo(w.reserve(ps[len(ps)-1], out), big.NewInt(rapid.Int64Range(3, 100_000).Draw(rt, "outDiv")))
			if amtOut.Sign() == 0 {
				amtOut.SetInt64(1)
			}
			far := osmomath.NewIntFromBigInt(bigPow(29))
			A := c.Branch()
			a0 := A.Bal(sender, in).Amount
			rA := A.Exec(&pmtypes.MsgSwapExactAmountOut{Sender: sender.String(), Routes: routes, TokenInMaxAmount: far, TokenOut: coin(out, amtOut)})
			// B: required inputs backwards by single-hop estimates on the start state, then executed forward
			need := make([]sdk.Coin, len(ps)+1)
			need[len(ps)] = coin(out, amtOut)
			okEst := true
			for i := len(ps) - 1; i >= 0; i-- {
				var v osmomath.Int
				var err error
				if whitelisted {
					// a whitelisted sender pays no taker fee: learn the hop input by executing it on a scratch branch
					S := c.Branch()
					r := S.Exec(&pmtypes.MsgSwapExactAmountOut{Sender: sender.String(), Routes: routes[i : i+1], TokenInMaxAmount: far, TokenOut: need[i+1]})
					if !r.OK() {
						err = r.Err
					} else {
						var resp pmtypes.MsgSwapExactAmountOutResponse
						_ = r.Unpack(&resp)
						v = resp.TokenInAmount
					}
				} else {
					v, err = c.App.PoolManagerKeeper.MultihopEstimateInGivenExactAmountOut(c.Ctx, routes[i:i+1], need[i+1])
				}
				if err != nil {
					okEst = false
					break
				}
				need[i] = sdk.NewCoin(routes[i].TokenInDenom, v)
			}
			okB := okEst
			B := c.Branch()
			if okEst {
				for i := range ps {
					r := B.Exec(&pmtypes.MsgSwapExactAmountOut{Sender: sender.String(), Routes: routes[i : i+1], TokenInMaxAmount: far, TokenOut: need[i+1]})
					if !r.OK() {
						okB = false
						break
					}
				}
			}
			if rA.OK() != okB {
				rt.Fatalf("exact-out %s out=%s%s: routed swap ok=%v (%v) but the hops one after another ok=%v", desc, amtOut, out, rA.OK(), rA.Err, okB)
			}
			if !rA.OK() {
				cs.Class("rejected")
				return
			}
			var respA pmtypes.MsgSwapExactAmountOutResponse
			_ = rA.Unpack(&respA)
			T := respA.TokenInAmount
			if !T.Equal(need[0].Amount) {
				rt.Fatalf("exact-out %s out=%s%s: routed swap charged %s%s, the hops one after another need %s", desc, amtOut, out, T, in, need[0].Amount)
			}
			if sa, sb := balSnap(A, tracked), balSnap(B, tracked); sa != sb {
				rt.Fatalf("exact-out %s out=%s%s: balances after the routed swap differ from the composition:\n routed: %s\n hops:   %s", desc, amtOut, out, sa, sb)
			}
			if A.Digest() != B.Digest() {
				rt.Fatalf("exact-out %s out=%s%s: state after the routed swap differs from the state after the hops executed one by one", desc, amtOut, out)
			}
			debit := a0.Sub(A.Bal(sender, in).Amount)
			if !whitelisted {
				d0 := c.Digest()
				est, err := c.App.PoolManagerKeeper.MultihopEstimateInGivenExactAmountOut(c.Ctx, routes, coin(out, amtOut))
				if c.Digest() != d0 {
					rt.Fatalf("estimate changed state (%s)", desc)
				}
				if err != nil || !est.Equal(T) {
					rt.Fatalf("exact-out %s out=%s%s: estimate %v (err %v) but execution charged %s", desc, amtOut, out, est, err, T)
				}
				cs.Class("estimate-checked")
			}
			if !revisit && !debit.Equal(T) {
				rt.Fatalf("exact-out %s: response says %s%s was charged but the trader was debited %s", desc, T, in, debit)
			}
			lim := map[string]osmomath.Int{"T-1": T.SubRaw(1), "T": T, "T+1": T.AddRaw(1)}
			for _, k := range []string{"T-1", "T", "T+1"} {
				if !lim[k].IsPositive() {
					continue
				}
				L := c.Branch()
				l0 := L.Bal(sender, in).Amount
				r := L.Exec(&pmtypes.MsgSwapExactAmountOut{Sender: sender.String(), Routes: routes, TokenInMaxAmount: lim[k], TokenOut: coin(out, amtOut)})
				if r.OK() {
					if d := l0.Sub(L.Bal(sender, in).Amount); d.GT(lim[k]) && !revisit {
						rt.Fatalf("exact-out %s out=%s%s max-in=%s: swap succeeded but debited %s%s in total (taker fee included): more than the caller's maximum", desc, amtOut, out, lim[k], d, in)
					}
				} else if k == "T" || k == "T+1" {
					rt.Fatalf("exact-out %s out=%s%s: true cost %s but the swap failed with maximum %s: %v", desc, amtOut, out, T, lim[k], r.Err)
				}
			}
		case "splitOut": // split route exact out: 2-4 legs, each a 1..2-hop route from `in` to the same `out`, each with its own amount out
			has := func(p pinfo, d string) bool {
				for _, x := range p.denoms {
					if x == d {
						return true
					}
				}
				return false
			}
			type legRoute struct {
				ps  []pinfo
				ins []string // token-in denom of every hop
			}
			var all []legRoute
			for _, p1 := range w.pools {
				if !has(p1, in) {
					continue
				}
				if has(p1, out) && in != out {
					all = append(all, legRoute{[]pinfo{p1}, []string{in}})
				}
				for _, mid := range p1.denoms {
					if mid == in || mid == out {
						continue
					}
					for _, p2 := range w.pools {
						if p2.id != p1.id && has(p2, mid) && has(p2, out) {
							all = append(all, legRoute{[]pinfo{p1, p2}, []string{in, mid}})
						}
					}
				}
			}
			if len(all) < 2 {
				rt.Skip("no split route")
			}
			var legs []pmtypes.SwapAmountOutSplitRoute
			nl := rapid.IntRange(2, 4).Draw(rt, "legs")
			for l := 0; l < nl; l++ {
				lr := all[rapid.IntRange(0, len(all)-1).Draw(rt, "legRoute")]
				var rr []pmtypes.SwapAmountOutRoute
				for i := range lr.ps {
					rr = append(rr, pmtypes.SwapAmountOutRoute{PoolId: lr.ps[i].id, TokenInDenom: lr.ins[i]})
				}
				dup := false
				for _, ex := range legs {
					if fmt.Sprint(ex.Pools) == fmt.Sprint(rr) {
						dup = true
					}
				}
				if dup {
					continue
				}
				a := new(big.Int).Quo(w.reserve(lr.ps[len(lr.ps)-1], out), big.NewInt(rapid.Int64Range(20, 50_000).Draw(rt, "legDiv")))
				if a.Sign() == 0 {
					a.SetInt64(1)
				}
				legs = append(legs, pmtypes.SwapAmountOutSplitRoute{Pools: rr, TokenOutAmount: osmomath.NewIntFromBigInt(a)})
			}
			if len(legs) < 2 {
				rt.Skip("no split route")
			}
			far := osmomath.NewIntFromBigInt(new(big.Int).Exp(big.NewInt(10), big.NewInt(40), nil))
			A := c.Branch()
			a0 := A.Bal(sender, in).Amount
			rA := A.Exec(&pmtypes.MsgSplitRouteSwapExactAmountOut{Sender: sender.String(), Routes: legs, TokenOutDenom: out, TokenInMaxAmount: far})
			B := c.Branch()
			sum := osmomath.ZeroInt()
			okB := true
			for _, lg := range legs {
				r := B.Exec(&pmtypes.MsgSwapExactAmountOut{Sender: sender.String(), Routes: lg.Pools, TokenInMaxAmount: far, TokenOut: sdk.NewCoin(out, lg.TokenOutAmount)})
				if !r.OK() {
					okB = false
					break
				}
				var resp pmtypes.MsgSwapExactAmountOutResponse
				_ = r.Unpack(&resp)
				sum = sum.Add(resp.TokenInAmount)
			}
			if rA.OK() != okB {
				if rA.OK() && !okB {
					cs.Class("split-leg-fails-alone")
					return
				}
				rt.Fatalf("split-out %s: split route failed (%v) although every leg succeeds as a separate message", desc, rA.Err)
			}
			if !rA.OK() {
				cs.Class("rejected")
				return
			}
			var respA pmtypes.MsgSplitRouteSwapExactAmountOutResponse
			_ = rA.Unpack(&respA)
			T := respA.TokenInAmount
			if !T.Equal(sum) {
				rt.Fatalf("split-out %s legs=%d: split route charged %s%s, its legs as separate messages charge %s", desc, len(legs), T, in, sum)
			}
			if sa, sb := balSnap(A, tracked), balSnap(B, tracked); sa != sb {
				rt.Fatalf("split-out %s: balances differ from the sum of the legs:\n split: %s\n legs:  %s", desc, sa, sb)
			}
			debit := a0.Sub(A.Bal(sender, in).Amount)
			// limits: the caller's maximum is a bound on the TOTAL charged over all legs
			lim := map[string]osmomath.Int{"T-1": T.SubRaw(1), "T": T, "T+1": T.AddRaw(1), "0.9T": T.MulRaw(9).QuoRaw(10), "0.75T": T.MulRaw(3).QuoRaw(4), "0.55T": T.MulRaw(55).QuoRaw(100)}
			for _, k := range []string{"T-1", "T", "T+1", "0.9T", "0.75T", "0.55T"} {
				if !lim[k].IsPositive() {
					continue
				}
				L := c.Branch()
				l0 := L.Bal(sender, in).Amount
				r := L.Exec(&pmtypes.MsgSplitRouteSwapExactAmountOut{Sender: sender.String(), Routes: legs, TokenOutDenom: out, TokenInMaxAmount: lim[k]})
				if r.OK() {
					if d := l0.Sub(L.Bal(sender, in).Amount); d.GT(lim[k]) {
						rt.Fatalf("split-out %s legs=%d max-in=%s (%s of the true total %s): swap succeeded but debited %s%s in total: more than the caller's maximum", desc, len(legs), lim[k], k, T, d, in)
					}
				} else if (k == "T" || k == "T+1") && debit.Equal(T) {
					rt.Fatalf("split-out %s: true total %s but the swap failed with maximum %s: %v", desc, T, lim[k], r.Err)
				}
			}
			cs.Class("split-out")
			cs.Class(fmt.Sprintf("split-out-legs=%d", len(legs)))
		default: // split route exact in: every leg is a 1..2-hop route from in to the same out
			var legs []pmtypes.SwapAmountInSplitRoute
			total := new(big.Int)
			nl := rapid.IntRange(2, 3).Draw(rt, "legs")
			// all 1- and 2-hop routes from in to out that exist in this world; legs are drawn among them
			type legRoute struct {
				ps []pinfo
				os []string
			}
			has := func(p pinfo, d string) bool {
				for _, x := range p.denoms {
					if x == d {
						return true
					}
				}
				return false
			}
			var all []legRoute
			for _, p1 := range w.pools {
				if !has(p1, in) {
					continue
				}
				if has(p1, out) && in != out {
					all = append(all, legRoute{[]pinfo{p1}, []string{out}})
				}
				for _, mid := range p1.denoms {
					if mid == in || mid == out {
						continue
					}
					for _, p2 := range w.pools {
						if p2.id != p1.id && has(p2, mid) && has(p2, out) {
							all = append(all, legRoute{[]pinfo{p1, p2}, []string{mid, out}})
						}
					}
				}
			}
			if len(all) < 2 {
				rt.Skip("no split route")
			}
			for l := 0; l < nl; l++ {
				lr := all[rapid.IntRange(0, len(all)-1).Draw(rt, "legRoute")]
				lp, lo := lr.ps, lr.os
				var rr []pmtypes.SwapAmountInRoute
				for i := range lp {
					rr = append(rr, pmtypes.SwapAmountInRoute{PoolId: lp[i].id, TokenOutDenom: lo[i]})
				}
				a := new(big.Int).Quo(w.reserve(lp[0], in), big.NewInt(rapid.Int64Range(5, 50_000).Draw(rt, "legDiv")))
				if a.Sign() == 0 {
					a.SetInt64(1)
				}
				dup := false
				for _, ex := range legs {
					if fmt.Sprint(ex.Pools) == fmt.Sprint(rr) {
						dup = true
					}
				}
				if dup {
					continue
				}
				total.Add(total, a)
				legs = append(legs, pmtypes.SwapAmountInSplitRoute{Pools: rr, TokenInAmount: osmomath.NewIntFromBigInt(a)})
			}
			if len(legs) < 2 {
				rt.Skip("no split route")
			}
			A := c.Branch()
			rA := A.Exec(&pmtypes.MsgSplitRouteSwapExactAmountIn{Sender: sender.String(), Routes: legs, TokenInDenom: in, TokenOutMinAmount: osmomath.OneInt()})
			B := c.Branch()
			sum := osmomath.ZeroInt()
			okB := true
			for _, lg := range legs {
				r := B.Exec(&pmtypes.MsgSwapExactAmountIn{Sender: sender.String(), Routes: lg.Pools, TokenIn: sdk.NewCoin(in, lg.TokenInAmount), TokenOutMinAmount: osmomath.OneInt()})
				if !r.OK() {
					okB = false
					break
				}
				var resp pmtypes.MsgSwapExactAmountInResponse
				_ = r.Unpack(&resp)
				sum = sum.Add(resp.TokenOutAmount)
			}
			if rA.OK() != okB {
				// a leg whose own output rounds to zero fails as a separate message but may pass inside a split: only the converse matters
				if rA.OK() && !okB {
					cs.Class("split-leg-fails-alone")
					return
				}
				rt.Fatalf("split %s: split route failed (%v) although every leg succeeds as a separate message", desc, rA.Err)
			}
			if !rA.OK() {
				cs.Class("rejected")
				return
			}
			var respA pmtypes.MsgSplitRouteSwapExactAmountInResponse
			_ = rA.Unpack(&respA)
			if !respA.TokenOutAmount.Equal(sum) {
				rt.Fatalf("split %s legs=%d total in %s: split route returned %s%s, its legs as separate messages return %s", desc, len(legs), total, respA.TokenOutAmount, out, sum)
			}
			if sa, sb := balSnap(A, tracked), balSnap(B, tracked); sa != sb {
				rt.Fatalf("split %s: balances differ from the sum of the legs:\n split: %s\n legs:  %s", desc, sa, sb)
			}
			// limits: the caller's minimum is a bound on the TOTAL received over all legs
			TT := respA.TokenOutAmount
			for k, m := range map[string]osmomath.Int{"T-1": TT.SubRaw(1), "T": TT, "T+1": TT.AddRaw(1), "1.1T": TT.MulRaw(11).QuoRaw(10), "1.5T": TT.MulRaw(3).QuoRaw(2)} {
				if !m.IsPositive() {
					continue
				}
				L := c.Branch()
				l0 := L.Bal(sender, out).Amount
				r := L.Exec(&pmtypes.MsgSplitRouteSwapExactAmountIn{Sender: sender.String(), Routes: legs, TokenInDenom: in, TokenOutMinAmount: m})
				if r.OK() {
					if d := L.Bal(sender, out).Amount.Sub(l0); d.LT(m) && in != out {
						rt.Fatalf("split %s legs=%d min-out=%s (%s of the true total %s): swap succeeded but delivered only %s%s", desc, len(legs), m, k, TT, d, out)
					}
				} else if k == "T" || k == "T-1" {
					rt.Fatalf("split %s: true total %s but the swap failed with minimum %s: %v", desc, TT, m, r.Err)
				}
			}
			cs.Class("split")
		}
		cs.Class("mode=" + mode)
		cs.Class(fmt.Sprintf("hops=%d", len(ps)))
		if repeated {
			cs.Class("repeated-pool")
		}
		if whitelisted {
			cs.Class("whitelisted")
		}
		if kinds["cw"] {
			cs.Class("route-through-cosmwasm-pool")
		}
		if len(ps) >= 2 && len(kinds) >= 2 {
			cs.NonTrivial(desc + "|" + mode + "|" + amtIn.String())
			cs.Samplef("%s mode=%s amtIn=%s kinds=%v", desc, mode, amtIn, keys(kinds))
		}
	})
}

func ids(ps []pinfo) []string {
	var out []string
	for _, p := range ps {
		out = append(out, fmt.Sprintf("%d:%s", p.id, p.kind))
	}
	return out
}

func keys(m map[string]bool) []string {
	var out []string
	for k := range m {
		out = append(out, k)
	}
	sort.Strings(out)
	return out
}

var _ = ci

// world2 builds the deterministic two-pool world used by the regression / known-finding reproducers.
func world2(t *testing.T) (*chain.Chain, uint64, uint64) {
	c := chain.New(t)
	for a := 0; a < 2; a++ {
		c.Fund(chain.Actor(a), sdk.NewCoins(ci("uosmo", 1_000_000_000_000), ci("aaa", 1_000_000_000_000), ci("bbb", 1_000_000_000_000), ci("ccc", 1_000_000_000_000)))
	}
	mk := func(a, b string) uint64 {
		msg := balancer.NewMsgCreateBalancerPool(chain.Actor(0), balancer.PoolParams{SwapFee: osmomath.NewDecWithPrec(1, 3), ExitFee: osmomath.ZeroDec()},
			[]balancer.PoolAsset{{Weight: osmomath.NewInt(1), Token: ci(a, 1_000_000_000)}, {Weight: osmomath.NewInt(1), Token: ci(b, 1_000_000_000)}}, "")
		if r := c.Exec(&msg); !r.OK() {
			t.Fatalf("create pool: %v", r.Err)
		}
		return c.App.PoolManagerKeeper.GetNextPoolId(c.Ctx) - 1
	}
	p1, p2 := mk("aaa", "bbb"), mk("bbb", "ccc")
	p := c.App.PoolManagerKeeper.GetParams(c.Ctx)
	p.TakerFeeParams.DefaultTakerFee = osmomath.NewDecWithPrec(1, 2)
	c.App.PoolManagerKeeper.SetParams(c.Ctx, p)
	return c, p1, p2
}

// TestRegress_C05_exact_out_max: the fixed finding must stay fixed - a successful exact-out swap never
// debits more than TokenInMaxAmount, taker fee included.
func TestRegress_C05_exact_out_max(t *testing.T) {
	c, p1, _ := world2(t)
	s := chain.Actor(1)
	route := []pmtypes.SwapAmountOutRoute{{PoolId: p1, TokenInDenom: "aaa"}}
	b := c.Branch()
	r := b.Exec(&pmtypes.MsgSwapExactAmountOut{Sender: s.String(), Routes: route, TokenInMaxAmount: osmomath.NewInt(1_000_000_000), TokenOut: ci("bbb", 1_000_000)})
	if !r.OK() {
		t.Fatalf("probe swap: %v", r.Err)
	}
	var resp pmtypes.MsgSwapExactAmountOutResponse
	_ = r.Unpack(&resp)
	T := resp.TokenInAmount
	for _, max := range []osmomath.Int{T.SubRaw(1), T.SubRaw(5000)} {
		b := c.Branch()
		before := b.Bal(s, "aaa").Amount
		r := b.Exec(&pmtypes.MsgSwapExactAmountOut{Sender: s.String(), Routes: route, TokenInMaxAmount: max, TokenOut: ci("bbb", 1_000_000)})
		if r.OK() {
			if d := before.Sub(b.Bal(s, "aaa").Amount); d.GT(max) {
				t.Fatalf("exact-out swap with max %s succeeded and debited %s", max, d)
			}
		}
	}
}

// TestKnown_C05_exact_out_whitelist_plan reproduces the listed finding.
func TestKnown_C05_exact_out_whitelist_plan(t *testing.T) {
	c, p1, p2 := world2(t)
	s := chain.Actor(1)
	p := c.App.PoolManagerKeeper.GetParams(c.Ctx)
	p.TakerFeeParams.ReducedFeeWhitelist = []string{s.String()}
	c.App.PoolManagerKeeper.SetParams(c.Ctx, p)
	far := osmomath.NewInt(1_000_000_000)
	route := []pmtypes.SwapAmountOutRoute{{PoolId: p1, TokenInDenom: "aaa"}, {PoolId: p2, TokenInDenom: "bbb"}}
	A := c.Branch()
	rA := A.Exec(&pmtypes.MsgSwapExactAmountOut{Sender: s.String(), Routes: route, TokenInMaxAmount: far, TokenOut: ci("ccc", 1_000_000)})
	B := c.Branch()
	r2 := B.Exec(&pmtypes.MsgSwapExactAmountOut{Sender: s.String(), Routes: route[1:], TokenInMaxAmount: far, TokenOut: ci("ccc", 1_000_000)})
	if !rA.OK() || !r2.OK() {
		return
	}
	var resp2, resp1, respA pmtypes.MsgSwapExactAmountOutResponse
	_ = r2.Unpack(&resp2)
	B2 := c.Branch()
	r1 := B2.Exec(&pmtypes.MsgSwapExactAmountOut{Sender: s.String(), Routes: route[:1], TokenInMaxAmount: far, TokenOut: sdk.NewCoin("bbb", resp2.TokenInAmount)})
	if !r1.OK() {
		return
	}
	_ = r1.Unpack(&resp1)
	_ = rA.Unpack(&respA)
	if respA.TokenInAmount.GT(resp1.TokenInAmount) {
		drv.Reproduced(t, "C05-exact-out-whitelist-plan")
	}
}
