#!/bin/bash
# usage: seeds_all.sh [tier] [ids...] — applies every /verif/seeded/<id>/patch.diff to /repo in turn, runs the owning check with
# scratch evidence/replay directories, reverts, and prints caught / MISSED per seed. /repo must be clean. The exclusive repo
# lock is taken per seed (apply .. revert), so that other check builds can get in between two seeds.
mkdir -p /verif/run
tier=${1:-quick}; shift
cd /verif
ids=${@:-$(ls seeded)}
for id in $ids; do
  (
  flock -x 9; export VERIF_LOCK_HELD=1
  [ -z "$(git -C /repo status --porcelain)" ] || { echo "repo dirty"; exit 9; }
  prop=$(python3 -c "import json;print(json.load(open('seeded/$id/meta.json'))['property'])")
  git -C /repo apply /verif/seeded/$id/patch.diff || { echo "$id: patch does not apply"; exit 0; }
  t0=$(date +%s)
  out=$(VERIF_EVIDENCE_DIR=/verif/run/scratch-evidence VERIF_REPLAY_DIR=/verif/run/scratch-replays ./check $prop --tier $tier 2>&1); rc=$?
  git -C /repo checkout -- .
  t1=$(date +%s)
  if [ $rc = 1 ]; then echo "$id $prop caught ($((t1-t0))s)"; else echo "$id $prop MISSED rc=$rc ($((t1-t0))s)"; echo "$out" | grep -v KNOWN | tail -3; fi
  ) 9>/verif/run/.repo.lock
done
find /verif/run/scratch-replays -type f -delete 2>/dev/null
