#!/usr/bin/env python3
"""Regenerates /verif/MANIFEST.json from props.json (claimed checks) and properties.jsonl (not_applicable for the rest)."""
import json, os
R = os.path.dirname(os.path.dirname(os.path.abspath(__file__)))
props = json.load(open(os.path.join(R, "props.json")))
allp = [json.loads(l) for l in open(os.path.join(R, "properties.jsonl"))]
nap = os.path.join(R, "tools/not_applicable.json")
na_reason = json.load(open(nap)) if os.path.exists(nap) else {}
checks = []
for pid in sorted(props):
    c = props[pid]
    checks.append({
        "property_id": pid,
        "quick_cmd": "./check %s --tier quick" % pid,
        "thorough_cmd": "./check %s --tier thorough" % pid,
        "evidence_file": "/verif/evidence/%s.json" % pid,
        "replay_cmd_template": "./check %s --replay {path}" % pid,
        "engine": "rapid-harness",
        "level_claimed": {"category": "exploration", "text": c.get("level_text", ""), "design_ref": c.get("design_ref", "DESIGN.md Part A (A.2 as built" + (", A.3" if pid == "C19" else "") + ") and Part B §3 " + pid + " (plan)")},
        "level_note": c.get("level_note", "; ".join(c.get("assumptions", []))),
        "technique": c.get("technique", "property-based testing (pgregory.net/rapid) against an explicit oracle"),
    })
na = [{"property_id": p["id"], "reason": na_reason.get(p["id"], "check not built yet (planned; see DESIGN.md §6) - not claimed")} for p in allp if p["id"] not in props]
m = {
    "version": 1,
    "setup_cmd": "./check --build-all",
    "hooks": {"guard": "verif", "enable": "go test -tags verif (no hook commits exist; the tag is reserved)", "baseline_off_cmd": json.load(open("/root/.vp/BASELINE.json"))["cmd"] if os.path.exists("/root/.vp/BASELINE.json") else "for m in . ./osmomath ./osmoutils ./x/epochs ./x/ibc-hooks; do (cd /repo/$m && go test -json -vet=off -count=1 -timeout 25m ./...); done", "source_commits": [], "add_only": True},
    "engines": [{"name": "rapid-harness", "path": "/verif/harness", "serves_properties": sorted(props), "kind_free_text": "Go property-based tests (pgregory.net/rapid v1.3.0: random + stateful generation, shrinking, fail-file replay) run against /repo through a private go.work; driver /verif/check shards by seed, merges statistics into evidence"}],
    "checks": checks,
    "not_applicable": na,
    "notes": "All checks are generated-input search against explicit oracles; exit 2 from ./check means inconclusive (build failure/timeout), never a verdict. Known findings: /verif/known_findings.json.",
}
json.dump(m, open(os.path.join(R, "MANIFEST.json"), "w"), indent=1)
print("checks:", len(checks), "not_applicable:", len(na))
