#!/usr/bin/env python3
"""usage: mkprompt.py <wt-id> <PROP> ["already taken" text] — writes /tmp/agentkit/prompt-<wt-id>.txt for a seeding sub-agent.
The prompt contains only the property record and sandbox build instructions - nothing about /verif's checks."""
import json, sys
wid, pid = sys.argv[1], sys.argv[2]
taken = sys.argv[3] if len(sys.argv) > 3 else ""
props = {json.loads(l)["id"]: json.loads(l) for l in open("/verif/properties.jsonl")}
p = props[pid]
readme = open("/tmp/agentkit/README-%s.md" % wid).read()
txt = f"""You are helping evaluate a verification effort for the Go repository osmosis-labs/osmosis (a Cosmos SDK appchain). Your job is to
write ONE realistic, subtle code change ("seeded defect") that BREAKS the semantic property below while the code still compiles and
the existing pinned tests still pass, plus a demonstration test that exposes it.

== Property {pid}: {p['title']} ==
Statement: {p['statement']}
Quantifier: {json.dumps(p.get('quantifier'))}
Why tests cannot settle it: {p.get('why_tests_cant','')}
Anchors (where the behaviour lives): {json.dumps(p.get('anchors'), indent=1)}

== Sandbox ==
{readme}

== What to deliver ==
1. A change to the NON-test source code of the repository inside your worktree (leave it applied, uncommitted, in the working tree;
   do not commit; do not touch *_test.go files other than the new demo; do not edit go.mod/go.sum/go.work). Keep it small (a few lines to
   ~30 lines), the kind of plausible mistake or "optimisation"/refactor a developer could make and a reviewer could miss.
   It must need something SPECIFIC to manifest - e.g. a particular multi-step sequence of operations, an unusual input or boundary
   value, a particular configuration, a failure at a particular point, or two cooperating sites that each look fine alone. It must NOT be
   something ordinary use exposes at once (so not "every swap returns the wrong amount").
   {('Already used ideas for this property (do something DIFFERENT, at a different code site / mechanism): ' + taken) if taken else ''}
2. A demonstration: a NEW test file named exactly zz_seeded_demo_test.go placed in the Go package directory where it is most natural
   (left untracked in the worktree), containing a test function whose name starts with TestSeededDemo (for testify suites: a top-level
   func TestSeededDemo...(t *testing.T) that runs what is needed - it must be selectable with `go test -run TestSeededDemo`).
   It must FAIL with your change and PASS on the original code. Verify both directions yourself (use `git stash`-free methods: e.g.
   `git diff > /tmp/agentkit/{wid}.diff; git checkout -- .; run; git apply /tmp/agentkit/{wid}.diff`).
3. Confirm that the pinned suites still pass WITH your change: run `go test -vet=off -count=1 ./...` inside osmomath/, osmoutils/ and x/epochs/
   (only those that could be affected by your change need to be run; say which you ran).
4. Final answer: (a) which file/function you changed and the diff, (b) what exactly is needed for the breakage to manifest,
   (c) the commands you ran and their outcome for demo-with-change (fails), demo-without-change (passes), pinned suites (pass).
Leave the worktree with the change applied and the demo file present. Do not create files elsewhere except under /tmp/agentkit.
Never touch /repo or /verif (do not even read /verif).
"""
open("/tmp/agentkit/prompt-%s.txt" % wid, "w").write(txt)
print("/tmp/agentkit/prompt-%s.txt" % wid)
