#!/bin/bash
# usage: seed_redo.sh <id> <PROP> <demo pkg dir> "<pinned modules>" — re-creates the scratch worktree of a stored seed
# (patch.diff + demo) and runs seed_verify.sh on it again (e.g. after an inconclusive run); keeps the stored needs text.
set -eu
id=$1; prop=$2; pkg=$3; mods=$4
needs=$(python3 -c "import json;print(json.load(open('/verif/seeded/$id/meta.json')).get('needs',''))")
/verif/tools/mkwt.sh $id >/dev/null
git -C /tmp/wt/$id apply /verif/seeded/$id/patch.diff
cp /verif/seeded/$id/zz_seeded_demo_test.go /tmp/wt/$id/$pkg/
exec /verif/tools/seed_verify.sh $id $prop "$mods" "$needs"
