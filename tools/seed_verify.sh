#!/bin/bash
# usage: seed_verify.sh <wt-id> <prop> "<pinned modules to run>" ["needs text"]
# Confirms a sub-agent's seeded change in its scratch worktree (demo fails with / passes without, pinned
# suite modules pass with it), stores it under /verif/seeded/<wt-id>/, runs our check against it in /repo
# (apply -> check -> revert) and records everything in meta.json. Finally removes the worktree.
mkdir -p /verif/run; exec 9>/verif/run/.repo.lock; flock -x 9; export VERIF_LOCK_HELD=1   # /repo is modified below: keep concurrent check builds out
set -u
id=$1; prop=$2; mods=$3; needs=${4:-}
wt=/tmp/wt/$id; out=/verif/seeded/$id
export GOPROXY=off GOSUMDB=off GOTOOLCHAIN=local GOFLAGS=
mkdir -p $out
cd $wt || exit 9
git diff > $out/patch.diff
demo=$(git ls-files --others --exclude-standard | grep zz_seeded_demo_test.go | head -1)
[ -z "$demo" ] && { echo "no demo"; exit 9; }
cp $demo $out/zz_seeded_demo_test.go
pkgdir=$(dirname $demo)
ov=""; case "$pkgdir" in osmomath*|osmoutils*|x/epochs*|x/ibc-hooks*) ;; *) ov="-overlay /tmp/agentkit/overlay-$id.json";; esac
# module root for the demo
modroot=.; for m in osmomath osmoutils x/epochs x/ibc-hooks; do case "$pkgdir" in $m*) modroot=$m;; esac; done
rel=${pkgdir#$modroot}; rel=${rel#/}
rundemo() { (cd $wt/$modroot && go test -vet=off -count=1 $ov -run 'TestSeededDemo' ./$rel/ 2>&1 | tail -15); }
echo "== demo WITH change"; rundemo > $out/demo_with.txt; tail -3 $out/demo_with.txt
with_rc=$(grep -c "^ok" $out/demo_with.txt)
git diff > $out/.restore.diff; git checkout -- . ; echo "== demo WITHOUT change"; rundemo > $out/demo_without.txt; tail -3 $out/demo_without.txt; git apply $out/.restore.diff; rm -f $out/.restore.diff   # (no git stash: the stash list is shared by all worktrees)
without_rc=$(grep -c "^ok" $out/demo_without.txt)
echo "== pinned suite modules: $mods"
mv $demo /tmp/agentkit/demo-$id.go.aside
pin_ok=1
for m in $mods; do (cd $wt/$m && go test -vet=off -count=1 ./... 2>&1 | tail -30) > $out/pinned_$(echo $m|tr / _).txt; if grep -q "^FAIL\|^---\ FAIL" $out/pinned_$(echo $m|tr / _).txt; then pin_ok=0; echo "pinned FAIL in $m"; fi; done
mv /tmp/agentkit/demo-$id.go.aside $demo
echo "== our check against it"
cd /repo && [ -z "$(git status --porcelain)" ] || { echo "repo dirty"; exit 9; }
git apply $out/patch.diff || { echo "patch does not apply to /repo"; exit 9; }
t0=$(date +%s)
(cd /verif && VERIF_EVIDENCE_DIR=/verif/run/scratch-evidence VERIF_REPLAY_DIR=/verif/run/scratch-replays ./check $prop --tier quick) > $out/check_quick.txt 2>&1; qrc=$?
t1=$(date +%s)
git -C /repo checkout -- .
# keep one replay produced against the seeded change with it, drop the rest (replays/ holds only real findings)
mkdir -p $out/replay; f=$(ls /verif/run/scratch-replays/$prop/*.fail /verif/run/scratch-replays/$prop/*.json 2>/dev/null | head -1); [ -n "$f" ] && cp $f $out/replay/ ; find /verif/run/scratch-replays -type f -delete 2>/dev/null
grep -v KNOWN $out/check_quick.txt | cut -c1-300 | tail -4
python3 - <<PY
import json
json.dump({"id":"$id","property":"$prop","needs":"""$needs""","demo_fails_with_change":$with_rc==0,"demo_passes_without_change":$without_rc>0,
 "pinned_modules_run":"$mods".split(),"pinned_pass_with_change":bool($pin_ok),
 "our_check":{"cmd":"./check $prop --tier quick","exit":$qrc,"caught":$qrc==1,"seconds":$t1-$t0},
 "ran":["demo with/without change in scratch worktree $wt","pinned modules with change","git -C /repo apply patch.diff; ./check $prop --tier quick; git -C /repo checkout -- ."]},
 open("$out/meta.json","w"),indent=1)
PY
git -C /repo worktree remove --force $wt && rm -f /tmp/agentkit/overlay-$id.json; echo "worktree removed"
