#!/bin/bash
# usage: seed_vs.sh <seed id> <PROP> [tier] — runs the check of ANOTHER property against a stored seed (cross-sensitivity).
mkdir -p /verif/run; exec 9>/verif/run/.repo.lock; flock -x 9; export VERIF_LOCK_HELD=1
id=$1; prop=$2; tier=${3:-quick}
cd /verif
[ -z "$(git -C /repo status --porcelain)" ] || { echo "repo dirty"; exit 9; }
git -C /repo apply /verif/seeded/$id/patch.diff || exit 9
out=$(VERIF_EVIDENCE_DIR=/verif/run/scratch-evidence VERIF_REPLAY_DIR=/verif/run/scratch-replays ./check $prop --tier $tier 2>&1); rc=$?
git -C /repo checkout -- .
find /verif/run/scratch-replays -type f -delete 2>/dev/null
if [ $rc = 1 ]; then echo "$id vs $prop: caught"; else echo "$id vs $prop: not caught rc=$rc"; echo "$out" | grep -v KNOWN | tail -2; fi
