#!/bin/bash
# keeps the Go build cache from filling the disk while sub-agents build in many worktrees
use=$(df --output=pcent / | tail -1 | tr -dc 0-9)
if [ "$use" -gt 75 ]; then find /root/.cache/go-build -type f -mmin +45 -delete 2>/dev/null; fi
df -h / | tail -1
