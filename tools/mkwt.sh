#!/bin/bash
# usage: mkwt.sh <wt-id> — creates a scratch git worktree of /repo at /tmp/wt/<wt-id> for a seeding sub-agent, together with
# the build overlay for the emptied statik.go (the kit lives under /tmp/agentkit; nothing of /verif is exposed to the agent).
set -eu
id=$1
mkdir -p /tmp/wt /tmp/agentkit
[ -f /tmp/agentkit/statik.go ] || echo "package statik" > /tmp/agentkit/statik.go
git -C /repo worktree prune
[ -d /tmp/wt/$id ] || git -C /repo worktree add --detach /tmp/wt/$id HEAD >/dev/null 2>&1
echo "{\"Replace\": {\"/tmp/wt/$id/client/docs/statik/statik.go\": \"/tmp/agentkit/statik.go\"}}" > /tmp/agentkit/overlay-$id.json
cat > /tmp/agentkit/README-$id.md <<EOF
Scratch worktree: /tmp/wt/$id  (a git worktree of osmosis-labs/osmosis at a pinned commit). Work ONLY inside it.
Offline sandbox. For every shell call:
  export GOPROXY=off GOSUMDB=off GOTOOLCHAIN=local GOFLAGS=
Modules: the main module (root), and nested modules osmomath/, osmoutils/, x/epochs/, x/ibc-hooks/ (go.work at the root ties them).
The main module only compiles with a build overlay, because client/docs/statik/statik.go is an empty file in this snapshot:
  cd /tmp/wt/$id && go test -vet=off -count=1 -overlay /tmp/agentkit/overlay-$id.json -run 'TestName' ./x/<module>/...
(osmomath, osmoutils, x/epochs are built from inside their own directory and need no overlay:
  cd /tmp/wt/$id/osmomath && go test -vet=off -count=1 ./... )
The "existing tests" that must keep passing are exactly the test suites of osmomath, osmoutils and x/epochs (run them from inside
each of those directories). Tests of the main module (x/gamm, x/concentrated-liquidity, ...) are NOT part of that pinned suite, but you can
use the repository's own test helpers there (app/apptesting KeeperTestHelper: s.Setup(), s.PrepareConcentratedPool(), s.FundAcc, ...).
First cold build of the app takes about a minute; later ones seconds. Do not run the whole main-module test suite (too slow); run single tests.
EOF
echo /tmp/wt/$id
