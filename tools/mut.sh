#!/bin/bash
# usage: mut.sh <prop> <file-in-repo> <python-regex-old> <new> [tier]
# applies a single textual mutation to /repo, runs the check, reverts. Prints rc.
mkdir -p /verif/run; exec 9>/verif/run/.repo.lock; flock -x 9; export VERIF_LOCK_HELD=1   # /repo is modified below: keep concurrent check builds out
set -u
prop=$1; file=$2; old=$3; new=$4; tier=${5:-quick}
cd /repo || exit 9
if [ -n "$(git status --porcelain)" ]; then echo "repo dirty"; exit 9; fi
python3 - "$file" "$old" "$new" <<'PY'
import sys,re
p,old,new=sys.argv[1:4]
s=open(p).read()
n=len(re.findall(old,s))
if n!=1:
    print("pattern matches %d times"%n); sys.exit(3)
new=new.encode().decode('unicode_escape')
open(p,'w').write(re.sub(old,lambda m:new,s,count=1))
PY
rc=$?
if [ $rc -ne 0 ]; then git checkout -- .; exit $rc; fi
git diff | grep '^[+-][^+-]' | head -6
touch /tmp/.mutstart; cd /verif && VERIF_EVIDENCE_DIR=/verif/run/scratch-evidence VERIF_REPLAY_DIR=/verif/run/scratch-replays timeout 3000 ./check $prop --tier $tier | cut -c1-400 | tail -5
echo "mut rc=${PIPESTATUS[0]}"
find /verif/replays -type f -newer /tmp/.mutstart -delete 2>/dev/null; cd /repo && git checkout -- .
