#!/bin/bash
# usage: run_all.sh [tier] [seed] [ids...] — runs every registered check on the current /repo tree, one after the other
tier=${1:-quick}; seed=${2:-0}; shift; shift
cd /verif
ids=${@:-$(python3 -c "import json;print(' '.join(sorted(json.load(open('props.json')))))")}
for id in $ids; do
  out=$(VERIF_SEED=$seed ./check $id --tier $tier 2>&1); rc=$?
  echo "$id rc=$rc $(echo "$out" | grep -v KNOWN-FINDING | tail -1 | cut -c1-200) [known: $(echo "$out" | grep -c KNOWN-FINDING)]"
done
