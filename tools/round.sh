#!/bin/bash
# usage: round.sh <suffix-letter> <PROP>... — prepares worktrees and prompts (/tmp/agentkit/prompt-<id>.txt) for a seeding round;
# the "already used ideas" text is assembled from the needs of the earlier seeds of the same property.
suf=$1; shift
for P in "$@"; do
  id=$(echo $P | tr 'C' 'c')$suf
  /verif/tools/mkwt.sh $id >/dev/null
  taken=$(python3 - "$P" <<'PY'
import json,glob,sys
P=sys.argv[1]; out=[]
for f in sorted(glob.glob('/verif/seeded/*/meta.json')):
    m=json.load(open(f))
    if m['property']==P: out.append(m.get('needs','')[:220].replace('"',"'"))
print(' || '.join(out))
PY
)
  python3 /verif/tools/mkprompt.py $id $P "$taken" >/dev/null
  echo $id
done
