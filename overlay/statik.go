package statik
